"""C13 finding 6: length constraints on a bytes field are published as minLength/maxLength of a JSON string, but they
are checked on the BYTE length while the published value is the UTF-8 *decoded* text (JSONEncoder.from_bytes), whose
length in characters is smaller for any non-ASCII content.
exit 1 = violation present, 0 = absent"""
import json, sys
from utype import Schema, Field, JsonSchemaGenerator
from utype.utils.encode import JSONEncoder


class Msg(Schema):
    body: bytes = Field(min_length=3)


schema = json.loads(json.dumps(JsonSchemaGenerator(Msg, output=True)(), cls=JSONEncoder))
fs = schema['properties']['body']
print('field schema:', json.dumps(fs))
bad = 0
for raw in ['abc', '中', 'hé']:      # 3, 3 and 3 bytes in utf-8
    inst = Msg(body=raw)
    out = json.loads(json.dumps(inst, cls=JSONEncoder))['body']
    ok = len(out) >= fs.get('minLength', 0)
    print('  input %r -> %r (%d bytes, accepted) -> JSON %s, %d chars: minLength ok=%s'
          % (raw, inst.body, len(inst.body), json.dumps(out), len(out), ok))
    if not ok:
        bad += 1
print('VIOLATION: %d accepted values violate the published minLength' % bad if bad else 'no violation')
sys.exit(1 if bad else 0)
