"""C13 finding 2: Decimal outputs outside +-(2**53-1) (and non-finite ones) are JSON-encoded as
*strings* by utype's JSONEncoder, while the generated schema says {"type": "number"}.
exit 1 = violation present, 0 = absent"""
import json, sys
from decimal import Decimal
from utype import Schema, JsonSchemaGenerator
from utype.utils.encode import JSONEncoder


class Account(Schema):
    balance: Decimal


schema = JsonSchemaGenerator(Account, output=True)()
print('output schema:', json.dumps(schema))
t = schema['properties']['balance']['type']
bad = 0
for raw in ['12.5', '9007199254740993', '1e20', '-12345678901234567890.5']:
    inst = Account(balance=raw)
    doc = json.loads(json.dumps(inst, cls=JSONEncoder))
    v = doc['balance']
    is_number = isinstance(v, (int, float)) and not isinstance(v, bool)
    print('  input %r -> %r -> JSON %s   (is a JSON number: %s, schema type: %r)' % (raw, inst.balance, json.dumps(doc), is_number, t))
    if t == 'number' and not is_number:
        bad += 1
print('VIOLATION: %d outputs are JSON strings but the schema demands "number"' % bad if bad else 'no violation')
sys.exit(1 if bad else 0)
