"""C13 finding 1: Enum schema takes its "type" from the LAST member only (and lists only the
declared members), so values the parser legitimately produces do not validate.
exit 1 = violation present, 0 = absent"""
import enum, json, sys
from utype import Schema, JsonSchemaGenerator
from utype.utils.encode import JSONEncoder


def jtype_ok(v, t):
    return {
        'null': v is None,
        'boolean': isinstance(v, bool),
        'integer': isinstance(v, int) and not isinstance(v, bool),
        'number': isinstance(v, (int, float)) and not isinstance(v, bool),
        'string': isinstance(v, str),
        'array': isinstance(v, list),
        'object': isinstance(v, dict),
    }[t]


class Code(enum.Enum):      # heterogeneous values: perfectly legal Enum, JSON-expressible
    unknown = 'x'
    ok = 1


class Nullable(enum.Enum):
    unset = None
    zero = 0


class Perm(enum.IntFlag):
    R = 1
    W = 2


bad = 0
for E, inputs in [(Code, ['x', 1]), (Nullable, [None, 0]), (Perm, [1, 3])]:
    class S(Schema):
        v: E
    schema = json.loads(json.dumps(JsonSchemaGenerator(S, output=True)(), cls=JSONEncoder))
    vs = schema['properties']['v']
    print(E.__name__, 'schema for field:', json.dumps({k: vs.get(k) for k in ('type', 'enum')}))
    for i in inputs:
        out = json.loads(json.dumps(S(v=i), cls=JSONEncoder))['v']
        ok_type = 'type' not in vs or jtype_ok(out, vs['type'])   # (a keyword that is absent constrains nothing)
        ok_enum = 'enum' not in vs or any(type(out) == type(e) and out == e for e in vs['enum'])
        print('   input %r -> output JSON %s : type ok=%s, in enum=%s' % (i, json.dumps(out), ok_type, ok_enum))
        if not (ok_type and ok_enum):
            bad += 1
print('VIOLATION: %d parser outputs do not validate against the generated schema' % bad if bad else 'no violation')
sys.exit(1 if bad else 0)
