"""C13 finding 7: JsonSchemaGenerator(mode=m) applies mode m to NESTED data classes too, but the parser never does:
a nested data class is parsed with its own Options (documented: "otherwise dataclass will parse data with its own
Options"), so in the nested object the listed properties / required / outputs differ from what the schema says.
exit 1 = violation present, 0 = absent"""
import json, sys
from utype import Schema, Field, Options, JsonSchemaGenerator, exc
from utype.utils.encode import JSONEncoder


class Profile(Schema):
    __options__ = Options(addition=False)
    nick: str = Field(mode='r', default='anon')        # read-only
    secret: str = Field(mode='w', default='s3cret')    # write-only


class User(Schema):
    name: str
    profile: Profile


bad = 0
mode = 'r'
out_schema = json.loads(json.dumps(JsonSchemaGenerator(User, mode=mode, output=True)(), cls=JSONEncoder))
in_schema = json.loads(json.dumps(JsonSchemaGenerator(User, mode=mode, output=False)(), cls=JSONEncoder))
p_out, p_in = out_schema['properties']['profile'], in_schema['properties']['profile']
print("mode 'r' output schema of nested profile:", json.dumps(p_out))
print("mode 'r' input  schema of nested profile:", json.dumps(p_in))

user = User.__from__({'name': 'bob', 'profile': {'nick': 'b'}}, options=Options(mode=mode))
doc = json.loads(json.dumps(user, cls=JSONEncoder))
print("parsed in mode 'r' ->", json.dumps(doc))
extra = set(doc['profile']) - set(p_out['properties'])
if extra and p_out.get('additionalProperties') is False:
    print('   output has keys', extra, 'but nested schema lists', list(p_out['properties']), 'with additionalProperties=false -> INVALID')
    bad += 1

# input view: schema says 'secret' is not an accepted name in mode r (additionalProperties false) - the parser takes it
try:
    u2 = User.__from__({'name': 'bob', 'profile': {'secret': 'x'}}, options=Options(mode=mode))
    if 'secret' not in p_in['properties']:
        print("   input {'profile': {'secret': 'x'}} accepted and used (%r) although not a listed property" % u2.profile.secret)
        bad += 1
except exc.ParseError as e:
    print('   rejected:', e)

print('VIOLATION: nested data class does not follow the mode the schema was generated for' if bad else 'no violation')
sys.exit(1 if bad else 0)
