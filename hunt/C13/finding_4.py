"""C13 finding 4: the documented constraint form `enum=<Enum class>` (docs/en/references/rule.md: "pass in a list,
set, or an Enum class") is copied verbatim into the schema: "enum": <class ...> -- not an array, not JSON.
exit 1 = violation present, 0 = absent"""
import enum, json, sys
from utype import Schema, Field, Rule, JsonSchemaGenerator
from utype.utils.encode import JSONEncoder


class Color(enum.Enum):
    red = 'r'
    green = 'g'


class ColorCode(str, Rule):
    enum = Color            # "use the range specified by the Enum subclass", value stays a str


class Paint(Schema):
    code: ColorCode
    other: str = Field(enum=Color, default='r')


print('parser:', dict(Paint(code='g')))        # works: {'code': 'g', 'other': 'r'}
bad = 0
for target in (ColorCode, Paint):
    doc = JsonSchemaGenerator(target, output=True)()
    print(target.__name__, 'schema:', doc)
    try:
        json.dumps(doc, cls=JSONEncoder)
    except TypeError as e:
        print('   not JSON-serialisable:', e)
        bad += 1
    nodes = [doc] + list(doc.get('properties', {}).values())
    for n in nodes:
        if 'enum' in n and not isinstance(n['enum'], (list, tuple, set)):
            print('   "enum" keyword is not an array:', n['enum'])
            bad += 1
print('VIOLATION: generated document is not a valid JSON Schema' if bad else 'no violation')
sys.exit(1 if bad else 0)
