"""C13 finding 5: `A ^ B` is published as {"oneOf": [...]}, but the parser's XOR returns a value whose exact Python
type equals one of the arguments WITHOUT testing the other conditions, and JSON types overlap (every integer is a
number, a date string is a string, a Literal is also its base type). Such outputs match 2 branches of oneOf -> invalid.
exit 1 = violation present, 0 = absent"""
import json, sys
from datetime import date
from utype import Schema, Rule, types, JsonSchemaGenerator
from utype.utils.encode import JSONEncoder


def matches(v, s):
    """tiny validator: type / exclusiveMinimum (all that these branches contain besides the annotation-only 'format');
    per the spec a number with zero fractional part (3.0) is an "integer\""""
    t = s.get('type')
    ok = {None: True,
          'integer': (isinstance(v, int) and not isinstance(v, bool)) or (isinstance(v, float) and v == int(v)),
          'number': isinstance(v, (int, float)) and not isinstance(v, bool),
          'string': isinstance(v, str)}[t]
    if 'exclusiveMinimum' in s and isinstance(v, (int, float)):
        ok = ok and v > s['exclusiveMinimum']
    return ok


class StrictInt(int, Rule):     # publishes as {"type": "integer"}
    pass


cases = [
    # documented spelling (docs/en/guide/type.md: "Int ^ bool ^ str"); utype.types.Int publishes as "number"
    ('types.PositiveInt ^ float', types.PositiveInt ^ float, [3.0, -1.5]),
    ('StrictInt ^ float', StrictInt ^ float, [3.0, 2.5]),
    ('types.Str ^ date', types.Str ^ date, [date(2020, 1, 1)]),
]
bad = 0
for label, t, inputs in cases:
    # also as a field of a data class, the realistic use
    class S(Schema):
        v: t
    schema = json.loads(json.dumps(JsonSchemaGenerator(S, output=True)(), cls=JSONEncoder))['properties']['v']
    print(label, '->', json.dumps(schema))
    for i in inputs:
        out = json.loads(json.dumps(S(v=i), cls=JSONEncoder))['v']
        n = sum(1 for br in schema['oneOf'] if matches(out, br))
        print('    input %r -> output JSON %s matches %d branch(es) of oneOf' % (i, json.dumps(out), n))
        if n != 1:
            bad += 1
print('VIOLATION: %d parser outputs fail their own oneOf schema' % bad if bad else 'no violation')
sys.exit(1 if bad else 0)
