"""C13 finding 8: a @property field whose setter is typed but whose getter has no return annotation: the OUTPUT view
falls back to the INPUT (setter) type, although the published value is whatever the getter returns, unconverted.
exit 1 = violation present, 0 = absent"""
import json, sys
from utype import Schema, JsonSchemaGenerator
from utype.utils.encode import JSONEncoder


class Item(Schema):
    @property
    def level(self):                 # no '-> ...': the value is emitted as is
        return 'L%d' % self._level

    @level.setter
    def level(self, value: int):
        self._level = value


out_schema = JsonSchemaGenerator(Item, output=True)()
print('output schema:', json.dumps(out_schema))
doc = json.loads(json.dumps(Item(level='3'), cls=JSONEncoder))
print("Item(level='3') ->", json.dumps(doc))
t = out_schema['properties']['level'].get('type')
bad = (t == 'integer' and not isinstance(doc['level'], int))
print('VIOLATION: output "level" is %r but the output schema says type %r' % (doc['level'], t) if bad else 'no violation')
sys.exit(1 if bad else 0)
