"""C13 finding 9: default values are never converted/validated, and the docs' own idiom `x: T = Field(default=None)`
(docs/en/references/field.md lines 380-388, 875) puts null into the output, while the output schema says the key is
required AND of type T (no null branch, no "default" keyword).
exit 1 = violation present, 0 = absent"""
import json, sys
from utype import Schema, Field, JsonSchemaGenerator
from utype.utils.encode import JSONEncoder


class RequestSchema(Schema):            # taken from docs/en/references/field.md ("deprecated" example)
    url: str
    query: dict = Field(default=None)
    data: bytes = Field(default=None)


schema = json.loads(json.dumps(JsonSchemaGenerator(RequestSchema, output=True)(), cls=JSONEncoder))
print('output schema:', json.dumps(schema))
doc = json.loads(json.dumps(RequestSchema(url='https://x.y'), cls=JSONEncoder))
print('output:', json.dumps(doc))
bad = 0
for k, v in doc.items():
    t = schema['properties'][k].get('type')
    if v is None and t not in (None, 'null'):
        print('   %r is null, is listed in required=%s, but its schema type is %r' % (k, k in schema.get('required', []), t))
        bad += 1
print('VIOLATION: %d output values do not validate' % bad if bad else 'no violation')
sys.exit(1 if bad else 0)
