"""C13 finding 10: sharing one `defs`/`names` registry between generators (what the `defs` argument is for: "pass in a
defs dict to generate re-use '$defs'") -- the registry is keyed by the class only, so the second view/mode silently
gets a $ref to the definition generated for the FIRST view, although the names are meant to differ ('_O', '_<mode>').
exit 1 = violation present, 0 = absent"""
import json, sys
from datetime import datetime
from utype import Schema, Field, JsonSchemaGenerator
from utype.utils.encode import JSONEncoder


class KeyInfo(Schema):                      # the class from tests/test_cls.py::test_input_output
    access_key: str = Field(no_output=True)
    last_activity: datetime = Field(default_factory=datetime.now, no_input=True)


defs, names = {}, {}
g_in = JsonSchemaGenerator(KeyInfo, defs=defs, names=names, output=False)
ref_in = g_in()
g_out = JsonSchemaGenerator(KeyInfo, defs=defs, names=names, output=True)
ref_out = g_out()
all_defs = json.loads(json.dumps(g_out.get_defs(), cls=JSONEncoder))
print('input  view ->', ref_in)
print('output view ->', ref_out)
print('$defs:', json.dumps(all_defs))
standalone = JsonSchemaGenerator(KeyInfo, output=True)()
print('stand-alone output schema:', json.dumps(json.loads(json.dumps(standalone, cls=JSONEncoder))))
resolved = all_defs[ref_out['$ref'].split('/')[-1]]
doc = json.loads(json.dumps(KeyInfo(access_key='QWERTY'), cls=JSONEncoder))
print('parser output:', json.dumps(doc))
missing = [r for r in resolved.get('required', []) if r not in doc]
bad = bool(missing) or set(resolved['properties']) != set(standalone['properties'])
print('VIOLATION: output view resolves to the input definition (required %s missing from a real output)' % missing
      if bad else 'no violation')
sys.exit(1 if bad else 0)
