"""C13 finding 3: Options(addition=<annotation that is not a plain class>) -- typing generics, Optional[...],
forward-reference strings -- is honoured by the parser (extra keys are converted), but the generator copies the
raw Python object into "additionalProperties": the document is not a JSON Schema (not even JSON-serialisable).
exit 1 = violation present, 0 = absent"""
import json, sys
from typing import List, Optional
from utype import Schema, Options, JsonSchemaGenerator
from utype.utils.encode import JSONEncoder

bad = 0
for label, addition in [('List[int]', List[int]), ('Optional[int]', Optional[int]), ("'int' (forward ref)", 'int')]:
    class Bag(Schema):
        __options__ = Options(addition=addition)
        name: str = ''

    # the parser does convert unknown keys with that type:
    sample = {'x': ['1', 2]} if label == 'List[int]' else {'x': '3'}
    print(label, ': parser converts extras:', sample, '->', dict(Bag(**sample)))
    for output in (False, True):
        doc = JsonSchemaGenerator(Bag, output=output)()
        ap = doc.get('additionalProperties')
        valid = isinstance(ap, (dict, bool))
        try:
            json.dumps(doc, cls=JSONEncoder)
            serialisable = True
        except TypeError as e:
            serialisable = False
        print('   output=%s additionalProperties=%r  -> is a schema (object/bool): %s, JSON-serialisable: %s'
              % (output, ap, valid, serialisable))
        if not valid or not serialisable:
            bad += 1
print('VIOLATION: %d generated documents are not valid JSON Schema' % bad if bad else 'no violation')
sys.exit(1 if bad else 0)
