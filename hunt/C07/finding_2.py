"""C07 finding 2: when the recomputation of a dependant @property fails after a field
assignment, the instance is left inconsistent:
  (a) the output of the property violates its declared constraint -> the assignment raises,
      but the new field value has already been stored (and the property keeps its old value);
  (b) the getter itself raises -> only a warning, the new field value is stored and the
      property keeps a stale value computed from the old data (at construction the same
      failure leaves the property absent)."""
import sys
import warnings

warnings.simplefilter("ignore")
from utype import Schema, Field


class Order(Schema):
    price: int
    qty: int

    @property
    @Field(dependencies=["price", "qty"], le=100)
    def total(self) -> int:
        return self.price * self.qty

    @property
    @Field(dependencies=["price", "qty"])
    def unit_ratio(self) -> float:
        return self.price / self.qty


violations = []

# (a) raises, but the data is not "as it was"
for label, op in [
    ("s['price'] = 1000", lambda s: s.__setitem__("price", 1000)),
    ("s.price = 1000", lambda s: setattr(s, "price", 1000)),
    ("s.update(price=1000)", lambda s: s.update(price=1000)),
]:
    s = Order(price=10, qty=2)
    before = dict(s)
    try:
        op(s)
        raised = None
    except Exception as e:
        raised = e
    after = dict(s)
    print(f"(a) {label}: raised={type(raised).__name__ if raised else None} before={before} after={after}")
    if raised is not None and after != before:
        violations.append(f"(a) {label} raised {type(raised).__name__} but changed the data: {before} -> {after}")
    if after.get("total") != after["price"] * after["qty"]:
        violations.append(f"(a) {label}: total={after.get('total')} is stale for price={after['price']}, qty={after['qty']}")

# (b) getter fails: no exception, stale property
s = Order(price=10, qty=2)
before = dict(s)
try:
    s.qty = 0
    raised = None
except Exception as e:
    raised = e
after = dict(s)
print(f"(b) s.qty = 0: raised={raised!r} before={before} after={after}")
try:
    print("    fresh Order(price=10, qty=0) ->", dict(Order(price=10, qty=0)))
except Exception as e:
    print("    fresh Order(price=10, qty=0) raised", repr(e))
if raised is None and after["qty"] == 0 and "unit_ratio" in after:
    violations.append(
        f"(b) s.qty = 0 succeeded but unit_ratio={after['unit_ratio']} is the stale value computed from qty=2"
    )

if violations:
    print("\nVIOLATION PRESENT:")
    for v in violations:
        print("  -", v)
    sys.exit(1)
print("\nno violation")
sys.exit(0)
