"""C07 finding 3: on the attribute-based base class (utype.DataClass, and
@utype.dataclass(set_class_properties=True)) a @property field with a setter is not
hooked: attribute assignment bypasses the type / constraints / immutable flag declared on
the setter, although the constructor enforces them (and utype.Schema enforces them on
assignment too)."""
import sys
import warnings

warnings.simplefilter("ignore")
import utype
from utype import Schema, DataClass, Field


def build(base):
    class Article(base):
        id: int
        _title: str = ""
        _code: str = ""

        @property
        def title(self) -> str:
            return self._title

        @title.setter
        def title(self, val: str = Field(max_length=5)):
            self._title = val

        @property
        def code(self) -> str:
            return self._code

        @code.setter
        def code(self, val: str = Field(immutable=True)):
            self._code = val

    return Article


@utype.dataclass(set_class_properties=True)
class Decorated:
    id: int
    _title: str = ""

    @property
    def title(self) -> str:
        return self._title

    @title.setter
    def title(self, val: str = Field(max_length=5)):
        self._title = val


violations = []


def attempt(label, obj, name, value):
    try:
        setattr(obj, name, value)
        raised = None
    except Exception as e:
        raised = type(e).__name__
    got = getattr(obj, name)
    print(f"{label}: {name} = {value!r}: raised={raised} -> {name}={got!r}")
    return raised, got


for base in (Schema, DataClass):
    cls = build(base)
    # constructor: parsed and validated in both base classes
    try:
        cls(id=1, title="x" * 10, code="c")
        print(f"{base.__name__}: constructor accepted an over-long title")
    except Exception as e:
        print(f"{base.__name__}: constructor rejects over-long title ({type(e).__name__})")

    o = cls(id=1, title=b"abc", code="c")
    print(f"{base.__name__}: after init title={o.title!r} code={o.code!r}")

    raised, got = attempt(base.__name__, o, "title", "x" * 10)
    if not raised and len(got) > 5:
        violations.append(f"{base.__name__}: title='xxxxxxxxxx' stored although max_length=5")
    raised, got = attempt(base.__name__, o, "title", [1, 2])
    if not raised and not isinstance(got, str):
        violations.append(f"{base.__name__}: title={got!r} stored unparsed (declared str)")
    raised, got = attempt(base.__name__, o, "code", "changed")
    if got != "c":
        violations.append(f"{base.__name__}: immutable property 'code' changed to {got!r}")

o = Decorated(id=1, title="abc")
raised, got = attempt("@dataclass(set_class_properties=True)", o, "title", "x" * 10)
if not raised and len(got) > 5:
    violations.append("@utype.dataclass(set_class_properties=True): title stored although max_length=5")

if violations:
    print("\nVIOLATION PRESENT:")
    for v in violations:
        print("  -", v)
    sys.exit(1)
print("\nno violation")
sys.exit(0)
