"""C07 finding 4: the mutation paths use the options of the class, not the runtime options
the instance was created with (`Cls.__from__(data, options=...)`, documented in
docs/en/guide/cls.md "runtime Options"):
  (a) DataClass: Options(immutable=True) given at runtime is ignored by attribute
      assignment / deletion (Schema honours it);
  (b) Schema: a dependant @property declared no_output in the instance's mode is pushed
      into the key view when a dependency is assigned (it is correctly absent after
      construction, and plain fields with the same no_output are handled correctly)."""
import sys
import warnings

warnings.simplefilter("ignore")
from utype import Schema, DataClass, Field, Options

violations = []


# ---------------- (a)
class PointDC(DataClass):
    x: int
    y: int = 0


class PointS(Schema):
    x: int
    y: int = 0


for cls in (PointS, PointDC):
    p = cls.__from__({"x": 1, "y": 2}, options=Options(immutable=True))
    res = []
    for label, op in [("p.x = 5", lambda: setattr(p, "x", 5)), ("del p.y", lambda: delattr(p, "y"))]:
        try:
            op()
            res.append(f"{label}: ok")
        except Exception as e:
            res.append(f"{label}: {type(e).__name__}")
    print(f"(a) {cls.__name__} created with Options(immutable=True): {res} -> {p!r}")
    if p.x != 1:
        violations.append(f"(a) {cls.__name__}: instance created with Options(immutable=True) but x changed to {p.x}")
    if "y" not in p.__dict__ and not (isinstance(p, dict) and "y" in p):
        violations.append(f"(a) {cls.__name__}: instance created with Options(immutable=True) but y was deleted")


# ---------------- (b)
class Account(Schema):
    balance: int
    pin: str = Field(no_output="w", default="0000")

    @property
    @Field(dependencies=["balance"], no_output="w")
    def balance_cents(self) -> int:
        return self.balance * 100


s = Account.__from__({"balance": 1}, options=Options(mode="w"))
print("(b) after init (mode='w'):", dict(s))
s.pin = "1234"           # plain no_output='w' field: stays out of the key view
s.balance = 2            # dependency of the no_output='w' property
print("(b) after s.pin='1234'; s.balance=2:", dict(s))
fresh = Account.__from__({"balance": 2, "pin": "1234"}, options=Options(mode="w"))
print("(b) fresh instance from the same data:", dict(fresh))
if dict(s) != dict(fresh):
    violations.append(
        f"(b) mode='w' instance exposes no_output='w' property after assignment: {dict(s)} vs fresh {dict(fresh)}"
    )

if violations:
    print("\nVIOLATION PRESENT:")
    for v in violations:
        print("  -", v)
    sys.exit(1)
print("\nno violation")
sys.exit(0)
