"""C07 finding 1: assigning an invalid value to a field whose error policy is 'exclude'
(Field(on_error='exclude') or Options(invalid_values='exclude')) stores the internal
`unprovided` sentinel in the instance instead of rejecting / excluding the value."""
import sys
import warnings

warnings.simplefilter("ignore")
from utype import Schema, DataClass, Field, Options


class Item(Schema):
    name: str
    qty: int = Field(ge=0, on_error="exclude", required=False)


class ItemDC(DataClass):
    name: str
    qty: int = Field(ge=0, on_error="exclude", required=False)


class ItemOpt(Schema):
    __options__ = Options(invalid_values="exclude")
    name: str
    qty: int = Field(ge=0, required=False)


def is_bad(v):
    return not (isinstance(v, int) and not isinstance(v, bool) and v >= 0)


violations = []

# the documented behaviour of 'exclude' at construction: the key is simply absent
print("init with invalid qty ->", dict(Item(name="x", qty="oops")))

for label, op in [
    ("s['qty'] = 'oops'", lambda s: s.__setitem__("qty", "oops")),
    ("s.qty = 'oops'", lambda s: setattr(s, "qty", "oops")),
    ("s.update(qty=-5)", lambda s: s.update(qty=-5)),
    ("s |= {'qty': 'oops'}", lambda s: s.__ior__({"qty": "oops"})),
]:
    for cls in (Item, ItemOpt):
        s = cls(name="x", qty=2)
        try:
            op(s)
            raised = None
        except Exception as e:  # raising (and leaving qty == 2) would be fine
            raised = e
        present = dict.__contains__(s, "qty")
        value = dict.get(s, "qty")
        print(f"{cls.__name__}: {label}: raised={raised!r} dict={dict(s)!r} s.qty={getattr(s, 'qty', '<absent>')!r}")
        if present and is_bad(value):
            violations.append(f"{cls.__name__}: {label} left qty={value!r} in the instance")

# setdefault on an absent key
s = Item(name="x")
ret = s.setdefault("qty", "oops")
print("Item: setdefault('qty', 'oops') ->", repr(ret), dict(s))
if dict.__contains__(s, "qty") and is_bad(dict.get(s, "qty")):
    violations.append(f"Item: setdefault left qty={dict.get(s, 'qty')!r}")

# attribute-based base class
d = ItemDC(name="x", qty=2)
try:
    d.qty = "oops"
except Exception as e:
    print("DataClass raised", repr(e))
print("ItemDC: d.qty = 'oops' ->", d.__dict__)
if "qty" in d.__dict__ and is_bad(d.__dict__["qty"]):
    violations.append(f"ItemDC: d.qty='oops' left qty={d.__dict__['qty']!r}")

if violations:
    print("\nVIOLATION PRESENT:")
    for v in violations:
        print("  -", v)
    sys.exit(1)
print("\nno violation")
sys.exit(0)
