"""C04 finding 4: a 9-10 character str ('1e9999999') given to an int keeps the process busy for hours.

Property clause violated: "parsing always terminates" / "no input makes the call loop forever"
(QUANTIFIED OVER ... "huge integers", numbers in every str / Decimal spelling).
Run:  PYTHONPATH=<tree> /venv/bin/python finding_4.py      (exit 1 = violation present, 0 = absent)
"""
import subprocess
import sys
import time

CHILD = r"""
import sys, time
import utype
from utype import exc

@utype.parse
def get_page(page: int = utype.Param(ge=0, le=1000)):
    return page

s = time.time()
try:
    r = get_page(sys.argv[1])
    print('value with %d bits after %.2fs' % (r.bit_length(), time.time() - s))
except exc.ParseError as e:
    print('ParseError after %.2fs' % (time.time() - s))
"""


def run(text, timeout):
    s = time.time()
    try:
        out = subprocess.run([sys.executable, '-c', CHILD, text], capture_output=True, text=True, timeout=timeout)
        return time.time() - s, (out.stdout.strip() or out.stderr.strip()[-200:])
    except subprocess.TimeoutExpired:
        return None, 'NO ANSWER within %ss' % timeout


for text in ('1e3', '1e30000', '1e100000', '1e300000'):
    took, out = run(text, 120)
    print('get_page(%r): %s' % (text, out))
took, out = run('1e9999999', 30)
print("get_page('1e9999999'): %s" % out)
if took is None:
    print("VIOLATION: the time grows with the square of the exponent (x9 for x3 above): '1e999999' needs ~30s, "
          "'1e9999999' ~1 hour, '1e99999999' days - all inside one uninterruptible int(Decimal) call, "
          "before the le=1000 constraint is ever looked at")
    sys.exit(1)
sys.exit(0)
