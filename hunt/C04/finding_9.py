"""C04 finding 9: Rule.parse runs pre_validate, the element parser and the re-creation of the origin container
outside its error handling; the raw exception escapes from a constrained type used directly.

Property clause violated: "any input whatsoever produces either a value or an exception that is an instance of
the library's ParseError ... no other exception type escapes" (constrained types).
Run:  PYTHONPATH=<tree> /venv/bin/python finding_9.py      (exit 1 = violation present, 0 = absent)
"""
import collections
import sys
import warnings
from datetime import datetime
from typing import DefaultDict, List, Set, Union

from utype import Rule, exc, types

warnings.simplefilter('ignore')

Counts = Rule.parse_annotation(DefaultDict[str, int])
Keys = Rule.parse_annotation(Set[Union[int, List[int]]])

violated = False
for label, call in [
    # a) built-in type utype.types.Timestamp: pre_validate() calls datetime.timestamp() unguarded (rule.py:1746)
    ("types.Timestamp(datetime.min)", lambda: types.Timestamp(datetime.min)),
    ("types.Timestamp(datetime(1, 1, 1, 12))", lambda: types.Timestamp(datetime(1, 1, 1, 12))),
    # b) cls.__origin__(value) after the elements were parsed (rule.py:1776-1779)
    ("DefaultDict[str, int](defaultdict(int, a='1'))   <- the only input type it can accept",
     lambda: Counts(collections.defaultdict(int, a='1'))),
    ("Set[Union[int, List[int]]]([1, (2, 3)])", lambda: Keys([1, (2, 3)])),
    ("control: types.Timestamp('x')", lambda: types.Timestamp('x')),
    ("control: DefaultDict[str, int]({'a': '1'})", lambda: Counts({'a': '1'})),
]:
    try:
        print(label, '->', repr(call()))
    except exc.ParseError as e:
        print(label, '-> ParseError:', str(e)[:70])
    except Exception as e:
        violated = True
        print(label, '-> VIOLATION: %s: %s' % (type(e).__name__, e))
sys.exit(1 if violated else 0)
