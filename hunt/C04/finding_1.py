"""C04 finding 1: a datetime / date target never returns for an infinite iterator (and needs ~1 day for range(10**12)).

Property clause violated: "no input makes the call loop forever" / "parsing always terminates"
(QUANTIFIED OVER ... "iterators, arbitrary objects").
Run:  PYTHONPATH=<tree> /venv/bin/python finding_1.py      (exit 1 = violation present, 0 = absent)
"""
import subprocess
import sys
import time

CHILD = r"""
import sys, time, itertools
from datetime import datetime, date
import utype
from utype import types, exc, Schema

class Event(Schema):
    day: date

@utype.parse
def at(when: datetime):
    print('BODY ENTERED')

value = eval(sys.argv[2], {'itertools': itertools})
s = time.time()
try:
    {'rule': lambda: types.Datetime(value), 'schema': lambda: Event(day=value), 'func': lambda: at(value)}[sys.argv[1]]()
    print('value')
except exc.ParseError as e:
    print('ParseError after %.2fs' % (time.time() - s))
"""


def run(how, expr, timeout):
    s = time.time()
    try:
        out = subprocess.run([sys.executable, '-c', CHILD, how, expr], capture_output=True, text=True, timeout=timeout)
        return time.time() - s, (out.stdout.strip() or out.stderr.strip()[-200:])
    except subprocess.TimeoutExpired:
        return None, 'NO ANSWER within %ss' % timeout


violated = False
for how, expr, timeout in [
    ('rule', 'range(10**6)', 60),
    ('rule', 'range(10**7)', 60),
    ('rule', 'range(4 * 10**7)', 60),           # linear: ~ 0.1 s per million -> range(10**12): about one day
    ('rule', 'range(10**12)', 10),
    ('rule', 'itertools.count()', 10),          # never
    ('schema', 'itertools.repeat(0)', 10),
    ('func', 'itertools.cycle("ab")', 10),
    ('rule', 'object()', 10),                   # control: rejected at once
]:
    took, out = run(how, expr, timeout)
    print('%-6s %-22s -> %s' % (how, expr, out))
    if took is None:
        violated = True
if violated:
    print('VIOLATION: the conversion to datetime / date scans the whole input object with `"GMT" in data`; for an '
          'infinite iterator the call never returns (a C level loop, not even interruptible by a signal handler)')
sys.exit(1 if violated else 0)
