"""C04 finding 7: a settable @property field whose getter is Field(no_output=True) makes every construction raise KeyError.

Property clause violated: "any input whatsoever produces either a value or an exception that is an instance of
the library's ParseError ... no other exception type escapes" (data classes) - here for VALID input.
Run:  PYTHONPATH=<tree> /venv/bin/python finding_7.py      (exit 1 = violation present, 0 = absent)
"""
import sys
import warnings

from utype import DataClass, Field, Schema, exc

warnings.simplefilter('ignore')


class Article(Schema):
    _title: str = ''

    @property
    @Field(no_output=True)                     # documented getter option: "do not output the calculated property value"
    def title(self) -> str:
        return self._title

    @title.setter
    def title(self, val: str = Field(max_length=50)):   # documented setter form
        self._title = val


class ArticleDC(DataClass):
    _title: str = ''

    @property
    @Field(no_output=True)
    def title(self) -> str:
        return self._title

    @title.setter
    def title(self, val: str = Field(max_length=50)):
        self._title = val


violated = False
for cls in (Article, ArticleDC):
    for data in ({'title': 'hello'}, {'title': 'x' * 51}):
        label = '%s(title=%r)' % (cls.__name__, data['title'][:8] + ('...' if len(data['title']) > 8 else ''))
        try:
            inst = cls(**data)
            print(label, '-> instance, .title =', repr(inst.title))
        except exc.ParseError as e:
            print(label, '-> ParseError:', str(e)[:70])
        except Exception as e:
            violated = True
            print(label, '-> VIOLATION: %s: %s' % (type(e).__name__, e))
sys.exit(1 if violated else 0)
