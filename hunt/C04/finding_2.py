"""C04 finding 2: utype.types.EmailStr hangs (exponential regex backtracking) on short non-email strings.

Property clause violated: "no input makes the call loop forever" / "parsing always terminates".
Run:  PYTHONPATH=<tree> /venv/bin/python finding_2.py      (exit 1 = violation present, 0 = absent)
"""
import subprocess
import sys
import time

CHILD = r"""
import sys, time
from utype import types, exc
n = int(sys.argv[1])
s = time.time()
try:
    types.EmailStr('A' * n + '@a')
    print('value')
except exc.ParseError:
    print('ParseError after %.2fs' % (time.time() - s))
"""


def run(n, timeout):
    s = time.time()
    try:
        out = subprocess.run([sys.executable, '-c', CHILD, str(n)], capture_output=True, text=True, timeout=timeout)
        return time.time() - s, (out.stdout.strip() or out.stderr.strip()[-200:])
    except subprocess.TimeoutExpired:
        return None, 'NO ANSWER within %ss' % timeout


violated = False
prev = None
for n in (24, 28, 32, 36):
    took, out = run(n, 60)
    print("EmailStr('A'*%d + '@a'): %s -> %s" % (n, 'timeout' if took is None else '%.2fs' % took, out))
# a 64 character string (e.g. an upper-case hex digest followed by '@a'): expected ~ 1.6 ** 64 steps
took, out = run(64, 20)
print("EmailStr('A'*64 + '@a'): %s" % out)
if took is None:
    violated = True
    print('VIOLATION: a 66 character str keeps EmailStr busy (exponential growth above, x~6.8 per 4 characters); '
          'the call does not terminate in any practical time')
sys.exit(1 if violated else 0)
