"""C04 finding 3: a self-referencing data class behind Optional / Union costs 3 ** depth to reject.

Property clause violated: "parsing always terminates" / "no input makes the call loop forever"
(QUANTIFIED OVER ... "deeply nested containers").
Run:  PYTHONPATH=<tree> /venv/bin/python finding_3.py      (exit 1 = violation present, 0 = absent)
"""
import subprocess
import sys
import time

CHILD = r"""
import sys, time
from typing import Optional
from utype import Schema, exc

class Node(Schema):
    value: int = 0
    next: Optional['Node'] = None

depth = int(sys.argv[1])
data = {'value': 'not-a-number'}          # the only invalid item, at the innermost level
for i in range(depth):
    data = {'value': i, 'next': data}
s = time.time()
try:
    Node.__from__(data)
    print('value')
except exc.ParseError as e:
    print('ParseError after %.2fs, message of %d characters' % (time.time() - s, len(str(e))))
"""


def run(depth, timeout):
    s = time.time()
    try:
        out = subprocess.run([sys.executable, '-c', CHILD, str(depth)], capture_output=True, text=True, timeout=timeout)
        return time.time() - s, (out.stdout.strip() or out.stderr.strip()[-200:])
    except subprocess.TimeoutExpired:
        return None, 'NO ANSWER within %ss' % timeout


for depth in (4, 5, 6, 7, 8):
    took, out = run(depth, 120)
    print('linked list of %2d nodes: %s' % (depth + 1, out))
took, out = run(16, 30)
print('linked list of 17 nodes: %s' % out)
if took is None:
    print('VIOLATION: time and message size triple with every level; 17 nested dicts (< 400 bytes of JSON) '
          'need ~3**16 parses of the innermost node, 30 levels would need centuries')
    sys.exit(1)
sys.exit(0)
