"""C04 finding 8: two spellings of one field (alias / case-insensitive name) are compared with != outside any
error handling; a signalling Decimal NaN makes decimal.InvalidOperation escape from data classes and functions.

Property clause violated: "no other exception type escapes" (QUANTIFIED OVER ... "NaN in every numeric/str/Decimal spelling").
Run:  PYTHONPATH=<tree> /venv/bin/python finding_8.py      (exit 1 = violation present, 0 = absent)
"""
import sys
from decimal import Decimal

import utype
from utype import Field, Options, Schema, exc


class Price(Schema):
    amount: Decimal = Field(alias_from=['value'])


class PriceCI(Schema):
    __options__ = Options(case_insensitive=True)
    amount: Decimal


class PriceDFS(Schema):
    __options__ = Options(data_first_search=True)
    amount: Decimal = Field(alias_from=['value'])


@utype.parse
def pay(amount: Decimal = Field(alias_from=['value'])):
    print('   BODY ENTERED')
    return amount


snan = Decimal('sNaN')
violated = False
for label, call in [
    ("Price(amount=1, value=sNaN)", lambda: Price(amount=1, value=snan)),
    ("PriceCI(amount=1, AMOUNT=sNaN)", lambda: PriceCI(amount=1, AMOUNT=snan)),
    ("PriceDFS(amount=1, value=sNaN)", lambda: PriceDFS(amount=1, value=snan)),
    ("pay(amount=1, value=sNaN)", lambda: pay(amount=1, value=snan)),
    ("control: Price(amount=1, value=NaN)", lambda: Price(amount=1, value=Decimal('NaN'))),
    ("control: Price(value=sNaN)", lambda: Price(value=snan)),
]:
    try:
        print(label, '->', repr(call()))
    except exc.ParseError as e:
        print(label, '-> ParseError (%s)' % type(e).__name__)
    except Exception as e:
        violated = True
        print(label, '-> VIOLATION: %s.%s: %s' % (type(e).__module__, type(e).__name__, e))
sys.exit(1 if violated else 0)
