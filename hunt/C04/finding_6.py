"""C04 finding 6: the key '_obj_self' in the input of any Schema / DataClass / @utype.dataclass raises a plain TypeError.

Property clause violated: "any input whatsoever produces either a value or an exception that is an instance of
the library's ParseError ... no other exception type escapes" (data classes; "mappings with arbitrary nested
content (string-keyed at the top level of a data class)").
Run:  PYTHONPATH=<tree> /venv/bin/python finding_6.py      (exit 1 = violation present, 0 = absent)
"""
import sys

import utype
from utype import Options, Schema, exc, type_transform


class User(Schema):
    name: str = ''


class OpenUser(Schema):
    __options__ = Options(addition=True)      # every additional key is welcome
    name: str = ''


@utype.dataclass
class Point:
    x: int = 0


violated = False
for label, call in [
    ("User.__from__({'_obj_self': 1})", lambda: User.__from__({'_obj_self': 1})),
    ("User.__from__('{\"_obj_self\": 1}')   (JSON text)", lambda: User.__from__('{"_obj_self": 1}')),
    ("User(**{'_obj_self': 1})", lambda: User(**{'_obj_self': 1})),
    ("OpenUser.__from__({'name': 'a', '_obj_self': 1})", lambda: OpenUser.__from__({'name': 'a', '_obj_self': 1})),
    ("type_transform({'_obj_self': 1}, Point)", lambda: type_transform({'_obj_self': 1}, Point)),
    ("control: User.__from__({'self': 1, 'cls': 2})", lambda: User.__from__({'self': 1, 'cls': 2})),
]:
    try:
        print(label, '->', repr(call()))
    except exc.ParseError as e:
        print(label, '-> ParseError:', e)
    except Exception as e:
        violated = True
        print(label, '-> VIOLATION: %s: %s' % (type(e).__name__, e))

# the sibling parameter of the generated __init__ is taken over silently (not an exception, shown for the root cause)
print("User.__from__({'_d': {'name': 'injected'}}) ->", repr(User.__from__({'_d': {'name': 'injected'}})))
sys.exit(1 if violated else 0)
