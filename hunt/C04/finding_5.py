"""C04 finding 5: a Rule with `contains` lets OverflowError / decimal.InvalidOperation / AttributeError escape.

Property clause violated: "any input whatsoever produces either a value or an exception that is an instance of
the library's ParseError ...; no other exception type escapes" (constrained types).
Run:  PYTHONPATH=<tree> /venv/bin/python finding_5.py      (exit 1 = violation present, 0 = absent)
"""
import sys
import warnings
from datetime import datetime
from decimal import Decimal

from utype import Rule, exc

warnings.simplefilter('ignore')


class IntBag(list, Rule):
    contains = int


class DecimalBag(list, Rule):
    contains = Decimal


class DatetimeBag(list, Rule):
    contains = datetime


cases = [
    (IntBag, [float('inf')]),        # int(Decimal('Infinity')) -> OverflowError
    (IntBag, ['1', float('inf')]),   # even though another element does match
    (DecimalBag, ['abc']),           # Decimal('abc') -> decimal.InvalidOperation (an ArithmeticError)
    (DatetimeBag, [[]]),             # [].endswith -> AttributeError
    (IntBag, ['abc']),               # control: TypeError is handled -> ConstraintError
]
violated = False
for rule, value in cases:
    try:
        out = rule(value)
        print('%s(%r) -> %r' % (rule.__name__, value, out))
    except exc.ParseError as e:
        print('%s(%r) -> ParseError (%s)' % (rule.__name__, value, type(e).__name__))
    except Exception as e:
        violated = True
        print('%s(%r) -> VIOLATION: %s: %s' % (rule.__name__, value, type(e).__name__, e))
sys.exit(1 if violated else 0)
