"""
C19 finding 5 (low severity): Rule.annotate() writes the Literal values into the constraints dict it
is given, which is the Field object's own dict. A Field object that is used once on a Literal
annotation carries that enum/const into every other declaration it is used in afterwards.
Run: PYTHONPATH=<tree> /venv/bin/python finding_5.py   (exit 1 = violation present)
"""
import sys
import warnings
from typing import Literal

warnings.simplefilter("ignore")

from utype import Schema, Field

short = Field(max_length=5, required=False)      # a reusable field configuration
print("constraints of the Field object before:", short.constraints)


class Name(Schema):
    name: str = short


before = repr(Name(name="bob"))
print("Name(name='bob') ->", before)


class Kind(Schema):
    kind: Literal["x", "y"] = short           # same Field object on a Literal annotation


print("constraints of the Field object after :", short.constraints)


class Name2(Schema):                             # textually identical to Name
    name: str = short


try:
    after = repr(Name2(name="bob"))
except Exception as e:  # noqa
    after = f"{type(e).__name__}: {e}"
print("Name2(name='bob') (same declaration as Name) ->", after)

print()
if "enum" in short.constraints or "const" in short.constraints or not after.startswith("Name2("):
    print("VIOLATION PRESENT: the Field object was modified by an unrelated declaration; "
          "an identical declaration now parses the same input differently")
    sys.exit(1)
print("no violation")
sys.exit(0)
