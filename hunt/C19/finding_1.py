"""
C19 finding 1: the `const` constraint hands the declaration's own const object back as the parse
result, so mutating a result rewrites the constraint and changes the outcome of later parses.
Run: PYTHONPATH=<tree> /venv/bin/python finding_1.py   (exit 1 = violation present)
"""
import sys
import warnings

warnings.simplefilter("ignore")

from utype import Schema, Field
from utype.specs.json_schema.parser import JsonSchemaParser

violations = []


# --- A. plain Field(const=<list>) -------------------------------------------------------------
class Conf(Schema):
    tags: list = Field(const=["a", "b"])


def attempt(cls, **data):
    try:
        return "ok", cls(**data)
    except Exception as e:  # noqa
        return "error", f"{type(e).__name__}: {e}"


first = attempt(Conf, tags=["a", "b"])
print("A1. first parse of ['a','b']        ->", first)
first[1].tags.append("c")                      # post-parse mutation of a *result*
second = attempt(Conf, tags=["a", "b"])
third = attempt(Conf, tags=["a", "b", "c"])
print("A2. same input after result mutation ->", second)
print("A3. ['a','b','c'] (must be rejected)  ->", third)
if first[0] == "ok" and second[0] != "ok":
    violations.append("A: same declaration + same input: accepted, then rejected after a result was mutated")
if third[0] == "ok":
    violations.append("A: an input that violates the declared const is now accepted")

# --- B. the same through the JSON-schema entry point: the caller's schema document is modified ---
doc = {
    "type": "object",
    "properties": {"tags": {"type": "array", "const": ["a", "b"]}},
    "required": ["tags"],
}
Generated = JsonSchemaParser(doc, name="Generated")()
inst = Generated(tags=["a", "b"])
inst.tags.append("c")
print("B1. caller's JSON schema document after mutating a parse result ->", doc["properties"]["tags"])
print("B2. second parse of ['a','b'] ->", attempt(Generated, tags=["a", "b"]))
if doc["properties"]["tags"]["const"] != ["a", "b"]:
    violations.append("B: the JSON schema document passed to JsonSchemaParser was modified through a parse result")

# --- C. results of two parses are one object (and it is the declaration's object) ---------------
class Conf2(Schema):
    cfg: dict = Field(const={"k": [1]})


x, y = Conf2(cfg={"k": [1]}), Conf2(cfg={"k": [1]})
print("C. two instances share one value object:", x.cfg is y.cfg)
if x.cfg is y.cfg:
    violations.append("C: changing one instance's value changes another instance")

print()
if violations:
    print("VIOLATION PRESENT:")
    for v in violations:
        print("  -", v)
    sys.exit(1)
print("no violation")
sys.exit(0)
