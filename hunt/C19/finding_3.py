"""
C19 finding 3: with @utype.dataclass (default set_class_properties=False) a default that is not
populated at parse time (Options(defer_default=True) or Options(no_default=True)) is served by the
raw class attribute: every instance, the class default and all later instances share ONE list.
Run: PYTHONPATH=<tree> /venv/bin/python finding_3.py   (exit 1 = violation present)
"""
import sys
import warnings

warnings.simplefilter("ignore")

import utype
from utype import Options, DataClass

violations = []


@utype.dataclass(options=Options(defer_default=True))
class Deferred:
    items: list = []
    name: str = "x"


a, b = Deferred(), Deferred()
a.items.append(1)                      # change ONE instance's value
later = Deferred()
print("A. @utype.dataclass + Options(defer_default=True)")
print("   a.items.append(1) -> b.items =", b.items, "| class default =", Deferred.items, "| later instance =", later.items)
if b.items or later.items or Deferred.items:
    violations.append("A: defer_default: one instance's change reached another instance, the class default and a later call")


@utype.dataclass(options=Options(no_default=True))
class NoDefault:
    items: list = []


a, b = NoDefault(), NoDefault()
a.items.append(1)
print("B. @utype.dataclass + Options(no_default=True)")
print("   a.items.append(1) -> b.items =", b.items, "| class default =", NoDefault.items)
if b.items or NoDefault.items:
    violations.append("B: no_default: same sharing")


# reference behaviour of the other two spellings of the same declaration (both isolate the instances)
@utype.dataclass(options=Options(defer_default=True), set_class_properties=True)
class WithProps:
    items: list = []


class Base(DataClass):
    __options__ = Options(defer_default=True)
    items: list = []


for cls in (WithProps, Base):
    a, b = cls(), cls()
    a.items.append(1)
    print("   reference:", cls.__name__, "-> b.items =", b.items, "| later instance =", cls().items)

print()
if violations:
    print("VIOLATION PRESENT:")
    for v in violations:
        print("  -", v)
    sys.exit(1)
print("no violation")
sys.exit(0)
