"""
C19 finding 2: the per-instance / per-call "copy" of a default (copy_value) is not a copy for
container subclasses: a Schema default becomes a plain dict, OrderedDict / defaultdict / Counter
become plain dict, a one-field namedtuple changes value (P(x=[1]) -> P(x=[[1]])) and any other
namedtuple makes every parse that needs the default raise TypeError.
Run: PYTHONPATH=<tree> /venv/bin/python finding_2.py   (exit 1 = violation present)
"""
import sys
import warnings
import collections

warnings.simplefilter("ignore")

import utype
from utype import Schema, Field

violations = []


class Inner(Schema):
    x: list = Field(default_factory=list)


class Outer(Schema):
    inner: Inner = Field(default_factory=Inner)            # the natural way to default a nested schema
    counts: dict = Field(default_factory=lambda: collections.defaultdict(list))
    order: collections.OrderedDict = Field(default_factory=collections.OrderedDict)


o = Outer()
print("A. Outer().inner            ->", type(o.inner).__name__, "   (declared default: Inner instance)")
print("   Outer(inner={}).inner    ->", type(Outer(inner={}).inner).__name__)
try:
    o.inner.x
except AttributeError as e:
    print("   Outer().inner.x          -> AttributeError:", e)
print("   Outer().counts / .order  ->", type(o.counts).__name__, "/", type(o.order).__name__,
      "   (declared: defaultdict / OrderedDict)")
if type(o.inner) is not Inner:
    violations.append("A: a Schema default is turned into a plain dict (the 'copy' differs from the default)")
if type(o.counts) is not collections.defaultdict or type(o.order) is not collections.OrderedDict:
    violations.append("A: dict-subclass defaults (defaultdict / OrderedDict) are turned into plain dicts")

P1 = collections.namedtuple("P1", "x")
P2 = collections.namedtuple("P2", "x y")


@utype.parse
def f(p: tuple = P1([1])):
    return p


got = f()
print("B. f() with default P1(x=[1]) ->", got, "  equal to the declared default:", got == P1([1]))
if got != P1([1]):
    violations.append("B: a tuple default is not copied but changed in value: P1(x=[1]) -> %r" % (got,))


@utype.parse
def g(p: tuple = P2(1, [2])):
    return p


try:
    print("C. g() with default P2(1, [2]) ->", g())
except TypeError as e:
    print("C. g() with default P2(1, [2]) -> TypeError:", e)
    violations.append("C: a (named)tuple default cannot be copied at all: every call that needs it raises TypeError")

print()
if violations:
    print("VIOLATION PRESENT:")
    for v in violations:
        print("  -", v)
    sys.exit(1)
print("no violation")
sys.exit(0)
