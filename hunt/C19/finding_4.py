"""
C19 finding 4: a subclass shares the ParserField objects of its base class and rewrites them while
it is being declared, so merely declaring a subclass changes the outcome of parsing the BASE class
(same declaration, same options, same input).
Run: PYTHONPATH=<tree> /venv/bin/python finding_4.py   (exit 1 = violation present)
"""
import sys
import warnings

warnings.simplefilter("ignore")

from utype import Schema, Field


class Base(Schema):
    a: int = Field(dependencies=["b"], default=0)
    b: int = 0


def attempt():
    try:
        return "ok", repr(Base(a=1, b=2))
    except Exception as e:  # noqa
        return "error", f"{type(e).__name__}: {e}"


before = attempt()
print("Base(a=1, b=2) before the subclass exists ->", before,
      "| dependencies of Base.a:", Base.__parser__.fields["a"].dependencies)


class Sub(Base):
    b = ...                                   # documented way to drop an inherited field
    c: int = Field(alias_from=["b"], default=0)   # a new field that also answers to the old name


after = attempt()
print("Base(a=1, b=2) after declaring Sub        ->", after,
      "| dependencies of Base.a:", Base.__parser__.fields["a"].dependencies)
print("Base and Sub share the field object:", Base.__parser__.fields["a"] is Sub.__parser__.fields["a"])

print()
if before != after:
    print("VIOLATION PRESENT: the outcome of parsing Base changed although its declaration, options and input did not")
    sys.exit(1)
print("no violation")
sys.exit(0)
