"""C02 finding 2: decimal_places / multiple_of on a Decimal rule depend on the ambient decimal context precision:
valid Decimals are rejected (InvalidOperation / DivisionImpossible swallowed as a constraint violation)."""
import sys
import warnings
import decimal
from decimal import Decimal

warnings.simplefilter("ignore")
from utype import Rule, exc


class Money(Decimal, Rule):
    decimal_places = 2


class Triple(Decimal, Rule):
    multiple_of = 3


bad = 0


def check(rule, v, label=""):
    global bad
    try:
        r = rule(v)
        ok = (r == v)
        print(f"{label}{rule.__name__}({v!r}) -> {r!r}")
    except exc.ParseError as e:
        ok = False
        print(f"{label}{rule.__name__}({v!r}) REJECTED: {str(e)[:110]}")
    inst = isinstance(v, rule)
    if not ok or not inst:
        bad += 1
        print(f"   ^ valid value rejected (isinstance -> {inst})")


# default context (prec = 28)
# 0 decimal places <= 2, so decimal_places=2 holds
check(Money, Decimal("1E+30"))
# 1 decimal place <= 2
check(Money, Decimal("123456789012345678901234567.5"))
# 3 * 10**30 is a multiple of 3
assert int(Decimal("3E+30")) % 3 == 0
check(Triple, Decimal("3E+30"))
# control: same shapes, fewer digits -> accepted
check(Money, Decimal("1E+20"))
check(Triple, Decimal("3E+20"))

# an application that lowers the context precision (legitimate use of the decimal module)
with decimal.localcontext() as ctx:
    ctx.prec = 6
    check(Money, Decimal("12345.5"), label="[prec=6] ")        # 1 decimal place <= 2
    check(Triple, Decimal("3000000"), label="[prec=6] ")       # 3000000 = 3 * 1000000

# the bad count includes 5 expected violations
print("VIOLATION PRESENT" if bad else "no violation")
sys.exit(1 if bad else 0)
