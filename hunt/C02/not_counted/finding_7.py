"""C02 finding 7: Literal[...] with members of more than one type takes the source type from the FIRST member only:
the other members are rejected (Literal['a', 'b', None] refuses None) or silently converted (2.5 -> 2, 1 -> '1')."""
import sys
import warnings
from typing import Literal

warnings.simplefilter("ignore")
import utype
from utype import Rule, Schema, exc


class Cfg(Schema):
    mode: Literal["r", "w", None] = "r"
    step: Literal[1, 2, 2.5] = 1
    key: Literal["1", 1] = "1"
    tag: Literal[1, "a"] = 1


@utype.parse
def open_(mode: Literal["r", "w", None] = "r"):
    return mode


bad = 0


def check(label, fn, expected):
    global bad
    try:
        r = fn()
        ok = (r == expected and type(r) is type(expected))
        print(f"{label} -> {r!r}" + ("" if ok else f"   <-- expected {expected!r}"))
    except exc.ParseError as e:
        ok = False
        print(f"{label} REJECTED: {str(e)[:100]}   <-- expected {expected!r}")
    if not ok:
        bad += 1


check("Cfg(mode=None).mode", lambda: Cfg(mode=None).mode, None)      # None is a declared member
check("open_(None)", lambda: open_(None), None)
check("Cfg(step=2.5).step", lambda: Cfg(step=2.5).step, 2.5)          # 2.5 is a declared member; returned as 2
check("Cfg(key=1).key", lambda: Cfg(key=1).key, 1)                    # 1 is a declared member; returned as '1'
check("Cfg(tag='a').tag", lambda: Cfg(tag="a").tag, "a")              # 'a' is a declared member
t = Rule.parse_annotation(Literal["r", "w", None])
print("isinstance(None, Literal['r','w',None] rule) =", isinstance(None, t))

# control: single-typed literals behave
check("Cfg(mode='w').mode", lambda: Cfg(mode="w").mode, "w")

print("VIOLATION PRESENT" if bad else "no violation")
sys.exit(1 if bad else 0)
