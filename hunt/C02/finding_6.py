"""C02 finding 6: a (str, Enum) member is a str, but a str rule re-creates it with str(member) == 'Level.info':
constraints are judged on that text and the result differs from the input."""
import sys
import warnings
from enum import Enum

warnings.simplefilter("ignore")
from utype import Rule, Schema, Field, exc


class Level(str, Enum):
    info = "INFO"
    warn = "WARN"


class Short(str, Rule):
    max_length = 4


class Upper(str, Rule):
    regex = "[A-Z]+"


class Any1(str, Rule):
    min_length = 1


class Log(Schema):
    level: str = Field(max_length=4)


v = Level.info
assert isinstance(v, str) and v == "INFO" and len(v) == 4
bad = 0
for rule in (Short, Upper, Any1):
    try:
        r = rule(v)
        print(f"{rule.__name__}(Level.info) -> {r!r}")
        if r != v:
            bad += 1
            print("   ^ result differs from the input ('INFO')")
    except exc.ParseError as e:
        bad += 1
        print(f"{rule.__name__}(Level.info) REJECTED: {e}")
    inst = isinstance(v, rule)
    print(f"   isinstance(Level.info, {rule.__name__}) = {inst}")
    if not inst:
        bad += 1
try:
    print(Log(level=Level.warn))
except exc.ParseError as e:
    bad += 1
    print("Log(level=Level.warn) REJECTED:", e)

# control: a plain Enum with str values is unwrapped to its value (the behaviour the converter intends)
class Plain(Enum):
    info = "INFO"
assert Short(Plain.info) == "INFO"

print("VIOLATION PRESENT" if bad else "no violation")
sys.exit(1 if bad else 0)
