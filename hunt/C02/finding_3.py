"""C02 finding 3: regex on a bytes / bytearray rule is matched against repr(value) ("b'abc'"), not the content."""
import sys
import warnings

warnings.simplefilter("ignore")
from utype import Rule, Schema, Field, exc


class Abc(bytes, Rule):
    regex = "[a-c]+"


class Hex(bytearray, Rule):
    regex = "[0-9a-f]*"


class Weird(bytes, Rule):
    regex = r"b'abc'"           # only the repr text matches


class Msg(Schema):
    token: bytes = Field(regex="[a-z0-9]{4}")


bad = 0
for rule, v, valid in [
    (Abc, b"abc", True),
    (Abc, b"abd", False),
    (Hex, bytearray(b"00ff"), True),
    (Weird, b"abc", False),      # b"abc" does not fully match the pattern b'abc' (quotes, leading b)
]:
    try:
        r = rule(v)
        accepted = True
        print(f"{rule.__name__}({v!r}) -> {r!r}")
    except exc.ParseError as e:
        accepted = False
        print(f"{rule.__name__}({v!r}) REJECTED: {e}")
    inst = isinstance(v, rule)
    if accepted != valid or inst != valid:
        bad += 1
        print(f"   ^ expected {'accept' if valid else 'reject'}; isinstance -> {inst}")

try:
    print(Msg(token=b"ab12"))
except exc.ParseError as e:
    bad += 1
    print("Msg(token=b'ab12') REJECTED:", e)

print("VIOLATION PRESENT" if bad else "no violation")
sys.exit(1 if bad else 0)
