"""C02 finding 4: `contains` only swallows TypeError / ValueError of a non-matching element;
OverflowError / decimal.InvalidOperation of the plain int / float / Decimal converters escape raw:
a list that does contain a matching element is rejected, and isinstance() raises instead of answering."""
import sys
import warnings
from decimal import Decimal

warnings.simplefilter("ignore")
from utype import Rule, exc


class HasInt(list, Rule):
    contains = int


class HasFloat(list, Rule):
    contains = float
    max_contains = 1


class HasDecimal(list, Rule):
    contains = Decimal


bad = 0
cases = [
    (HasInt, [1, float("inf")]),          # contains the int 1 -> valid
    (HasInt, [3, Decimal("Infinity")]),
    (HasFloat, [1.5, 10 ** 400]),         # exactly one element converts to float -> valid
    (HasDecimal, [Decimal("1"), "abc"]),  # contains a Decimal -> valid
]
def short(x):
    s = repr(x)
    return s if len(s) < 60 else s[:25] + "..." + s[-10:]


for rule, v in cases:
    for label, fn in (("parse", lambda: rule(v) == v), ("isinstance", lambda: isinstance(v, rule))):
        try:
            res = fn()
            print(f"{label:10} {rule.__name__} {short(v)} -> {res}")
            if res is not True:
                bad += 1
        except exc.ParseError as e:
            bad += 1
            print(f"{label:10} {rule.__name__} {short(v)} REJECTED (ParseError): {e}")
        except Exception as e:
            bad += 1
            print(f"{label:10} {rule.__name__} {short(v)} RAW {type(e).__name__}: {e}")

# control: a non-matching element whose converter raises TypeError / ValueError is skipped as documented
assert HasInt([1, "x", None, [1, 2]]) == [1, "x", None, [1, 2]]

print("VIOLATION PRESENT" if bad else "no violation")
sys.exit(1 if bad else 0)
