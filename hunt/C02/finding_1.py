"""C02 finding 1: a Decimal rule with a float multiple_of is accepted at declaration, but rejects every value."""
import sys
import warnings
from decimal import Decimal

warnings.simplefilter("ignore")
from utype import Rule, Schema, Field, exc


class Half(Decimal, Rule):       # accepted at declaration time
    multiple_of = 0.5


class Price(Schema):
    amount: Decimal = Field(multiple_of=0.25)


bad = 0
for v in [Decimal("1.5"), Decimal("1"), Decimal("0"), Decimal("-2.0")]:
    assert v % Decimal("0.5") == 0          # each one IS a multiple of 0.5
    try:
        r = Half(v)
        ok = r == v
        print(f"Half({v!r}) -> {r!r}")
    except exc.ParseError as e:
        ok = False
        print(f"Half({v!r}) REJECTED: {e}")
    inst = isinstance(v, Half)
    print(f"   isinstance({v!r}, Half) = {inst}")
    if not ok or not inst:
        bad += 1

try:
    print(Price(amount=Decimal("1.25")))
except exc.ParseError as e:
    print("Price(amount=Decimal('1.25')) REJECTED:", e)
    bad += 1

# sanity: an invalid value is (rightly) rejected, an int step works
class Two(Decimal, Rule):
    multiple_of = 2
assert Two(Decimal("4")) == 4

print("VIOLATION PRESENT" if bad else "no violation")
sys.exit(1 if bad else 0)
