"""C02 finding 5: isinstance(value, T) for a constrained type built with & / ^ / ~ answers "is an instance of ANY operand",
which disagrees with parsing (includes the built-in utype.types.NormalFloat and Divisor)."""
import sys
import warnings

warnings.simplefilter("ignore")
from utype import Rule, exc, types


class Pos(int, Rule):
    gt = 0


class Even(int, Rule):
    multiple_of = 2


def parses(t, v):
    try:
        return t(v) == v or v != v
    except exc.ParseError:
        return False


bad = 0
cases = [
    ("types.NormalFloat", types.NormalFloat, float("nan")),
    ("types.NormalFloat", types.NormalFloat, float("inf")),
    ("types.NormalFloat", types.NormalFloat, 1.5),
    ("types.Divisor", types.Divisor, 0.0),
    ("types.Divisor", types.Divisor, 2.0),
    ("Pos & Even", Pos & Even, 3),
    ("Pos & Even", Pos & Even, -2),
    ("Pos & Even", Pos & Even, 4),
    ("Pos ^ Even", Pos ^ Even, 2),
    ("Pos ^ Even", Pos ^ Even, 3),
    ("Pos & ~Even", Pos & ~Even, 4),
    ("Pos | Even", Pos | Even, -3),
]
for name, t, v in cases:
    p = parses(t, v)
    i = isinstance(v, t)
    flag = "" if p == i else "   <-- DISAGREE"
    if p != i:
        bad += 1
    print(f"{name:18} value={v!r:6}  parse ok={p!s:5}  isinstance={i!s:5}{flag}")

print("VIOLATION PRESENT" if bad else "no violation")
sys.exit(1 if bad else 0)
