"""C01 finding 2: const / enum constraints replace the converted value with the declared constant,
whatever its type -- a float / Decimal rule hands back an int (and an int rule a float)."""
import sys
import enum
import warnings
from decimal import Decimal

warnings.simplefilter("ignore")
from utype import Rule, Schema, Field, Lax

bad = []


def check(label, value, source_type):
    ok = isinstance(value, source_type) and not (source_type is not bool and isinstance(value, bool))
    print(f"{label} -> {value!r} of type {type(value).__name__}; instance of {source_type.__name__}: {ok}")
    if not ok:
        bad.append(label)


class One(float, Rule):
    const = 1


check("One('1.0')   [float rule, const=1]", One("1.0"), float)


class Ratio(Schema):
    r: float = Field(const=1)
    d: Decimal = Field(const=1, default=Decimal(1))


s = Ratio(r="1.0", d="1.00")
check("Ratio.r      [r: float = Field(const=1)]", s.r, float)
check("Ratio.d      [d: Decimal = Field(const=1)]", s.d, Decimal)


class IntOne(int, Rule):
    const = 1.0


check("IntOne(1)    [int rule, const=1.0]", IntOne(1), int)


class Level(enum.Enum):
    LOW = 1
    HIGH = 2


class FloatLevel(float, Rule):
    enum = Level


check("FloatLevel('2') [float rule, enum=Level]", FloatLevel("2"), float)


class LaxOne(float, Rule):
    const = Lax(1)


check("LaxOne('5')  [float rule, const=Lax(1)] (type must still hold)", LaxOne("5"), float)


class LaxChoice(float, Rule):
    enum = Lax([1, 2])


check("LaxChoice('5') [float rule, enum=Lax([1, 2])]", LaxChoice("5"), float)

if bad:
    print(f"VIOLATION: {len(bad)} results are not instances of the declared source type")
    sys.exit(1)
print("no violation")
sys.exit(0)
