"""C01 finding 1: a source type that subclasses a builtin is not preserved on some conversion
branches -- the parse hands back a plain int / Decimal / timedelta / time, which is not an
instance of the declared source type.  (The first block is the MonthType example of
docs/en/guide/type.md with the input '1' instead of b'11'.)"""
import sys
import warnings
import datetime
from decimal import Decimal

warnings.simplefilter("ignore")
import utype
from utype import Rule, Schema, type_transform

bad = []


class MonthType(int):
    def get_days(self, year: int) -> int:
        from calendar import monthrange
        return monthrange(year, self)[1]


class Month(MonthType, Rule):
    gt = 0
    le = 12


for raw in [b"11", "11", "1", b"1", "true", "y", "0"]:
    try:
        mon = Month(raw)
    except Exception as e:  # a parse error is fine
        print(f"Month({raw!r}) -> error {type(e).__name__}")
        continue
    ok = isinstance(mon, MonthType)
    print(f"Month({raw!r}) -> {mon!r} of type {type(mon).__name__}; instance of source type: {ok}")
    if not ok:
        bad.append(("Month", raw, mon))


class Holder(Schema):
    m: MonthType


h = Holder(m="1")
print(f"Holder(m='1').m -> {h.m!r} of type {type(h.m).__name__}")
if not isinstance(h.m, MonthType):
    bad.append(("Holder.m", "1", h.m))


# same family: other converters / validators that drop the declared subclass
class Money(Decimal):
    pass


class Price(Money, Rule):
    decimal_places = 2


v = Price("1.3")
print(f"Price('1.3') -> {v!r} of type {type(v).__name__}")
if not isinstance(v, Money):
    bad.append(("Price", "1.3", v))


class Span(datetime.timedelta):
    pass


for raw in ["1:00:00", "P1D"]:
    v = type_transform(raw, Span)
    print(f"type_transform({raw!r}, Span) -> {v!r} of type {type(v).__name__}")
    if not isinstance(v, Span):
        bad.append(("Span", raw, v))


class Clock(datetime.time):
    pass


v = type_transform("10:20:30 PM", Clock)
print(f"type_transform('10:20:30 PM', Clock) -> {v!r} of type {type(v).__name__}")
if not isinstance(v, Clock):
    bad.append(("Clock", "10:20:30 PM", v))

if bad:
    print(f"VIOLATION: {len(bad)} results are not instances of the declared source type")
    sys.exit(1)
print("no violation")
sys.exit(0)
