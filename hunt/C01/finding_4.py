"""C01 finding 4: Annotated[...] with more than one Field (e.g. a reusable constrained alias that is
refined once more) -- only the first Field is used, the constraints of the others are dropped silently."""
import sys
import warnings

warnings.simplefilter("ignore")
import utype
from utype import Schema, Field
from utype.types import Annotated

bad = []

NonNegative = Annotated[int, Field(ge=0)]          # reusable constrained alias


class Page(Schema):
    size: Annotated[NonNegative, Field(le=10)]     # == Annotated[int, Field(ge=0), Field(le=10)]


@utype.parse
def page(size: Annotated[NonNegative, Field(le=10)]):
    return size


for label, call in [("Page(size='50').size", lambda: Page(size="50").size), ("page('50')", lambda: page("50"))]:
    try:
        v = call()
    except utype.exc.ParseError as e:
        print(f"{label} -> parse error ({e})")
        continue
    print(f"{label} -> {v!r}   (declared le=10)")
    if not v <= 10:
        bad.append(label)

# the first one is enforced
try:
    Page(size=-1)
    print("Page(size=-1) accepted")
except utype.exc.ParseError:
    print("Page(size=-1) -> parse error (ge=0 is enforced)")

if bad:
    print("VIOLATION: the declared constraint le=10 is not enforced")
    sys.exit(1)
print("no violation")
sys.exit(0)
