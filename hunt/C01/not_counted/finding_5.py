"""C01 finding 5: AllOf ('&') converts through its conditions one after the other and returns the
last conversion; the result is never checked against the earlier conditions again, so it can violate them."""
import sys
import warnings

warnings.simplefilter("ignore")
from utype import Rule, exc
from utype.types import Int, Float

bad = []


class Above(float, Rule):
    gt = 2.4


T = Above & Int            # "data must match all types simultaneously" (docs/en/guide/type.md)
for raw in [2.5, "2.5", 2.9]:
    try:
        v = T(raw)
    except exc.ParseError as e:
        print(f"(Above & Int)({raw!r}) -> parse error")
        continue
    ok = isinstance(v, Above)      # LogicalType.__instancecheck__: is a float and satisfies gt=2.4
    print(f"(Above & Int)({raw!r}) -> {v!r}; v > 2.4: {v > 2.4}; isinstance(v, Above): {ok}")
    if not v > 2.4:
        bad.append(raw)


class Short(str, Rule):
    max_length = 3


T2 = Short & Float
v = T2("1e5")
print(f"(Short & Float)('1e5') -> {v!r}; isinstance(v, Short): {isinstance(v, Short)}")
if not isinstance(v, Short):
    bad.append("1e5")

if bad:
    print("VIOLATION: the result of an AllOf parse does not satisfy one of its conditions")
    sys.exit(1)
print("no violation")
sys.exit(0)
