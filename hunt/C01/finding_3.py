"""C01 finding 3: with on_error='exclude' (or Options(invalid_values='exclude')) an invalid value
ASSIGNED to a field (attribute, item, update) is not excluded: the internal `unprovided` sentinel
is stored and handed back as the value of an `int` field."""
import sys
import warnings

warnings.simplefilter("ignore")
import utype
from utype import Schema, DataClass, Field, Options

bad = []


def check(label, value):
    ok = isinstance(value, int)
    print(f"{label} -> {value!r} of type {type(value).__name__}")
    if not ok:
        bad.append(label)


class S(Schema):
    a: int = Field(on_error="exclude", required=False)


# at initialization the invalid value is excluded, as documented
s = S(a="x")
print("S(a='x') ->", dict(s), "| 'a' in s:", "a" in s)

s = S(a=1)
s.a = "x"
print("after s.a = 'x':", dict(s))
if "a" in s:
    check("s.a (attribute assignment)", s.a)

s = S(a=1)
s["a"] = "x"
if "a" in s:
    check("s['a'] (item assignment)", s["a"])

s = S(a=1)
s.update(a="x")
if "a" in s:
    check("s['a'] (update)", s["a"])


class S2(Schema):
    __options__ = Options(invalid_values="exclude")
    a: int = Field(required=False)


s = S2(a=1)
s.a = "x"
if "a" in s:
    check("S2 s.a (Options(invalid_values='exclude'))", s.a)


class D(DataClass):
    a: int = Field(on_error="exclude", required=False)


d = D(a=1)
d.a = "x"
if "a" in d.__dict__:
    check("DataClass d.a", d.a)

if bad:
    print(f"VIOLATION: {len(bad)} fields declared int hold the <unprovided> sentinel")
    sys.exit(1)
print("no violation")
sys.exit(0)
