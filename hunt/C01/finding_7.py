"""C01 finding 7: a runtime Options(addition=<type>) ("specify a type to which the value of the extra
parameter needs to be converted", docs/en/references/options.md) keeps the additional values unconverted;
only an addition type given in the class options is applied."""
import sys
import warnings

warnings.simplefilter("ignore")
import utype
from utype import Schema, Options

bad = []


class User(Schema):
    name: str


class TypedUser(Schema):
    __options__ = Options(addition=int)
    name: str


print("class option:   ", dict(TypedUser(name="a", code="12")))
try:
    TypedUser(name="a", code="XYZ")
except utype.exc.ParseError:
    print("class option:    code='XYZ' -> parse error")

for code in ["12", "XYZ"]:
    try:
        u = User.__from__({"name": "a", "code": code}, options=Options(addition=int))
    except utype.exc.ParseError:
        print(f"runtime option:  code={code!r} -> parse error")
        continue
    print(f"runtime option:  code={code!r} ->", dict(u))
    if "code" in u and not isinstance(u["code"], int):
        bad.append(code)

if bad:
    print("VIOLATION: additional values are not converted to the declared addition type int")
    sys.exit(1)
print("no violation")
sys.exit(0)
