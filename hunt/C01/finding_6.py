"""C01 finding 6: @property fields of DataClass / @utype.dataclass classes are parsed at __init__ only:
the getter's return annotation is never applied and an assignment goes to the raw setter unparsed.
(Schema does both; the example is the one of docs/en/guide/cls.md 'Declare @property'.)"""
import sys
import warnings
from datetime import datetime

warnings.simplefilter("ignore")
import utype
from utype import Schema, DataClass, Field

bad = []


def make(base):
    class User(base):
        signup_time: datetime
        _level = 0

        @property
        def signup_days(self) -> int:
            return (datetime(2024, 1, 1) - self.signup_time).total_seconds() / (3600 * 24)

        @property
        def level(self) -> int:
            return self._level

        @level.setter
        def level(self, value: int = Field(ge=0, required=False)):
            self._level = value
    return User


for base in (Schema, DataClass):
    User = make(base)
    u = User(signup_time="2021-10-11 11:22:33", level="3")
    days = u.signup_days
    print(f"{base.__name__}: signup_days -> {days!r} (declared -> int); level after init -> {u.level!r}")
    if not isinstance(days, int):
        bad.append((base.__name__, "getter"))
    try:
        u.level = "-5"
        print(f"{base.__name__}: after u.level = '-5': level -> {u.level!r} (declared int, ge=0)")
        if not (isinstance(u.level, int) and u.level >= 0):
            bad.append((base.__name__, "setter"))
    except utype.exc.ParseError as e:
        print(f"{base.__name__}: u.level = '-5' -> parse error")

if bad:
    print("VIOLATION:", bad)
    sys.exit(1)
print("no violation")
sys.exit(0)
