"""
C10 finding 3 (minor): a dependency field that is PRESENT but invalid is reported twice under
collect_errors: once as the ParseError of the field, once more as a DependenciesAbsenceError that
says it "is absence". The spurious entry counts against max_errors and displaces a real failing item.
"""
import sys
import warnings
from utype import Schema, Field, Options, exc

warnings.simplefilter("ignore")
violated = False


def items(e):
    return [(type(x).__name__, getattr(x, "item", None) or getattr(x, "absence_dependencies", None))
            for x in e.errors]


for dfs in (False, True):
    class Order(Schema):
        __options__ = Options(collect_errors=True, addition=False, data_first_search=dfs)
        card: str = Field(required=False, dependencies=['address'])
        address: str = Field(required=False, max_length=5)

    try:
        Order(card='1234', address='much too long')
        print("unexpected: accepted")
    except exc.CollectedParseError as e:
        got = items(e)
        print(f"data_first_search={dfs}: reported", got)
        if len(got) != 1:
            print("  -> only 'address' fails (it is present and too long); it is additionally "
                  "reported as an absent dependency")
            violated = True

    class Order2(Schema):
        __options__ = Options(collect_errors=True, max_errors=2, addition=False, data_first_search=False)
        card: str = Field(required=False, dependencies=['address'])
        address: str = Field(required=False, max_length=5)

    try:
        Order2(card='1234', address='much too long', token='x')
    except exc.CollectedParseError as e:
        got = items(e)
        print("max_errors=2, plus an exceeding key 'token': reported", got)
        if 'token' not in [i for _, i in got]:
            print("  -> two items fail (address, token), cap is 2, but 'token' is not reported")
            violated = True

print("VIOLATION PRESENT" if violated else "no violation")
sys.exit(1 if violated else 0)
