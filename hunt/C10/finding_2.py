"""
C10 finding 2: max_errors is silently dropped (no cap) when collect_errors=True comes from an
Options subclass attribute (the "custom options base class" pattern of the docs) instead of
from the constructor call that carries max_errors.
"""
import sys
import warnings
import utype
from utype import Schema, Field, exc

warnings.simplefilter("ignore")


class DebugOptions(utype.Options):   # reusable base, as in docs/en/guide/cls.md "Inheritance and Extend"
    collect_errors = True


class Form1(Schema):
    __options__ = DebugOptions(max_errors=1)
    username: str = Field(regex='[0-9a-zA-Z]{3,20}')
    password: str = Field(min_length=6, max_length=20)
    age: int = 0


class Form2(Schema):
    class __options__(DebugOptions):
        max_errors = 1
    username: str = Field(regex='[0-9a-zA-Z]{3,20}')
    password: str = Field(min_length=6, max_length=20)
    age: int = 0


class Ref(Schema):   # reference: same settings given in one constructor call
    __options__ = utype.Options(collect_errors=True, max_errors=1)
    username: str = Field(regex='[0-9a-zA-Z]{3,20}')
    password: str = Field(min_length=6, max_length=20)
    age: int = 0


violated = False
for cls in (Ref, Form1, Form2):
    o = cls.__options__
    print(f"{cls.__name__}: options={o!r} collect_errors={o.collect_errors} max_errors={o.max_errors}")
    try:
        cls(username='@attacker', password='123', age='bad')
        print("  unexpected: accepted")
    except exc.CollectedParseError as e:
        n = len(e.errors)
        print(f"  CollectedParseError with {n} errors:", [getattr(x, 'item', None) for x in e.errors])
        if n > 1:
            print("  -> errors are collected (collect_errors is on) but max_errors=1 does not cap them")
            violated = True
    except exc.ParseError as e:
        print("  plain ParseError (collection is off):", e)

print("VIOLATION PRESENT" if violated else "no violation")
sys.exit(1 if violated else 0)
