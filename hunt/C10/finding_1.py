"""
C10 finding 1: a missing positional-only parameter is reported twice under collect_errors,
and the duplicate eats the max_errors budget so that a real failing item is not reported.
"""
import sys
import warnings
import utype
from utype import Options, exc

warnings.simplefilter("ignore")


def items(e):
    return [(type(x).__name__, getattr(x, "item", None)) for x in e.errors]


violated = False


@utype.parse(options=Options(collect_errors=True))
def h(a: int, b: int, /, c: int):
    return a, b, c


try:
    h(c="bad")
    print("unexpected: accepted")
except exc.CollectedParseError as e:
    got = items(e)
    print("h(c='bad') with collect_errors=True reports:", got)
    names = [i for _, i in got]
    if sorted(names) != ["a", "b", "c"]:
        print("  -> expected exactly one error for each of a, b, c; got", names)
        violated = True


@utype.parse(options=Options(collect_errors=True, max_errors=3))
def h3(a: int, b: int, /, c: int):
    return a, b, c


try:
    h3(c="bad")
    print("unexpected: accepted")
except exc.CollectedParseError as e:
    got = items(e)
    print("h3(c='bad') with max_errors=3 reports:", got)
    names = [i for _, i in got]
    if "c" not in names:
        print("  -> three items fail (a, b, c) and the cap is 3, but 'c' is not reported: "
              "a duplicate of 'a' used its slot")
        violated = True

print("VIOLATION PRESENT" if violated else "no violation")
sys.exit(1 if violated else 0)
