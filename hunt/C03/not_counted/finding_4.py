"""
C03 finding 4: the lax multiple_of is not a fixed point / does not give a multiple where the computed
multiple cannot be represented exactly:

 (a) Decimal (an exact domain): (value // of) * of is evaluated in the 28-digit decimal context, so for a
     Decimal with more significant digits the product is rounded: the output is not a multiple
     (the strict form rejects it) and the next parse gives yet another value.
 (b) float: the exact decimal multiple is rounded to a float whose str() is *below* the multiple, so the
     next parse floors one more step: the output of one parse is not a fixed point
     (a step like 1/3 on ordinary values, or an integer step on floats beyond 2 ** 53).

exit code 1 = violation present, 0 = absent
"""
import sys
import warnings
from decimal import Decimal

warnings.simplefilter("ignore")

from utype import Lax, Rule

bad = 0


def check(origin, step, value):
    global bad
    lax_rule = Rule.annotate(origin, constraints={"multiple_of": Lax(step)})
    strict_rule = Rule.annotate(origin, constraints={"multiple_of": step})
    out = lax_rule(value)
    again = lax_rule(out)
    msg = f"{origin.__name__} multiple_of=Lax({step!r}): {value!r} -> {out!r} -> {again!r}"
    if again != out:
        bad += 1
        msg += "   VIOLATION (not a fixed point)"
    if origin is Decimal:
        try:
            strict_rule(out)
        except Exception:  # noqa
            bad += 1
            msg += "   VIOLATION (strict form rejects the output)"
    print(msg)


# (a) Decimal beyond the context precision
check(Decimal, 101, Decimal(10 ** 30 + 7))
check(Decimal, 3, Decimal("12345678901234567890123456788"))
# (b) float
check(float, 1 / 3, 42.0)
check(float, 1 / 3, -50.0)
check(float, 3, 1.2944210582851462e+16)
check(float, 33.33, 2.5187259424717533e+17)
# controls (fine since 2b13b3c)
check(float, 0.1, 1.0)
check(Decimal, 3, Decimal("10.5"))

print("violations:", bad)
sys.exit(1 if bad else 0)
