"""
C03 finding 1: a Union (|) / OneOf (^) that has a constrained type (a Rule: types.PositiveInt,
types.Datetime, List[int], Literal[...] ...) among its arguments is not idempotent.

The "exact type" shortcut of the staged union resolution only recognises plain classes
(type(value) == arg).  A value that was produced by a Rule argument is therefore not recognised on the
second pass and is offered to the *other* arguments again - in strict mode first, where Enum(...),
datetime(timestamp), set(list), bytes(str), float(Decimal) ... are all allowed - so it is converted
into something else (|) or suddenly matches two conditions (^).

exit code 1 = violation present, 0 = absent
"""
import sys
import warnings
from datetime import datetime
from enum import Enum
from typing import List, Set, Union

warnings.simplefilter("ignore")

from utype import Schema, types
from utype.parser.rule import LogicalType

bad = 0


def check(label, t, value):
    global bad
    first = t(value)
    try:
        second = t(first)
    except Exception as e:  # noqa
        bad += 1
        print(f"VIOLATION {label}: {value!r} -> {first!r} -> re-parse FAILS: "
              f"{type(e).__name__}: {str(e).splitlines()[0][:90]}")
        return
    same = type(first) == type(second) and first == second
    if not same:
        bad += 1
    print(f"{'VIOLATION' if not same else 'ok       '} {label}: {value!r} -> {first!r} -> {second!r}")


class Color(Enum):
    red = 1
    green = 2


# 1. an enum member or a positive number
check("Color | PositiveInt", LogicalType.any_of(Color, types.PositiveInt), "1")
# 2. two types of utype.types: a timestamp or a datetime
check("Timestamp | Datetime", types.Timestamp | types.Datetime, "2020-01-01 10:00:00")
# 3. plain typing generics
check("Set[int] | List[int]", LogicalType.any_of(Set[int], List[int]), [[1], [2]])
# 4. OneOf: the result of the only matching condition matches two conditions on the next pass
check("int ^ List[int]", LogicalType.one_of(int, List[int]), "1,2")
check("float ^ Datetime", LogicalType.one_of(float, types.Datetime), "2020-01-01")


# 5. the same through a data class: re-parsing the output of a Schema gives another Schema
class Event(Schema):
    level: Union[Color, types.PositiveInt]
    when: Union[types.Timestamp, types.Datetime]


e1 = Event(level="1", when="2020-01-01")
e2 = Event(**dict(e1))
print("Schema  :", e1, "->", e2)
if e1 != e2:
    bad += 1
    print("VIOLATION Schema: Event(**dict(event)) != event")

# control: with plain classes the exact-type shortcut makes the same unions idempotent
plain = LogicalType.any_of(Color, int)
first = plain("1")
print("control   Color | int (plain class, exact-type shortcut applies):", repr("1"), "->", repr(first), "->", repr(plain(first)))

print("violations:", bad)
sys.exit(1 if bad else 0)
