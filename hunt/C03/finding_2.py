"""
C03 finding 2: when a rule has two transforming (Lax) constraints, the later one can push the value out
of the earlier one, and nothing checks the earlier lax constraint again (Rule.parse only re-validates the
*strict* constraints that were passed before a transformation).

 - the output violates the strict form of a lax constraint of the same rule (exact domains int / Decimal / list)
 - for length + unique_items (and for lax constraints on a fixed-length Tuple[...]) re-parsing the output FAILS

exit code 1 = violation present, 0 = absent
"""
import sys
import warnings
from decimal import Decimal
from typing import List, Tuple

warnings.simplefilter("ignore")

from utype import Field, Lax, Rule, Schema

bad = 0


def check(label, lax_rule, strict_rule, value):
    """ parse, re-parse, and validate the output against the same rule with strict constraints """
    global bad
    try:
        out = lax_rule(value)
    except Exception as e:  # noqa  (a rejected input has no output to re-parse: outside the property)
        print(f"{label}: {value!r} -> rejected ({str(e).splitlines()[0][:60]})")
        return
    msg = f"{label}: {value!r} -> {out!r}"
    try:
        again = lax_rule(out)
        if again != out:
            bad += 1
            msg += f" -> {again!r}   VIOLATION (not a fixed point)"
        else:
            msg += f" -> {again!r}"
    except Exception as e:  # noqa
        bad += 1
        msg += f" -> re-parse FAILS ({str(e).splitlines()[0][:60]})   VIOLATION"
    if strict_rule is not None:
        try:
            strict_rule(out)
            msg += " ; strict form accepts the output"
        except Exception as e:  # noqa
            bad += 1
            msg += f" ; strict form REJECTS the output ({str(e).splitlines()[0][:50]})   VIOLATION"
    print(msg)


# (a) list: length=Lax(3) then unique_items=Lax(True)  -> output has length 2, the next parse raises
class LaxList(list, Rule):
    length = Lax(3)
    unique_items = Lax(True)


class StrictList(list, Rule):
    length = 3
    unique_items = True


check("list  length=Lax(3), unique_items=Lax(True)", LaxList, StrictList, [1, 1, 2, 3])


# (b) int: ge=Lax(1) then multiple_of=Lax(5)  -> 0, which is below the lax minimum
class LaxInt(int, Rule):
    ge = Lax(1)
    multiple_of = Lax(5)


class StrictInt(int, Rule):
    ge = 1
    multiple_of = 5


check("int   ge=Lax(1), multiple_of=Lax(5)", LaxInt, StrictInt, 3)


# (c) Decimal: le=Lax(1.55) then round to 1 place -> 1.6 > 1.55
class LaxDec(Decimal, Rule):
    le = Lax(Decimal("1.55"))
    decimal_places = Lax(1)


class StrictDec(Decimal, Rule):
    le = Decimal("1.55")
    decimal_places = 1


check("Decimal le=Lax(1.55), decimal_places=Lax(1)", LaxDec, StrictDec, Decimal("1.58"))

# (d) a fixed-length tuple with a lax constraint that shortens it: the output is not a Tuple[int, int] any more
Pair = Rule.annotate(tuple, int, int, constraints={"unique_items": Lax(True)})
check("Tuple[int, int] unique_items=Lax(True)", Pair, None, ("1", "1"))


# (e) the same through Field() of a data class
class Data(Schema):
    picks: List[int] = Field(length=Lax(3), unique_items=Lax(True))


try:
    d1 = Data(picks=[1, 1, 2, 3])
except Exception as e:  # noqa (rejected: nothing to re-parse)
    print("Schema: rejected", str(e).splitlines()[0][:80])
else:
    print("Schema:", d1, end=" ")
    try:
        print("->", Data(**dict(d1)))
    except Exception as e:  # noqa
        bad += 1
        print("-> re-parse FAILS:", str(e).splitlines()[0][:80], "  VIOLATION")


# (f) related: the same ordering problem across AllOf (&), where an earlier (strict) condition is not checked again
from utype import types


class Max3(str, Rule):
    max_length = Lax(3)


check("AllOf  SlugStr & Rule[str](max_length=Lax(3))", types.SlugStr & Max3, None, "ab-cd")


# control: when the earlier constraint is strict the library does notice (fix a63d0d7)
class Mixed(int, Rule):
    ge = 1
    multiple_of = Lax(5)


try:
    print("control ge=1 (strict), multiple_of=Lax(5): 3 ->", Mixed(3))
except Exception as e:  # noqa
    print("control ge=1 (strict), multiple_of=Lax(5): 3 -> error (as intended):", str(e).splitlines()[0][:60])

print("violations:", bad)
sys.exit(1 if bad else 0)
