"""
C03 finding 3: on an int rule, multiple_of=Lax(<fractional step>) judges "is a multiple" on the decimal text
of the step (0.1 -> 1/10), while the strict multiple_of judges it on the binary value of the float
(0.1 -> 3602879701896397/36028797018963968).  So the lax output (an int, an exact domain) does not
satisfy the strict form of the same constraint.

exit code 1 = violation present, 0 = absent
"""
import sys
import warnings

warnings.simplefilter("ignore")

from utype import Lax, Rule

bad = 0
for step, values in [(0.1, [1, 3, 10, 7]), (0.3, [-1, 4, 10]), (0.001, [1, 5]), (2.5, [7, 5])]:
    lax_rule = Rule.annotate(int, constraints={"multiple_of": Lax(step)})
    strict_rule = Rule.annotate(int, constraints={"multiple_of": step})
    for v in values:
        out = lax_rule(v)
        again = lax_rule(out)
        try:
            strict_rule(out)
            verdict = "strict form accepts it"
        except Exception as e:  # noqa
            verdict = "strict form REJECTS it   VIOLATION"
            bad += 1
        print(f"int multiple_of=Lax({step}): {v!r} -> {out!r} -> {again!r} ; multiple_of={step}: {verdict}")

print("violations:", bad)
sys.exit(1 if bad else 0)
