"""C14 finding 4: float +/-infinity is emitted as the bare token Infinity / -Infinity, which is not standard JSON."""
import json, sys
from utype import Schema, JSONEncoder
from utype.utils.encode import JSONSerializer


class F(Schema):
    f: float


def strict_loads(s):
    def bad_const(c):
        raise ValueError(f"non-standard JSON constant {c}")
    return json.loads(s, parse_constant=bad_const)


bad = 0
for v in [float("inf"), float("-inf")]:
    inst = F(f=v)
    for name, out in [("JSONEncoder", json.dumps(inst, cls=JSONEncoder)),
                      ("JSONSerializer", JSONSerializer().dumps(inst).decode())]:
        try:
            strict_loads(out)
            print(name, v, "->", out, "standard JSON")
        except ValueError as e:
            print(name, v, "->", out, "NOT standard JSON:", e)
            bad += 1
print("VIOLATION" if bad else "no violation")
sys.exit(1 if bad else 0)
