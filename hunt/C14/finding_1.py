"""C14 finding 1: a Decimal of tiny magnitude (below the float range) is encoded through float() and collapses to 0.0 / loses digits."""
import json, sys
from decimal import Decimal
from utype import Schema, JSONEncoder


class Price(Schema):
    d: Decimal


bad = 0
for text in ["1E-400", "-1E-400", "1.23456789012345E-320", "9.9E-324"]:
    inst = Price(d=Decimal(text))
    out = json.dumps(inst, cls=JSONEncoder)
    back = Price.__from__(out)
    same = back == inst
    print(f"Decimal({text!r}) -> {out} -> {back.d!r}  equal={same}")
    if not same:
        bad += 1
# control: the huge counterpart is handled (encoded as a string)
inst = Price(d=Decimal("1E+400"))
out = json.dumps(inst, cls=JSONEncoder)
print("control:", out, Price.__from__(out) == inst)
print("VIOLATION" if bad else "no violation")
sys.exit(1 if bad else 0)
