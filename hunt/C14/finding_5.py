"""C14 finding 5: a time with a UTC offset AND a millisecond part loses its offset (the encoder cuts the text at 12 chars)."""
import json, sys
from datetime import time, timezone, timedelta
from utype import Schema, JSONEncoder


class T(Schema):
    t: time


tz = timezone(timedelta(hours=8))
bad = 0
for v in [time(12, 0, 0, tzinfo=tz),            # control: no fraction -> offset kept
          time(12, 0, 0, 123000, tzinfo=tz),    # millisecond fraction -> offset dropped
          time(12, 0, 0, 123000, tzinfo=timezone(timedelta(hours=-5, minutes=-30)))]:
    inst = T(t=v)
    out = json.dumps(inst, cls=JSONEncoder)
    back = T.__from__(out)
    same = back == inst and back.t.utcoffset() == v.utcoffset()
    print(f"{v!r} -> {out} -> {back.t!r} equal={same}")
    if not same:
        bad += 1
print("VIOLATION" if bad else "no violation")
sys.exit(1 if bad else 0)
