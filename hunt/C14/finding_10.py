"""C14 finding 10 (minor): a field whose JSON name is "_d" (alias) can be built and encoded, but parsing the text feeds the
top-level keys as **kwargs into the generated __init__(_obj_self, _d=None, **kwargs), whose own parameter swallows the value."""
import json, sys
from datetime import date
from utype import Schema, Field, JSONEncoder


class A(Schema):
    x: date = Field(alias="_d")


inst = A({"_d": date(2020, 1, 1)})
out = json.dumps(inst, cls=JSONEncoder)
print(dict(inst), "->", out)
try:
    back = A.__from__(out)
    print("parsed:", dict(back), "equal =", back == inst)
    bad = back != inst
except Exception as e:
    print("PARSE FAILED:", repr(e))
    bad = True
print("VIOLATION" if bad else "no violation")
sys.exit(1 if bad else 0)
