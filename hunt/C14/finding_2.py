"""C14 finding 2: an Enum member whose VALUE equals the NAME of another member comes back as the other member."""
import json, sys
from enum import Enum
from utype import Schema, JSONEncoder


class Direction(Enum):
    UP = "DOWN"      # value of UP is the name of the other member
    DOWN = "UP"


class Move(Schema):
    e: Direction


class StrDirection(str, Enum):
    UP = "DOWN"
    DOWN = "UP"


class Move2(Schema):
    e: StrDirection


bad = 0
for cls, member in [(Move, Direction.UP), (Move2, StrDirection.UP)]:
    inst = cls(e=member)
    out = json.dumps(inst, cls=JSONEncoder)
    back = cls.__from__(out)
    print(f"{member!r} -> {out} -> {back.e!r}  equal={back == inst}")
    if back != inst or back.e is not member:
        bad += 1
print("VIOLATION" if bad else "no violation")
sys.exit(1 if bad else 0)
