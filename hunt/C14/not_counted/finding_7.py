"""C14 finding 7: a plain Enum whose values are not JSON primitives (tuple, date, bytes, big Decimal) encodes fine
but the encoded value is never converted back, so parsing fails."""
import json, sys
from enum import Enum
from datetime import date
from decimal import Decimal
from utype import Schema, JSONEncoder


class Planet(Enum):                 # the example from the stdlib enum docs
    MERCURY = (3.303e+23, 2.4397e6)
    EARTH = (5.976e+24, 6.37814e6)


class Holiday(Enum):
    NEW_YEAR = date(2024, 1, 1)


class Magic(Enum):
    HEADER = b"PNG"   # UTF-8 bytes


class Big(Enum):
    AVOGADRO = Decimal("6.02214076E+23")


bad = 0
for en in [Planet.EARTH, Holiday.NEW_YEAR, Magic.HEADER, Big.AVOGADRO]:
    E = type(en)

    class S(Schema):
        e: E

    inst = S(e=en)
    out = json.dumps(inst, cls=JSONEncoder)
    try:
        back = S.__from__(out)
        print(f"{en!r} -> {out} -> {back.e!r} equal={back == inst}")
        if back != inst:
            bad += 1
    except Exception as e:
        print(f"{en!r} -> {out} -> PARSE FAILED: {str(e).strip()[:100]}")
        bad += 1
print("VIOLATION" if bad else "no violation")
sys.exit(1 if bad else 0)
