"""C14 finding 8: dict KEYS of the listed non-primitive types (date, datetime, time, timedelta, UUID, Decimal, bytes,
Enum, tuple) are never passed to the registered encoders: JSONEncoder raises TypeError, JSONSerializer silently drops the entry."""
import json, sys, uuid
from typing import Dict, Tuple
from enum import Enum
from datetime import date, datetime, time, timedelta
from decimal import Decimal
from utype import Schema, JSONEncoder
from utype.utils.encode import JSONSerializer


class Color(Enum):
    RED = "r"


bad = 0
for kt, k in [(int, 5), (float, 1.5), (bool, True),       # controls: work
              (date, date(2020, 1, 1)), (datetime, datetime(2020, 1, 1)), (time, time(1, 2)),
              (timedelta, timedelta(1)), (uuid.UUID, uuid.UUID(int=5)), (Decimal, Decimal("1.5")),
              (bytes, b"ab"), (Color, Color.RED), (Tuple[int, int], (1, 2))]:
    class K(Schema):
        d: Dict[kt, int]

    inst = K(d={k: 1})
    # the same class does accept the key in its JSON form, so only the encoder is missing
    try:
        out = json.dumps(inst, cls=JSONEncoder)
        back = K.__from__(out)
        res = f"{out} equal={back == inst}"
        ok = back == inst
    except TypeError as e:
        res = f"ENCODE FAILED: {e}"
        ok = False
    out2 = JSONSerializer().dumps(inst).decode()
    ok2 = K.__from__(out2) == inst
    print(f"Dict[{getattr(kt, '__name__', kt)}, int] {k!r}: JSONEncoder -> {res}; JSONSerializer -> {out2} equal={ok2}")
    if not ok or not ok2:
        bad += 1
print("VIOLATION" if bad else "no violation")
sys.exit(1 if bad else 0)
