"""C14 finding 3: Set[Tuple[...]] encodes to a list of lists, which the same class cannot parse (unhashable list)."""
import json, sys
from typing import Set, Tuple, Dict
from datetime import date
from utype import Schema, JSONEncoder


class A(Schema):
    pairs: Set[Tuple[int, str]]


class B(Schema):
    m: Dict[str, Set[Tuple[date, ...]]]


bad = 0
for cls, kw in [(A, dict(pairs={(1, "a"), (2, "b")})), (B, dict(m={"k": {(date(2020, 1, 1),)}}))]:
    inst = cls(**kw)
    out = json.dumps(inst, cls=JSONEncoder)
    try:
        back = cls.__from__(out)
    except Exception as e:
        print(f"{dict(inst)} -> {out} -> PARSE FAILED: {str(e).strip()[:120]}")
        bad += 1
        continue
    print(f"{dict(inst)} -> {out} -> {dict(back)} equal={back == inst}")
    if back != inst:
        bad += 1
print("VIOLATION" if bad else "no violation")
sys.exit(1 if bad else 0)
