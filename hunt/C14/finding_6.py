"""C14 finding 6: an integer-valued Decimal written with a positive exponent (1E+2) is encoded as the float 100.0,
which the same class rejects when the field has max_digits."""
import json, sys
from decimal import Decimal
from utype import Schema, Field, JSONEncoder


class Q(Schema):
    d: Decimal = Field(max_digits=3)


bad = 0
for text in ["100", "1E+2", "1.5E+2"]:
    inst = Q(d=Decimal(text))          # accepted: 3 significant digits
    out = json.dumps(inst, cls=JSONEncoder)
    try:
        back = Q.__from__(out)
        print(f"Decimal({text!r}) -> {out} -> {back.d!r} equal={back == inst}")
        if back != inst:
            bad += 1
    except Exception as e:
        print(f"Decimal({text!r}) -> {out} -> PARSE FAILED: {str(e).strip()[:100]}")
        bad += 1
print("VIOLATION" if bad else "no violation")
sys.exit(1 if bad else 0)
