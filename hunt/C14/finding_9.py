"""C14 finding 9: data classes that are not dict subclasses (utype.DataClass, @utype.dataclass) cannot be encoded at all,
neither at top level nor as a field of a Schema."""
import json, sys
from datetime import date
import utype
from utype import Schema, DataClass, JSONEncoder


class Point(DataClass):
    x: int
    d: date


@utype.dataclass
class Point2:
    x: int
    d: date


class Holder(Schema):
    p: Point


bad = 0
for inst in [Point(x=1, d=date(2020, 1, 1)), Point2(x=1, d=date(2020, 1, 1)), Holder(p=Point(x=1, d=date(2020, 1, 1)))]:
    try:
        out = json.dumps(inst, cls=JSONEncoder)
        back = type(inst).__from__(out) if hasattr(type(inst), '__from__') else type(inst).__parser__.obj(**json.loads(out))
        print(f"{inst!r} -> {out} equal={back == inst}")
        if back != inst:
            bad += 1
    except TypeError as e:
        print(f"{inst!r} -> ENCODE FAILED: {e}")
        bad += 1
print("VIOLATION" if bad else "no violation")
sys.exit(1 if bad else 0)
