"""C05 finding 8 (adjacent to the anchored code: ParserField.parse_value, discriminator branch):
with Field(discriminator=...) the discriminator value is looked up in the raw input with the
literal name only, so the other accepted keys of that field (alias / alias_from / attribute
name, other letter case) are not recognised, although the very same input parses fine without
the discriminator."""
import sys, warnings
warnings.simplefilter("ignore")
from typing import Literal, Union
from utype import Schema, Field, exc

class Video(Schema):
    kind: Literal['video'] = Field(alias='Kind', alias_from=['k'])
    length: int = 0

class Image(Schema):
    kind: Literal['image'] = Field(alias='Kind', alias_from=['k'])
    w: int = 0

class Plain(Schema):
    media: Union[Video, Image]

class Disc(Schema):
    media: Union[Video, Image] = Field(discriminator='kind')

bad = []
for data in ({'kind': 'image', 'w': 3}, {'Kind': 'image', 'w': 3}, {'k': 'image', 'w': 3}):
    p = Plain(media=data)
    try:
        d = Disc(media=data)
        print(data, "-> plain:", p.media, "| discriminated:", d.media)
    except exc.ParseError as e:
        print(data, "-> plain:", p.media, "| discriminated:", type(e).__name__)
        bad.append(list(data)[0])

print("violations (accepted keys not recognised):", bad)
sys.exit(1 if bad else 0)
