"""C05 finding 9 (minor): under ignore_alias_conflicts=True the value that a field takes when
several of its accepted keys are given depends on the search strategy, which is documented as
a pure performance switch.  field_first_parse: first in the order of the declared aliases (as
tests/test_options.py pins: {'alias': 1, 'alias_from': 2} -> '1'); data_first_parse: the LAST
one in input order; the case-insensitive pre-pass of field_first_parse: also the last one."""
import sys, warnings
warnings.simplefilter("ignore")
from utype import Schema, Field, Options

def make(dfs, **kw):
    class AliasSchema2(Schema):
        __options__ = Options(ignore_alias_conflicts=True, data_first_search=dfs, **kw)
        alias: str = Field(alias_from=['alias_from', '@af2'])
    return AliasSchema2

bad = []
for data in ({'alias': 1, 'alias_from': 2}, {'alias_from': 1, '@af2': 2}, {'@af2': 2, 'alias': 1}):
    ff = dict(make(False)(dict(data)))
    df = dict(make(True)(dict(data)))
    print(data, "field_first ->", ff, "| data_first ->", df)
    if ff != df:
        bad.append(tuple(data))

# inside field_first itself: case variants -> last wins, aliases -> first declared wins
ci = make(False, case_insensitive=True)
r1 = dict(ci({'alias': 1, 'ALIAS': 2}))
r2 = dict(ci({'alias': 1, 'alias_from': 2}))
print("field_first, case_insensitive:", {'alias': 1, 'ALIAS': 2}, "->", r1, ";", {'alias': 1, 'alias_from': 2}, "->", r2)
if r1 != r2:
    bad.append('case-variant-vs-alias')

print("violations:", bad)
sys.exit(1 if bad else 0)
