"""C05 finding 2: the input keys '_d' and '_obj_self' are swallowed by the parameters of the
generated __init__ when the data goes through __from__ / a nested data class field
(init_dataclass calls cls.__init__(inst, **data)).  '_d' is neither dropped/kept/rejected
per the addition policy, and a dict under '_d' is MERGED into the input and feeds the fields."""
import sys, warnings
warnings.simplefilter("ignore")
from utype import Schema, Field, Options, exc

bad = []

class Strict(Schema):
    __options__ = Options(addition=False)
    a: int = 0

class Keep(Schema):
    __options__ = Options(addition=True)
    a: int = 0

class Outer(Schema):
    inner: Strict

def run(label, f):
    try:
        r = f()
        print(f"{label}: -> {r!r}")
        return r
    except Exception as e:
        print(f"{label}: raised {type(e).__name__}: {e}")
        return e

# control: an ordinary unknown key is rejected under addition=False
r = run("control  Strict.__from__({'_x': 1})", lambda: Strict.__from__({'_x': 1}))
assert isinstance(r, exc.ExceedError)

# 1. unknown key '_d' is not rejected under addition=False
r = run("(1) Strict.__from__({'_d': 1})", lambda: Strict.__from__({'_d': 1}))
if not isinstance(r, Exception):
    bad.append(1)

# 2. a dict under '_d' feeds the declared fields (a JSON body {"_d": {"a": "7"}} sets a=7)
r = run("(2) Outer(inner='{\"_d\": {\"a\": \"7\"}}')", lambda: Outer(inner='{"_d": {"a": "7"}}'))
if not isinstance(r, Exception) and r.inner.a == 7:
    bad.append(2)

# 3. unknown key '_d' is not kept under addition=True (the constructor path keeps it)
r1 = run("(3) Keep.__from__({'_d': 3})", lambda: Keep.__from__({'_d': 3}))
r2 = run("    Keep({'_d': 3})          ", lambda: Keep({'_d': 3}))
if not isinstance(r1, Exception) and dict(r1) != dict(r2):
    bad.append(3)

# 4. unknown key '_obj_self' raises a bare TypeError (not a parse error) from __from__
r = run("(4) Keep.__from__({'_obj_self': 1})", lambda: Keep.__from__({'_obj_self': 1}))
if isinstance(r, TypeError) and not isinstance(r, exc.ParseError):
    bad.append(4)

print("violations:", bad)
sys.exit(1 if bad else 0)
