"""C05 finding 6 (minor): under addition=False ("disallow additional parameters; if input
contains extra parameters, an error is thrown") unknown keys that happen to be the name of an
excluded class attribute (ClassVar, method, private attribute, and for Schema every dict method
the class overrides: update / pop / copy / clear / setdefault ...) are silently dropped
instead of rejected."""
import sys, warnings
warnings.simplefilter("ignore")
from typing import ClassVar
from utype import Schema, Options, exc

class Static(Schema):
    __options__ = Options(addition=False)
    _private: int = 0
    VERSION: ClassVar[tuple] = (0, 2, 1)

    @classmethod
    def generate(cls): pass

    a: int = 0

bad = []
for key in ['other', '_other', 'VERSION', 'generate', '_private', 'update', 'pop', 'copy']:
    try:
        r = Static(**{key: 1})
        print(f"Static({key}=1) -> accepted silently: {dict(r)}")
        bad.append(key)
    except exc.ExceedError as e:
        print(f"Static({key}=1) -> ExceedError: {e}")

print("violations (keys not rejected):", bad)
sys.exit(1 if bad else 0)
