"""C05 finding 4: "optional fields take a fresh copy of their default" -- copy_value() rebuilds
the default with the wrong constructor: every dict subclass (a Schema instance, OrderedDict,
defaultdict) becomes a plain dict, and a NamedTuple default makes every parse raise TypeError."""
import sys, warnings
warnings.simplefilter("ignore")
from collections import OrderedDict, defaultdict
from typing import NamedTuple
from utype import Schema, Field

bad = []

class User(Schema):
    name: str

class Group(Schema):
    owner: User = User(name='root')       # default: an instance of the declared type

g = Group()
print("Group().owner ->", repr(g.owner), type(g.owner))
if type(g.owner) is not User:
    bad.append('schema-default-becomes-dict')
    try:
        g.owner.name
    except AttributeError as e:
        print("  g.owner.name ->", type(e).__name__, e)
print("Group(owner={'name': 'x'}).owner ->", type(Group(owner={'name': 'x'}).owner))

class Point(NamedTuple):
    x: int
    y: int

class Shape(Schema):
    origin: Point = Point(0, 0)

try:
    s = Shape()
    print("Shape().origin ->", repr(s.origin))
    if s.origin != Point(0, 0) or type(s.origin) is not Point:
        bad.append('namedtuple-default-changed')
except Exception as e:
    print("Shape() raised", type(e).__name__, e)
    bad.append('namedtuple-default-raises')

class Conf(Schema):
    od: dict = Field(default=OrderedDict(a=1))
    dd: dict = Field(default=defaultdict(list))
c = Conf()
print("Conf() od/dd types ->", type(c.od), type(c.dd))
if type(c.od) is not OrderedDict or type(c.dd) is not defaultdict:
    bad.append('dict-subclass-default-becomes-dict')

print("violations:", bad)
sys.exit(1 if bad else 0)
