"""C05 finding 1: fields inherited from a base class keep the alias / case set-up of the
BASE class options; the options of the class that is actually parsed are not applied to them
(subclass with its own __options__, and the documented `@Options(...)` class decorator,
which works by creating such a subclass)."""
import sys, warnings
warnings.simplefilter("ignore")
from utype import Schema, Field, Options, exc
from utype.utils.style import AliasGenerator

bad = []

def run(label, f):
    try:
        r = f()
        print(f"{label}: -> {dict(r)}")
        return r
    except Exception as e:
        print(f"{label}: raised {type(e).__name__}: {e}")
        return e

# (a) the documented decorator form of class options
@Options(case_insensitive=True)
class Login(Schema):
    userName: str
    pw: str = Field(alias='passWord', default='')

r = run("(a1) @Options(case_insensitive=True): Login(USERNAME='x')", lambda: Login(USERNAME='x'))
if isinstance(r, Exception) or dict(r).get('userName') != 'x':
    bad.append('a1')
r = run("(a2) Login(userName='x', PASSWORD='p')", lambda: Login(userName='x', PASSWORD='p'))
if isinstance(r, Exception) or dict(r).get('passWord') != 'p':
    bad.append('a2')   # PASSWORD silently dropped, default '' used

# control: the same declaration with __options__ in the class body works
class LoginOK(Schema):
    __options__ = Options(case_insensitive=True)
    userName: str
    pw: str = Field(alias='passWord', default='')
r = run("(control) __options__ in body: LoginOK(USERNAME='x', PASSWORD='p')", lambda: LoginOK(USERNAME='x', PASSWORD='p'))
assert dict(r) == {'userName': 'x', 'passWord': 'p'}

# (b) documented "inherit with different options" pattern (docs/en/references/field.md, Mode configuration)
class User(Schema):
    userName: str
class UserRead(User):
    __options__ = Options(mode='r', case_insensitive=True)
r = run("(b) subclass Options(case_insensitive=True): UserRead(USERNAME='x')", lambda: UserRead(USERNAME='x'))
if isinstance(r, Exception):
    bad.append('b')

# (c) the other direction: base case-insensitive, subclass declares case_insensitive=False:
#     now even the attribute name itself is not accepted any more
class CIBase(Schema):
    __options__ = Options(case_insensitive=True)
    userName: str
class CSSub(CIBase):
    __options__ = Options(case_insensitive=False)
r = run("(c) CSSub(userName='x')  [exact attribute name]", lambda: CSSub(userName='x'))
if isinstance(r, Exception):
    bad.append('c')

# (d) alias_generator given through the decorator is ignored altogether
@Options(alias_generator=AliasGenerator.camel)
class Article(Schema):
    liked_num: int
r = run("(d) @Options(alias_generator=camel): Article(liked_num=3)", lambda: Article(liked_num=3))
if isinstance(r, Exception) or 'likedNum' not in dict(r):
    bad.append('d')

print("violations:", bad)
sys.exit(1 if bad else 0)
