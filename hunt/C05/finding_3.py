"""C05 finding 3: a @property field that is no_output (getter decorated with
@Field(no_output=True) as the guide suggests, or a setter-only property, which the library
marks no_output itself) can not be given in the input: set_attributes pops the value from
`values` and then reads values[key] for the setter -> KeyError."""
import sys, warnings
warnings.simplefilter("ignore")
from utype import Schema, DataClass, Field, exc

bad = []

def run(label, f):
    try:
        r = f()
        print(f"{label}: -> {r!r}  mapping={dict(r) if isinstance(r, dict) else None}")
        return r
    except Exception as e:
        print(f"{label}: raised {type(e).__name__}: {e}")
        return e

for base in (Schema, DataClass):
    class Article(base):
        _title: str = None

        @property
        @Field(no_output=True)          # "no_output=True: do not output the calculated property value"
        def title(self) -> str:
            return self._title

        @title.setter
        def title(self, val: str):
            self._title = val

    r = run(f"{base.__name__}: Article(title='x')", lambda: Article(title='x'))
    if isinstance(r, KeyError):
        bad.append(f'{base.__name__}-getter-no_output')
    elif not isinstance(r, Exception):
        assert r.title == 'x'

    class SetterOnly(base):
        def set_v(self, value: int):
            self.__dict__['_v'] = value
        v = property(fset=set_v)

    r = run(f"{base.__name__}: SetterOnly(v=3)", lambda: SetterOnly(v=3))
    if isinstance(r, KeyError):
        bad.append(f'{base.__name__}-setter-only')

# control: the same property without no_output works
class ArticleOK(Schema):
    _title: str = None
    @property
    def title(self) -> str:
        return self._title
    @title.setter
    def title(self, val: str):
        self._title = val
r = run("control: ArticleOK(title='x')", lambda: ArticleOK(title='x'))
assert r.title == 'x'

print("violations:", bad)
sys.exit(1 if bad else 0)
