"""C05 finding 7 (minor / possibly known): a runtime Options(addition=<type>) keeps unknown keys
WITHOUT converting them (it behaves as addition=True); and a class-level addition type keeps
being applied when the runtime options say addition=True.  parse_addition only ever uses the
type computed from the class options (base.py: "we should just ignore the runtime addition type")."""
import sys, warnings
warnings.simplefilter("ignore")
from utype import Schema, Options, exc

class A(Schema):
    a: int = 0

class B(Schema):
    __options__ = Options(addition=int)
    a: int = 0

bad = []
print("class-level   :", dict(B.__from__({'a': 1, 'b': '2'})))
assert dict(B.__from__({'a': 1, 'b': '2'})) == {'a': 1, 'b': 2}

r = A.__from__({'a': 1, 'b': '2'}, options=Options(addition=int))
print("runtime type  :", dict(r))
if dict(r).get('b') != 2:
    bad.append('runtime-type-not-applied')

try:
    r = A.__from__({'a': 1, 'b': 'x'}, options=Options(addition=int))
    print("runtime type, unconvertible value kept:", dict(r))
    bad.append('runtime-type-invalid-kept')
except exc.ParseError as e:
    print("runtime type, unconvertible value ->", type(e).__name__)

try:
    r = B.__from__({'a': 1, 'b': 'x'}, options=Options(addition=True))
    print("runtime addition=True over class addition=int:", dict(r))
except exc.ParseError as e:
    print("runtime addition=True over class addition=int ->", type(e).__name__, e)
    bad.append('runtime-True-still-converts')

print("violations:", bad)
sys.exit(1 if bad else 0)
