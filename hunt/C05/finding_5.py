"""C05 finding 5 (minor): dropping an inherited field in a subclass with `name = ...`
(pinned by tests/test_cls.py::test_inherit) looks the field up by ATTRIBUTE name, but the field
table is keyed by the (case-folded) OUTPUT name.  In a case-insensitive class a field whose
name has an upper-case letter is therefore not dropped: it silently becomes an optional field
whose default is the Ellipsis object, and instances hold `...` as the value."""
import sys, warnings
warnings.simplefilter("ignore")
from utype import Schema, Field, Options

bad = []

class Base(Schema):
    __options__ = Options(case_insensitive=True)
    Name: int
    other: int = 0

class Sub(Base):
    Name = ...          # drop the inherited field

inst = Sub()
print("Sub() ->", dict(inst))
if 'Name' in dict(inst):
    bad.append('not-dropped')
    print("  value held for the int field:", repr(dict(inst)['Name']))

# control: identical declaration with a lower-case name is dropped as the test pins
class Base2(Schema):
    __options__ = Options(case_insensitive=True)
    name: int
    other: int = 0
class Sub2(Base2):
    name = ...
print("control Sub2(name=3) ->", dict(Sub2(name=3)))
assert dict(Sub2(name=3)) == {'other': 0}

print("violations:", bad)
sys.exit(1 if bad else 0)
