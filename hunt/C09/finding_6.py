"""C09 finding 6: nested combinators of the same kind are flattened only by the operator path
(LogicalType.combine_by).  LogicalType.combine() itself - used by Rule.any_of/one_of/all_of, by every
typing.Union[...] / Optional[...] annotation and by JsonSchemaParser - keeps them nested, and a native
`X | Y` (types.UnionType) operand is wrapped instead of spliced.  The nested and the flat form do not
mean the same thing.
"""
import sys, warnings
warnings.simplefilter("ignore")
from typing import Union, Optional
from utype import Rule, Schema, types, exc


def accepts(t, v):
    try:
        return True, t(v)
    except exc.ParseError:
        return False, None


bad = 0
StrOrFloat = types.Str | float

flat = types.PositiveInt | StrOrFloat                      # operators: AnyOf(PositiveInt, Str, float)
nested_fn = Rule.any_of(types.PositiveInt, StrOrFloat)      # AnyOf(PositiveInt, AnyOf(Str, float))
nested_ann = Rule.parse_annotation(Union[types.PositiveInt, StrOrFloat])   # what a field annotated so gets
native = types.PositiveInt | (str | float)                  # py>=3.10 native union as the right operand
typing_u = types.PositiveInt | Union[str, float]            # typing.Union as the right operand (spliced)

for label, t in [("PositiveInt | StrOrFloat", flat), ("Rule.any_of(PositiveInt, StrOrFloat)", nested_fn),
                 ("Union[PositiveInt, StrOrFloat] annotation", nested_ann), ("PositiveInt | (str | float)", native),
                 ("PositiveInt | Union[str, float]", typing_u)]:
    r = t(5.0)
    print(f"{label:42s}-> {t};  (5.0) -> {r!r}")
    if not (type(r) is float):
        bad += 1          # 5.0 is a value of exactly one argument type (float) and must come back unchanged


class S(Schema):
    v: Union[types.PositiveInt, StrOrFloat]


print("S(v=5.0).v ->", repr(S(v=5.0).v))

# for ^ the difference is accept / reject
a, b, c = types.PositiveInt, types.Float, types.Str
flat_x = (a ^ b) ^ c                 # OneOf(a, b, c): exactly one of three
nested_x = Rule.one_of(a ^ b, c)     # OneOf(OneOf(a, b), c)
print("(a ^ b) ^ c           ->", flat_x, "; ('7') accepted =", accepts(flat_x, "7")[0])
print("Rule.one_of(a ^ b, c) ->", nested_x, "; ('7') accepted =", accepts(nested_x, "7")[0])
if getattr(nested_x.args[0], "combinator", None) == "^":
    bad += 1

print("VIOLATION" if bad else "ok")
sys.exit(1 if bad else 0)
