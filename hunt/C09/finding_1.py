"""C09 finding 1: a union accepts an input that NONE of its arguments accepts (and, symmetrically, an
outer ^ rejects because a nested | accepted too much), when an argument contains ~ or ^.

Root cause: the staged retries of the | branch re-run every argument under *stricter* options
(no_explicit_cast / no_data_loss).  Stricter options make ~X and X^Y accept MORE, not less.
"""
import sys, warnings
warnings.simplefilter("ignore")
from typing import Optional
from utype import Rule, Schema, types, exc


def accepts(t, v):
    try:
        return True, t(v)
    except exc.ParseError as e:
        return False, type(e).__name__


bad = 0
NotInt = ~types.Int
IntXorFloat = types.Int ^ types.Float

cases = [
    ("~Int", NotInt, "~Int | None", NotInt | None, "5"),
    ("~Int", NotInt, "~Int | None", NotInt | None, 5.5),
    ("~Int", NotInt, "~Int | None", NotInt | None, [5]),
    ("Int ^ Float", IntXorFloat, "(Int ^ Float) | None", IntXorFloat | None, 1.5),
]
for an, a, un, u, v in cases:
    a_ok, a_res = accepts(a, v)
    n_ok, _ = accepts(types.Null, v)
    u_ok, u_res = accepts(u, v)
    print(f"{an}({v!r}) accepts={a_ok}; Null({v!r}) accepts={n_ok}; ({un})({v!r}) accepts={u_ok} -> {u_res!r}")
    if u_ok != (a_ok or n_ok):
        bad += 1


class S(Schema):
    d: Optional[NotInt] = None      # the usual way to meet it: an optional field


try:
    print("S(d='5') ->", S(d="5"), "   (but (~Int)('5') is rejected)")
    bad += 1
except exc.ParseError as e:
    print("S(d='5') rejected")

# the mirror image: the nested union accepts too much, so the outer exclusive-or sees two matches
inner = types.Str ^ list                  # rejects '5' on its own: both Str and list take '5'
outer = types.Str ^ (types.Null | inner)  # => only Str accepts '5' => must accept
i_ok, _ = accepts(inner, "5")
n_ok, _ = accepts(types.Null | inner, "5")
o_ok, o_res = accepts(outer, "5")
print(f"(Str ^ list)('5') accepts={i_ok}; (Null | (Str ^ list))('5') accepts={n_ok}; "
      f"(Str ^ (Null | (Str ^ list)))('5') accepts={o_ok}")
if n_ok != i_ok:
    bad += 1

print("VIOLATION" if bad else "ok")
sys.exit(1 if bad else 0)
