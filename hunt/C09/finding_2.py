"""C09 finding 2: <data class> OP <int- or set-based Rule> raises TypeError at construction time,
while the same operands in the other order build fine.

LogicalMeta.__or__/__xor__/__and__ delegate with `other.__ror__(cls)` (attribute lookup on the Rule CLASS).
For a Rule that inherits from int (types.Int, types.PositiveInt, types.Year, any `class X(int, Rule)`)
or set, that lookup finds the unbound int.__ror__ / set.__ror__ slot of the base class before the
metaclass method LogicalType.__ror__, and calling it with a class raises.
"""
import sys, warnings
warnings.simplefilter("ignore")
from utype import Rule, Schema, types


class User(Schema):
    name: str


class Tags(set, Rule):
    pass


bad = 0
for rname, R in [("types.PositiveInt", types.PositiveInt), ("types.Int", types.Int), ("types.Year", types.Year),
                 ("Tags(set, Rule)", Tags), ("types.Str", types.Str)]:
    for op, f, g in [("|", lambda a, b: a | b, None), ("^", lambda a, b: a ^ b, None), ("&", lambda a, b: a & b, None)]:
        try:
            other_order = f(R, User)
        except Exception as e:
            other_order = f"{type(e).__name__}: {e}"
        try:
            res = f(User, R)
            print(f"User {op} {rname} -> {res}      ({rname} {op} User -> {other_order})")
        except TypeError as e:
            bad += 1
            print(f"User {op} {rname} -> TypeError: {e}      ({rname} {op} User -> {other_order})")

try:
    class Holder(Schema):
        owner: User | types.PositiveInt     # a user object or a user id
    print("field annotation `User | types.PositiveInt` ok")
except TypeError as e:
    bad += 1
    print("field annotation `User | types.PositiveInt` -> TypeError:", e)

print("VIOLATION" if bad else "ok")
sys.exit(1 if bad else 0)
