"""C09 finding 5: duplicate arguments are absorbed only when they are the very same object.
Equal Literal / generic-alias / ~X / nested-combinator operands are wrapped in a fresh class each time,
survive de-duplication, and make an exclusive-or unsatisfiable for everything the duplicate accepts.
"""
import sys, warnings
warnings.simplefilter("ignore")
from typing import List, Literal
from utype import Rule, Schema, types, exc


class A(Schema):
    x: int


def accepts(t, v):
    try:
        return True, t(v)
    except exc.ParseError:
        return False, None


bad = 0
same_obj = types.PositiveInt ^ types.Str ^ types.Str
print("PositiveInt ^ Str ^ Str                  ->", same_obj, "(same object: absorbed)")

for label, t, v in [
    ("PositiveInt ^ Literal['a'] ^ Literal['a']", types.PositiveInt ^ Literal["a"] ^ Literal["a"], "a"),
    ("PositiveInt ^ List[int] ^ List[int]", types.PositiveInt ^ List[int] ^ List[int], [1, 2]),
    ("~A ^ ~A", ~A ^ ~A, "zzz"),
    ("(A | types.Str) ^ (A | types.Str)", (A | types.Str) ^ (A | types.Str), "zzz"),
    ("Rule.one_of(List[int], List[int])", Rule.one_of(List[int], List[int]), [1]),
]:
    n_args = len(t.args) if getattr(t, "combinator", None) else 1
    ok, res = accepts(t, v)
    print(f"{label:42s}-> {t};  ({v!r}) accepted={ok}")
    if not ok:
        bad += 1

print("VIOLATION" if bad else "ok")
sys.exit(1 if bad else 0)
