"""C09 finding 3: `Self` used as an operand of a utype operator combinator is never bound to the class,
so that argument can never accept: `types.Null | Self` rejects what `Optional[Self]` accepts.
"""
import sys, warnings
warnings.simplefilter("ignore")
from typing import Optional, Union, List
from utype import Schema, types, exc
from utype.types import Self

bad = 0


class ViaTyping(Schema):
    val: int
    next: Union[types.PositiveInt, Self] = 1          # typing.Union: Self is bound to the class


class ViaOperator(Schema):
    val: int
    next: types.PositiveInt | Self = 1                # utype operator: Self stays typing.Self


class ViaXor(Schema):
    val: int
    next: types.PositiveInt ^ Self = 1


class InList(Schema):
    val: int
    kids: List[types.PositiveInt | Self] = []


print("ViaTyping field type  :", ViaTyping.__parser__.fields["next"].type)
print("ViaOperator field type:", ViaOperator.__parser__.fields["next"].type)

for cls, data in [(ViaTyping, dict(val=1, next={"val": 2})), (ViaOperator, dict(val=1, next={"val": 2})),
                  (ViaXor, dict(val=1, next={"val": 2})), (InList, dict(val=1, kids=[{"val": 2}, 3]))]:
    try:
        print(f"{cls.__name__}(**{data}) ->", cls(**data))
    except exc.ParseError as e:
        print(f"{cls.__name__}(**{data}) -> REJECTED:", str(e).replace("\n", " ")[:140])
        if cls is not ViaTyping:
            bad += 1

print("VIOLATION" if bad else "ok")
sys.exit(1 if bad else 0)
