"""C09 finding 7: Any is absorbed only when it reaches LogicalType.combine() as the literal typing.Any.
Inside a typing.Union annotation Any has already been replaced by utype's own "anything" type (the bare
`Rule` class), which combine() does not recognise - so Union[int, Any] is a real two-armed union that
converts, and `X ^ Rule` / `X ^ Union[str, Any]` reject where `X ^ Any` accepts everything.
"""
import sys, warnings
warnings.simplefilter("ignore")
from typing import Any, Union
from utype import Rule, Schema, types, exc


def accepts(t, v):
    try:
        return True, t(v)
    except exc.ParseError:
        return False, None


bad = 0
print("PositiveInt | Any               ->", types.PositiveInt | Any)
print("PositiveInt ^ Any               ->", types.PositiveInt ^ Any)
t1 = Rule.parse_annotation(Union[int, Any])
print("annotation Union[int, Any]      ->", t1)


class S(Schema):
    a: Union[int, Any]
    b: Any


s = S(a=3.0, b=3.0)
print("S(a=3.0, b=3.0)                 ->", s, "  (a: Union[int, Any] should be Any and keep 3.0)")
if type(s.a) is not float:
    bad += 1
s = S(a=True, b=True)
print("S(a=True, b=True)               ->", s)

x1 = types.PositiveInt ^ Any
x2 = types.PositiveInt ^ Rule
x3 = types.PositiveInt ^ Union[str, Any]
for label, t in [("PositiveInt ^ Any", x1), ("PositiveInt ^ Rule", x2), ("PositiveInt ^ Union[str, Any]", x3)]:
    ok, r = accepts(t, 3)
    print(f"{label:32s}-> {t}; (3) accepted={ok}")
if accepts(x1, 3)[0] != accepts(x3, 3)[0]:
    bad += 1

print("VIOLATION" if bad else "ok")
sys.exit(1 if bad else 0)
