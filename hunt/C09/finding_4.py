"""C09 finding 4: exclusive-or returns the input as soon as its exact type is one of the arguments,
without testing the other arguments - so it accepts inputs that two (or all) arguments accept.
"""
import sys, warnings
warnings.simplefilter("ignore")
from utype import Rule, Schema, types, exc


class PosInt(int, Rule):
    gt = 0


class A(Schema):
    x: int


def accepts(t, v):
    try:
        return True, t(v)
    except exc.ParseError:
        return False, None


bad = 0
for label, x, args, v in [
    ("PosInt ^ int", PosInt ^ int, [PosInt, int], 5),
    ("types.Str ^ int", types.Str ^ int, [types.Str, int], 5),
    ("types.Str ^ list", types.Str ^ list, [types.Str, list], [1]),
    ("A ^ dict", A ^ dict, [A, dict], {"x": 1}),
    ("types.Float ^ types.Int ^ int", types.Float ^ types.Int ^ int, [types.Float, types.Int, int], 3),
]:
    n = sum(accepts(a, v)[0] for a in args)
    ok, res = accepts(x, v)
    print(f"({label})({v!r}): {n} of {len(args)} arguments accept it on their own; xor accepts={ok} -> {res!r}")
    if ok != (n == 1):
        bad += 1

# the same value spelled as a string takes the slow path and is (correctly) rejected
print("(PosInt ^ int)('5') accepts =", accepts(PosInt ^ int, "5")[0])
# and it breaks ~ on top of it
print("(~(types.Str ^ dict))({}) accepts =", accepts(~(types.Str ^ dict), {})[0],
      "  while (Str ^ dict) should reject {} (both accept), so the negation should accept")

print("VIOLATION" if bad else "ok")
sys.exit(1 if bad else 0)
