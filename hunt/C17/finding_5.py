"""
C17 finding 5: Field(discriminator=...) over a union whose members are named by string / defined later.
The discriminator table is built once, while the field is being declared, from whatever the union holds at
that moment. A member that is not defined yet is an unresolved ForwardRef there, and the class (or function)
declaration itself is rejected with ConfigError. Direct references, and string references to classes that
already exist, work.
"""
import sys
import warnings
from typing import Literal, Optional, Union

import utype
from utype import Field, Schema

warnings.simplefilter("ignore")


def outcome(fn):
    try:
        return repr(fn())
    except Exception as e:
        return f"{type(e).__name__}: {' '.join(str(e).split())[:130]}"


def declare_before():
    # members defined later in the module (the usual reason to write a string at all)
    class Upload(Schema):
        file: Union['Video', 'Audio', None] = Field(discriminator='kind')
    return Upload


def declare_before_function():
    @utype.parse
    def upload(file: Union['Video', 'Audio'] = Field(discriminator='kind')):
        return file
    return upload


before = outcome(declare_before)
before_fn = outcome(declare_before_function)


class Video(Schema):
    kind: Literal['video']
    seconds: int = 0


class Audio(Schema):
    kind: Literal['audio']
    seconds: str = ''


class UploadDirect(Schema):
    file: Union[Video, Audio, None] = Field(discriminator='kind')


class UploadQuotedAfter(Schema):
    file: Union['Video', 'Audio', None] = Field(discriminator='kind')


data = {'file': {'kind': 'audio', 'seconds': 12}}
print("direct references                    ->", outcome(lambda: UploadDirect(**data)))
print("string references, members exist     ->", outcome(lambda: UploadQuotedAfter(**data)))
print("string references, members come later ->", before)
print("same, function parameter             ->", before_fn)

violated = 'Error' in before or 'Error' in before_fn
if not violated:
    # declared fine: must then parse like the direct declaration
    a = outcome(lambda: declare_before()(**data)).replace('Upload(', 'UploadDirect(')
    violated = a != outcome(lambda: UploadDirect(**data))
print("VIOLATION PRESENT" if violated else "no violation")
sys.exit(1 if violated else 0)
