"""
C17 finding 6: postponed evaluation of annotations (`from __future__ import annotations`) changes the
annotation forms that are handled at FIELD level - Final[...], ClassVar[...], Annotated[T, Field(...)]:

  * `x: Final[int]` / `x: ClassVar[int]`: the class declaration is rejected ("... is not valid as type
    argument"); without the __future__ import the same class declares and works;
  * `x: Final[Later]` / `x: Annotated[Later, Field(alias=...)]` with Later defined further down: declared
    fine, then every parse fails (the Final / Annotated wrapper is only looked at while declaring, when
    the annotation is still an unevaluated string), the alias / immutability never take effect.
"""
from __future__ import annotations

import sys
import warnings
from typing import Annotated, ClassVar, Final, List

import utype
from utype import Field, Schema

warnings.simplefilter("ignore")


def outcome(fn):
    try:
        return repr(fn())
    except Exception as e:
        return f"{type(e).__name__}: {' '.join(str(e).split())[:130]}"


def plain(source):
    """the same class body compiled WITHOUT postponed evaluation (the 'direct' declaration)"""
    ns = dict(Annotated=Annotated, ClassVar=ClassVar, Final=Final, List=List,
              Field=Field, Schema=Schema, Later=globals().get('Later'), __name__=__name__)
    exec(compile(source, '<direct>', 'exec', flags=0, dont_inherit=True), ns)
    return ns


violated = False

# ---- 1. Final / ClassVar of an ordinary type --------------------------------------------------------
def final_postponed():
    class Conf(Schema):
        version: Final[int] = 3
        registry: ClassVar[int] = 7
        name: str = ''
    return Conf(name='a', version=5), sorted(Conf.__parser__.fields)


SRC1 = '''
class Conf(Schema):
    version: Final[int] = 3
    registry: ClassVar[int] = 7
    name: str = ''
result = Conf(name='a', version=5), sorted(Conf.__parser__.fields)
'''
direct1 = outcome(lambda: plain(SRC1)['result'])
post1 = outcome(final_postponed)
print("Final[int] / ClassVar[int]   direct    ->", direct1)
print("                             postponed ->", post1)
violated |= direct1 != post1


# ---- 2. Annotated / Final naming a class defined later ----------------------------------------------
class Holder(Schema):
    item: Annotated[Later, Field(alias='it')] = None
    many: Annotated[List[Later], Field(max_length=1)] = None


class Frozen(Schema):
    item: Final[Later]


class Later(Schema):
    v: int = 0


SRC2 = '''
class Holder(Schema):
    item: Annotated[Later, Field(alias='it')] = None
    many: Annotated[List[Later], Field(max_length=1)] = None
class Frozen(Schema):
    item: Final[Later]
'''
ns = plain(SRC2)


def frozen(cls):
    f = cls(item={'v': '1'})
    try:
        f.item = {'v': '2'}
        return f, 'assignment accepted'
    except Exception as e:
        return f, f'assignment refused ({type(e).__name__})'


for label, fn in [
    ("Annotated[Later, Field(alias='it')]  it={'v': '3'}", lambda c: c['Holder'](it={'v': '3'})),
    ("Annotated[List[Later], Field(max_length=1)], 2 items", lambda c: c['Holder'](many=[{}, {}])),
    ("Final[Later]", lambda c: frozen(c['Frozen'])),
]:
    for attempt in (1, 2):
        d = outcome(lambda: fn(ns))
        p = outcome(lambda: fn(globals()))
        print(f"call#{attempt} {label}\n      direct    -> {d}\n      postponed -> {p}")
        violated |= d != p

print("VIOLATION PRESENT" if violated else "no violation")
sys.exit(1 if violated else 0)
