"""
C17 finding 3: a subclass that re-declares an inherited field by value only (`x = Field(...)`, the
"use the inherited annotation" feature of tests/test_cls.py::test_inherit) re-evaluates the STRING the
base class wrote in the namespace of the SUBCLASS. With a direct reference in the base class the
subclass converts to the base module's class; with a string reference it fails with NameError on every
call, or - when the subclass module has another class of that name - silently converts to the wrong class.
"""
import sys
import types
import warnings

warnings.simplefilter("ignore")


def module(name, source):
    mod = types.ModuleType(name)
    sys.modules[name] = mod
    exec(compile(source, name, "exec"), mod.__dict__)
    return mod


BASE = '''
from typing import List, Optional
from utype import Schema, Field

class Item(Schema):
    v: int = 0

class Base(Schema):
    x: {ref} = None
    many: List[{ref}] = None
'''
SUB = '''
from utype import Schema, Field
from {base} import Base

class Sub(Base):
    x = Field(required=False, description='same type, other field settings')
    many = Field(default_factory=list)
'''
SUB_SHADOW = '''
from utype import Schema, Field
from {base} import Base

class Item(Schema):          # an unrelated class that happens to have the same name
    w: str = 'unrelated'

class Sub(Base):
    x = Field(required=False)
    many = Field(default_factory=list)
'''


def outcome(fn):
    try:
        return repr(fn())
    except Exception as e:
        return f"{type(e).__name__}: {' '.join(str(e).split())[:100]}"


results = {}
for spelling, ref in (("direct", "Item"), ("string", "'Item'")):
    base = module(f"c17_base_{spelling}", BASE.format(ref=ref))
    sub = module(f"c17_sub_{spelling}", SUB.format(base=base.__name__))
    shadow = module(f"c17_shadow_{spelling}", SUB_SHADOW.format(base=base.__name__))
    data = dict(x={'v': '3'}, many=[{'v': '4'}])
    rows = []
    for attempt in (1, 2):
        rows.append(("Base", outcome(lambda: base.Base(**data))))
        rows.append(("Sub (other module)", outcome(lambda: sub.Sub(**data))))
        r = outcome(lambda: shadow.Sub(**data))
        try:
            inst = shadow.Sub(**data)
            r += f"   [type(x) comes from module {type(inst.x).__module__.rsplit('_', 1)[0]}]"
        except Exception:
            pass
        rows.append(("Sub (module with its own Item)", r))
    results[spelling] = rows
    for label, r in rows:
        print(f"{spelling:7} {label:32} -> {r}")

violated = results["direct"] != results["string"]
print("VIOLATION PRESENT" if violated else "no violation")
sys.exit(1 if violated else 0)
