"""
C17 finding 1: a function defined inside another function (local scope) that names a module-level class
defined LATER never resolves the name in its *args type, its return type or its generator yield/send/return
types. Parameters are fine; the same function at module level is fine; the same local function created
after the class exists is fine.
"""
import sys
import warnings
from typing import Iterator, List, Tuple

import utype
from utype import Schema

warnings.simplefilter("ignore")


def make():
    @utype.parse
    def ret(x: 'Item' = None) -> 'Item':
        return x

    @utype.parse
    def ret_list(x=None) -> List['Item']:
        return [x]

    @utype.parse
    def var_args(*items: 'Item') -> tuple:
        return items

    @utype.parse
    def gen(x=None) -> Iterator['Item']:
        yield x

    return ret, ret_list, var_args, gen


# module level twins (the "equivalent declaration", only not local)
@utype.parse
def g_ret(x: 'Item' = None) -> 'Item':
    return x


@utype.parse
def g_ret_list(x=None) -> List['Item']:
    return [x]


@utype.parse
def g_var_args(*items: 'Item') -> tuple:
    return items


@utype.parse
def g_gen(x=None) -> Iterator['Item']:
    yield x


early = make()     # created BEFORE Item exists


class Item(Schema):
    v: int = 0


late = make()      # created AFTER Item exists: every name resolves at declaration

calls = [
    ("-> 'Item'", lambda fs: fs[0]({'v': '3'})),
    ("-> List['Item']", lambda fs: fs[1]({'v': '3'})),
    ("*items: 'Item'", lambda fs: fs[2]({'v': '3'}, {'v': '4'})),
    ("-> Iterator['Item'] (generator)", lambda fs: list(fs[3]({'v': '3'}))),
]


def outcome(fn, fs):
    try:
        return repr(fn(fs))
    except Exception as e:
        return f"{type(e).__name__}: {str(e)[:110]}"


violated = False
for label, fn in calls:
    for attempt in (1, 2):      # also after the first call
        expected = outcome(fn, (g_ret, g_ret_list, g_var_args, g_gen))
        after = outcome(fn, late)
        before = outcome(fn, early)
        ok = expected == after == before
        print(f"{label:34} call#{attempt}")
        print(f"    module-level function       : {expected}")
        print(f"    local, defined after Item   : {after}")
        print(f"    local, defined before Item  : {before}")
        if not ok:
            violated = True

print("VIOLATION PRESENT" if violated else "no violation")
sys.exit(1 if violated else 0)
