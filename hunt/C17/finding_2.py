"""
C17 finding 2: a string reference nested in a type that utype builds itself, before any parser sees it
(types.Array['Item'], types.Object[str, 'Item'], a custom Array subclass, `SomeRule | List['Item']`,
`SomeRule ^ List['Item']`), is never registered and therefore never resolved: every parse fails with
"ForwardRef('Item') not evaluated", on the first call and on every later one, whether Item is defined
before or after the class that names it. The direct spelling works.
"""
import sys
import warnings
from typing import Dict, List

import utype
from utype import Schema, types

warnings.simplefilter("ignore")


class Item(Schema):     # defined FIRST: not even an order problem
    v: int = 0


class UniqueTuple(types.Array):
    __origin__ = tuple
    unique_items = True


class Direct(Schema):
    a: types.Array[Item] = None
    o: types.Object[str, Item] = None
    t: UniqueTuple[Item, ...] = None
    u: types.NegativeInt | List[Item] = None
    x: types.NegativeInt ^ List[Item] = None      # the spelling of tests/test_cls.py::test_forward_ref
    d: types.NegativeInt | Dict[str, Item] = None


class Quoted(Schema):
    a: types.Array['Item'] = None
    o: types.Object[str, 'Item'] = None
    t: UniqueTuple['Item', ...] = None
    u: types.NegativeInt | List['Item'] = None
    x: types.NegativeInt ^ List['Item'] = None
    d: types.NegativeInt | Dict[str, 'Item'] = None


class QuotedBefore(Schema):     # names a class defined later
    a: types.Array['Late'] = None
    u: types.NegativeInt | List['Late'] = None


class Late(Schema):
    v: int = 0


@utype.parse
def f_direct(a: types.Array[Item] = None) -> types.Array[Item]:
    return a


@utype.parse
def f_quoted(a: types.Array['Item'] = None) -> types.Array['Item']:
    return a


def outcome(fn):
    try:
        return repr(fn())
    except Exception as e:
        return f"{type(e).__name__}: {' '.join(str(e).split())[:100]}"


inputs = {
    'a': [{'v': '1'}],
    'o': {'k': {'v': '1'}},
    't': [{'v': '1'}, {'v': '2'}],
    'u': [{'v': '1'}],
    'x': [{'v': '1'}],
    'd': {'k': {'v': '1'}},
}
violated = False
for attempt in (1, 2):
    for key, value in inputs.items():
        d = outcome(lambda: Direct(**{key: value}))
        q = outcome(lambda: Quoted(**{key: value}))
        print(f"call#{attempt} field {key}: direct -> {d}\n{'':16} quoted -> {q}")
        if d != q.replace('Quoted(', 'Direct('):
            violated = True
    for key in ('a', 'u'):
        q = outcome(lambda: QuotedBefore(**{key: [{'v': '1'}]}))
        print(f"call#{attempt} field {key}: quoted, class defined later -> {q}")
        if 'Late(v=1)' not in q:
            violated = True
    d = outcome(lambda: f_direct([{'v': '1'}]))
    q = outcome(lambda: f_quoted([{'v': '1'}]))
    print(f"call#{attempt} function: direct -> {d}\n{'':16} quoted -> {q}")
    if d != q:
        violated = True

print("VIOLATION PRESENT" if violated else "no violation")
sys.exit(1 if violated else 0)
