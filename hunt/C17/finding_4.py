"""
C17 finding 4: late references of a data class are resolved only inside parser.__call__ (the generated
__init__). Attribute / item assignment and update() convert through field.parse_value directly, so on a
class whose own parser was never called - a custom __init__ (documented in guide/cls.md), or
@utype.dataclass(no_parse=True) - a field that names a later-defined class can never be assigned:
"ForwardRef('Item') not evaluated", for ever. With a direct reference the assignment converts.
"""
import sys
import warnings
from typing import List, Optional

import utype
from utype import Schema

warnings.simplefilter("ignore")


# ---- string references, classes defined before Item -------------------------------------------------
@utype.dataclass(set_class_properties=True)
class Order:
    item: 'Item' = None
    items: List['Item'] = None

    def __init__(self, item: 'Item' = None):
        # parsed by the function parser of __init__ (that one resolves 'Item' fine)
        if item is not None:
            self.item = item      # goes through the property setter of the class parser


@utype.dataclass(no_parse=True, set_class_properties=True)
class Raw:
    item: 'Item' = None


class Doc(Schema):
    item: Optional['Item'] = None

    def __init__(self, title: str = ''):
        self.title = title


class Item(Schema):
    v: int = 0


# ---- the same declarations with direct references ---------------------------------------------------
@utype.dataclass(set_class_properties=True)
class OrderD:
    item: Item = None
    items: List[Item] = None

    def __init__(self, item: Item = None):
        if item is not None:
            self.item = item


@utype.dataclass(no_parse=True, set_class_properties=True)
class RawD:
    item: Item = None


class DocD(Schema):
    item: Optional[Item] = None

    def __init__(self, title: str = ''):
        self.title = title


def outcome(fn):
    try:
        return repr(fn())
    except Exception as e:
        return f"{type(e).__name__}: {' '.join(str(e).split())[:100]}"


def init_order(cls):
    return cls(item={'v': '1'}).item


def set_items(cls):
    o = cls()
    o.items = [{'v': '2'}]
    return o.items


def set_raw(cls):
    r = cls()
    r.item = {'v': '3'}
    return r.item


def set_doc_attr(cls):
    d = cls()
    d.item = {'v': '4'}
    return d.item


def set_doc_item(cls):
    d = cls()
    d['item'] = {'v': '5'}
    return d['item']


def update_doc(cls):
    d = cls()
    d.update(item={'v': '6'})
    return d['item']


checks = [
    ("custom __init__ assigns self.item", init_order, OrderD, Order),
    ("obj.items = [...]", set_items, OrderD, Order),
    ("no_parse dataclass, obj.item = {...}", set_raw, RawD, Raw),
    ("Schema, custom __init__, obj.item = {...}", set_doc_attr, DocD, Doc),
    ("Schema, custom __init__, obj['item'] = {...}", set_doc_item, DocD, Doc),
    ("Schema, custom __init__, obj.update(...)", update_doc, DocD, Doc),
]
violated = False
for attempt in (1, 2):
    for label, fn, direct_cls, string_cls in checks:
        d = outcome(lambda: fn(direct_cls))
        s = outcome(lambda: fn(string_cls))
        print(f"call#{attempt} {label:46} direct -> {d}\n{'':53} string -> {s}")
        if d != s:
            violated = True

print("VIOLATION PRESENT" if violated else "no violation")
sys.exit(1 if violated else 0)
