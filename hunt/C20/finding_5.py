"""
C20 finding 5: one ForwardRef object can sit in the pending table of SEVERAL parsers (each with its own
lock): typing caches Final['Name'] process-wide, and field generation takes the ForwardRef out of Final[...]
without making a private copy (the copy is only made for Optional / List / Union ... arguments).
Classes created by a factory function are "local", so after resolving, their parser resets the
evaluated mark of the reference (base.py "ForwardRef in local vars is not cachable") -- on the object
another thread is resolving for ITS class right now.  That thread then leaves its reference unresolved and
its first call fails with ParseError "ForwardRef: ForwardRef('Product') not evaluated".
The two threads do not even use the same class.

run:  PYTHONPATH=<tree> python finding_5.py        exit 1 = violation present, 0 = absent
"""
# ---- tiny deterministic scheduler (line-level breakpoints via sys.settrace) -------------------
import sys, threading, traceback, os, linecache


def find_line(module, func_name, text, occurrence=1):
    """line number of the `occurrence`-th source line containing `text` inside function `func_name`
    of `module` (located by text so that the script does not depend on exact line numbers)"""
    import ast
    path = module.__file__
    src = open(path).read()
    lines = src.splitlines()
    for node in ast.walk(ast.parse(src)):
        if isinstance(node, (ast.FunctionDef, ast.AsyncFunctionDef)) and node.name == func_name:
            n = 0
            for no in range(node.lineno, node.end_lineno + 1):
                if text in lines[no - 1]:
                    n += 1
                    if n == occurrence:
                        return path, no
    return path, None


class _T:
    def __init__(self, name, fn, bps):
        self.name, self.fn, self.bps = name, fn, list(bps)
        self.go = threading.Semaphore(0)
        self.stopped = threading.Event()
        self.done = self.free = False
        self.result = None
        self.thread = threading.Thread(target=self.run, daemon=True)

    def tracer(self, frame, event, arg):
        if self.free or not self.bps:
            return None
        if not any(frame.f_code.co_filename == b[0] for b in self.bps):
            return None
        return self.local

    def local(self, frame, event, arg):
        if event == 'line' and not self.free and self.bps:
            path, no, co_name = self.bps[0]
            if frame.f_lineno == no and frame.f_code.co_filename == path and \
                    (co_name is None or frame.f_code.co_name == co_name):
                self.bps.pop(0)
                self.stopped.set()
                self.go.acquire()
        return self.local

    def run(self):
        self.go.acquire()
        sys.settrace(self.tracer)
        try:
            self.result = ('ok', self.fn())
        except BaseException as e:
            self.result = ('err', e)
        finally:
            sys.settrace(None)
            self.done = True
            self.stopped.set()


def run_schedule(threads, schedule, block_timeout=2.0):
    """threads: {name: (callable, [(path, lineno, code_name or None), ...])}
    schedule: names; each step lets that thread run up to its next breakpoint (or its end).
    A thread that does not get there within block_timeout (it waits for a lock) is left waiting."""
    ts = {n: _T(n, f, b) for n, (f, b) in threads.items()}
    for t in ts.values():
        t.thread.start()
    trace = []
    for n in schedule:
        t = ts[n]
        if t.done:
            trace.append(n + ':finished-earlier')
            continue
        t.stopped.clear()
        t.go.release()
        if not t.stopped.wait(block_timeout):
            trace.append(n + ':BLOCKED(waits)')
        else:
            trace.append(n + (':finished' if t.done else ':paused'))
    for t in ts.values():
        t.free = True
        for _ in range(10):
            t.go.release()
    for t in ts.values():
        t.thread.join(30)
    return {n: t.result for n, t in ts.items()}, trace
# -----------------------------------------------------------------------------------------------

import utype
from utype.types import Final
import utype.parser.base as ubase

violations = []


def make():
    # e.g. a per-tenant / per-request class factory
    class Order(utype.Schema):
        item: Final['Product']
    return Order


Order1, Order2, Order3 = make(), make(), make()


class Product(utype.Schema):
    sku: int


refs = [list(c.__parser__.forward_refs.values())[0][0] for c in (Order1, Order2)] \
    if Order1.__parser__.forward_refs and Order2.__parser__.forward_refs else []
print('the two classes hold the same ForwardRef object:', bool(refs) and refs[0] is refs[1])
print('alone    :', Order3(item={'sku': '7'}))

path, no_eval = find_line(ubase, '_resolve_forward_refs', 'if ref.__forward_evaluated__:')
path, no_clear = find_line(ubase, '_resolve_forward_refs', 'for ref in clear_refs:')
if no_eval is None or no_clear is None:
    print('deterministic schedule not possible: lines not found in BaseParser._resolve_forward_refs')
else:
    # A (Order1): first call, resolved everything, preempted just before it resets the evaluated marks
    # B (Order2): first call, has evaluated the (shared) reference, preempted before it tests the mark
    # A: finishes (resets the mark);  B: goes on
    res, trace = run_schedule(
        {'A': (lambda: Order1(item={'sku': '7'}), [(path, no_clear, '_resolve_forward_refs')]),
         'B': (lambda: Order2(item={'sku': '7'}), [(path, no_eval, '_resolve_forward_refs')])},
        ['A', 'B', 'A', 'B'])
    print('schedule :', trace)
    for n in 'AB':
        r = res[n]
        print('thread %s :' % n, r)
        if r is None or r[0] != 'ok' or type(r[1].item) is not Product or r[1].item.sku != 7:
            violations.append('thread %s got %r' % (n, r))
    try:
        print('later    :', Order2(item={'sku': '7'}))
    except Exception as e:
        print('later    :', repr(e))

print('VIOLATION:' if violations else 'no violation', violations)
sys.exit(1 if violations else 0)
