"""
C20 finding 3: BaseParser._resolve_forward_refs() pops the last pending reference from self.forward_refs
BEFORE the fields are switched over to the resolved types, and the lock-free fast path of
resolve_forward_refs() ("if not self.forward_refs: return False") takes the empty table as "fully resolved".
A second thread that arrives in that window parses with the half-initialised field types:
  (a) a Union of two late-defined data classes converts an instance of the second class into the first
      class (wrong result, one preemption);
  (b) a class local to a function fails with ParseError "ForwardRef: ... not evaluated" because the first
      thread clears the evaluated marks of the references the second thread is still using (two preemptions).

run:  PYTHONPATH=<tree> python finding_3.py        exit 1 = violation present, 0 = absent
"""
# ---- tiny deterministic scheduler (line-level breakpoints via sys.settrace) -------------------
import sys, threading, traceback, os, linecache


def find_line(module, func_name, text, occurrence=1):
    """line number of the `occurrence`-th source line containing `text` inside function `func_name`
    of `module` (located by text so that the script does not depend on exact line numbers)"""
    import ast
    path = module.__file__
    src = open(path).read()
    lines = src.splitlines()
    for node in ast.walk(ast.parse(src)):
        if isinstance(node, (ast.FunctionDef, ast.AsyncFunctionDef)) and node.name == func_name:
            n = 0
            for no in range(node.lineno, node.end_lineno + 1):
                if text in lines[no - 1]:
                    n += 1
                    if n == occurrence:
                        return path, no
    return path, None


class _T:
    def __init__(self, name, fn, bps):
        self.name, self.fn, self.bps = name, fn, list(bps)
        self.go = threading.Semaphore(0)
        self.stopped = threading.Event()
        self.done = self.free = False
        self.result = None
        self.thread = threading.Thread(target=self.run, daemon=True)

    def tracer(self, frame, event, arg):
        if self.free or not self.bps:
            return None
        if not any(frame.f_code.co_filename == b[0] for b in self.bps):
            return None
        return self.local

    def local(self, frame, event, arg):
        if event == 'line' and not self.free and self.bps:
            path, no, co_name = self.bps[0]
            if frame.f_lineno == no and frame.f_code.co_filename == path and \
                    (co_name is None or frame.f_code.co_name == co_name):
                self.bps.pop(0)
                self.stopped.set()
                self.go.acquire()
        return self.local

    def run(self):
        self.go.acquire()
        sys.settrace(self.tracer)
        try:
            self.result = ('ok', self.fn())
        except BaseException as e:
            self.result = ('err', e)
        finally:
            sys.settrace(None)
            self.done = True
            self.stopped.set()


def run_schedule(threads, schedule, block_timeout=2.0):
    """threads: {name: (callable, [(path, lineno, code_name or None), ...])}
    schedule: names; each step lets that thread run up to its next breakpoint (or its end).
    A thread that does not get there within block_timeout (it waits for a lock) is left waiting."""
    ts = {n: _T(n, f, b) for n, (f, b) in threads.items()}
    for t in ts.values():
        t.thread.start()
    trace = []
    for n in schedule:
        t = ts[n]
        if t.done:
            trace.append(n + ':finished-earlier')
            continue
        t.stopped.clear()
        t.go.release()
        if not t.stopped.wait(block_timeout):
            trace.append(n + ':BLOCKED(waits)')
        else:
            trace.append(n + (':finished' if t.done else ':paused'))
    for t in ts.values():
        t.free = True
        for _ in range(10):
            t.go.release()
    for t in ts.values():
        t.thread.join(30)
    return {n: t.result for n, t in ts.items()}, trace
# -----------------------------------------------------------------------------------------------

import utype
from typing import Union
import utype.parser.base as ubase
import utype.parser.field as ufield

violations = []
path, no = find_line(ubase, '_resolve_forward_refs', 'if resolved:')
fpath, fno = find_line(ufield, 'parse_value', 'if self.discriminator_map and value is not None')
if no is None:
    # layout changed: fall back to the line of the public method that follows the resolution
    print('deterministic schedule not possible: "if resolved:" not found in BaseParser._resolve_forward_refs')


# ---------------------------------------------------------------------------------------------- (a)
class Holder(utype.Schema):
    u: Union['Cat', 'Dog']


class Holder2(utype.Schema):       # the same declaration, used by one thread only
    u: Union['Cat', 'Dog']


class Cat(utype.Schema):
    name: str


class Dog(utype.Schema):
    name: str
    tricks: int = 0


dog = Dog(name='rex', tricks=3)
expected = Holder2(u=dog)
print('(a) alone    :', expected, '| u is the given Dog instance:', expected.u is dog)


def use():
    return Holder(u=dog)


if no is not None:
    res, trace = run_schedule({'A': (use, [(path, no, '_resolve_forward_refs')]), 'B': (use, [])},
                              ['A', 'B', 'A'])
    print('(a) schedule :', trace)
    for n in 'AB':
        r = res[n]
        print('(a) thread %s :' % n, r)
        if r is None or r[0] != 'ok' or type(r[1].u) is not Dog or dict(r[1].u) != dict(dog):
            violations.append('(a) thread %s got %r instead of %r' % (n, r, expected))
    print('(a) later    :', use())


# ---------------------------------------------------------------------------------------------- (b)
def make():
    class Order(utype.Schema):       # a class local to a function, naming a module-level class defined below
        item: 'Product'
    return Order


Order = make()
Order2 = make()


class Product(utype.Schema):
    sku: int


def use_b():
    return Order(item={'sku': '7'})


print('(b) alone    :', Order2(item={'sku': '7'}))
if no is not None and fno is not None:
    # A: first call, preempted after the last reference was popped;  B: runs into parse_value of 'item'
    # (it has read field.type);  A: finishes (clears the references);  B: goes on.
    res, trace = run_schedule(
        {'A': (use_b, [(path, no, '_resolve_forward_refs')]),
         'B': (use_b, [(fpath, fno, 'parse_value')])},
        ['A', 'B', 'A', 'B'])
    print('(b) schedule :', trace)
    for n in 'AB':
        r = res[n]
        print('(b) thread %s :' % n, r)
        if r is None or r[0] != 'ok' or type(r[1].item) is not Product or r[1].item.sku != 7:
            violations.append('(b) thread %s got %r' % (n, r))
    print('(b) later    :', use_b())

print('VIOLATION:' if violations else 'no violation', violations)
sys.exit(1 if violations else 0)
