"""
C20 finding 1: a conversion that runs while another thread calls register_transformer() sees an EMPTY
converter registry (list.sort() empties the list while its Python key function runs) and fails with
TypeMismatchError ("type ... is unrecognized") -- or silently returns the input unconverted.
Two registrations at the same time: one raises ValueError('list modified during sort') and the other one,
which returned normally, is dropped from the registry for good.

run:  PYTHONPATH=<tree> python finding_1.py        exit 1 = violation present, 0 = absent
"""
# ---- tiny deterministic scheduler (line-level breakpoints via sys.settrace) -------------------
import sys, threading, traceback, os, linecache


def find_line(module, func_name, text, occurrence=1):
    """line number of the `occurrence`-th source line containing `text` inside function `func_name`
    of `module` (located by text so that the script does not depend on exact line numbers)"""
    import ast
    path = module.__file__
    src = open(path).read()
    lines = src.splitlines()
    for node in ast.walk(ast.parse(src)):
        if isinstance(node, (ast.FunctionDef, ast.AsyncFunctionDef)) and node.name == func_name:
            n = 0
            for no in range(node.lineno, node.end_lineno + 1):
                if text in lines[no - 1]:
                    n += 1
                    if n == occurrence:
                        return path, no
    return path, None


class _T:
    def __init__(self, name, fn, bps):
        self.name, self.fn, self.bps = name, fn, list(bps)
        self.go = threading.Semaphore(0)
        self.stopped = threading.Event()
        self.done = self.free = False
        self.result = None
        self.thread = threading.Thread(target=self.run, daemon=True)

    def tracer(self, frame, event, arg):
        if self.free or not self.bps:
            return None
        if not any(frame.f_code.co_filename == b[0] for b in self.bps):
            return None
        return self.local

    def local(self, frame, event, arg):
        if event == 'line' and not self.free and self.bps:
            path, no, co_name = self.bps[0]
            if frame.f_lineno == no and frame.f_code.co_filename == path and \
                    (co_name is None or frame.f_code.co_name == co_name):
                self.bps.pop(0)
                self.stopped.set()
                self.go.acquire()
        return self.local

    def run(self):
        self.go.acquire()
        sys.settrace(self.tracer)
        try:
            self.result = ('ok', self.fn())
        except BaseException as e:
            self.result = ('err', e)
        finally:
            sys.settrace(None)
            self.done = True
            self.stopped.set()


def run_schedule(threads, schedule, block_timeout=2.0):
    """threads: {name: (callable, [(path, lineno, code_name or None), ...])}
    schedule: names; each step lets that thread run up to its next breakpoint (or its end).
    A thread that does not get there within block_timeout (it waits for a lock) is left waiting."""
    ts = {n: _T(n, f, b) for n, (f, b) in threads.items()}
    for t in ts.values():
        t.thread.start()
    trace = []
    for n in schedule:
        t = ts[n]
        if t.done:
            trace.append(n + ':finished-earlier')
            continue
        t.stopped.clear()
        t.go.release()
        if not t.stopped.wait(block_timeout):
            trace.append(n + ':BLOCKED(waits)')
        else:
            trace.append(n + (':finished' if t.done else ':paused'))
    for t in ts.values():
        t.free = True
        for _ in range(10):
            t.go.release()
    for t in ts.values():
        t.thread.join(30)
    return {n: t.result for n, t in ts.items()}, trace
# -----------------------------------------------------------------------------------------------

import utype
from utype import type_transform
from decimal import Decimal
import utype.utils.base as ubase

violations = []


class Mine:
    def __init__(self, v):
        self.v = v


def register():
    @utype.register_transformer(Mine)
    def to_mine(trans, data, t):
        return t(data)
    return 'registered'


def convert():
    return type_transform('1.5', Decimal)


print('alone       :', repr(type_transform('2.5', Decimal)))
register()   # (a registration clears the resolve cache: Decimal is looked up in the registry again)

# --- 1. deterministic schedule: A is preempted inside the sort of register(), B converts -----------
path, no = find_line(ubase, 'decorator', '_registry.sort(')
if no is None:
    print('deterministic part skipped: the sort line was not found in TypeRegistry.register')
else:
    res, trace = run_schedule(
        {'A': (register, [(path, no, '<lambda>')]), 'B': (convert, [])},
        ['A', 'B', 'A'])
    print('schedule    :', trace)
    print('A register  :', res['A'])
    print('B convert   :', res['B'])
    b = res['B']
    if b is None or b[0] != 'ok' or type(b[1]) is not Decimal or b[1] != Decimal('1.5'):
        violations.append('deterministic: B got %r' % (b,))

# --- 1b. two registrations at the same time: one raises ValueError, the other one is silently lost ---
class Other:
    def __init__(self, v):
        self.v = v


def register_other():
    @utype.register_transformer(Other)
    def to_other(trans, data, t):
        return t(('converted', data))
    return 'registered Other'


if no is not None:
    res, trace = run_schedule(
        {'A': (register, [(path, no, '<lambda>')]), 'B': (register_other, [])},
        ['A', 'B', 'A'])
    print('schedule    :', trace)
    print('A register  :', res['A'])
    print('B register  :', res['B'])
    if res['A'] is None or res['A'][0] != 'ok':
        violations.append('two registrations: A failed with %r' % (res['A'],))
    try:
        later = type_transform('5', Other)
        print('later Other :', later.v)
    except Exception as e:
        print('later Other :', repr(e))
        violations.append("two registrations: B's converter was lost: %r" % e)

# --- 2. free running threads (no tracing) -----------------------------------------------------------
sys.setswitchinterval(1e-6)
stop = False
errors, calls = [], [0]


def reg_loop():
    for _ in range(300):
        register()


def conv_loop():
    while not stop:
        calls[0] += 1
        try:
            v = type_transform('1.5', Decimal)
            if type(v) is not Decimal:
                errors.append(repr(v))
        except Exception as e:
            errors.append(repr(e))


tb = threading.Thread(target=conv_loop)
tb.start()
ta = threading.Thread(target=reg_loop)
ta.start()
ta.join()
stop = True
tb.join()
print('free threads: %d conversions during 300 registrations, %d wrong; e.g. %s'
      % (calls[0], len(errors), errors[:1]))
if errors:
    violations.append('free threads: %d wrong conversions' % len(errors))

print('VIOLATION:' if violations else 'no violation', violations)
sys.exit(1 if violations else 0)
