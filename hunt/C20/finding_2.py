"""
C20 finding 2: the first concurrent calls of a decorated generator function whose return annotation is a
late string ('Iterator[Item]', Item defined further down): FunctionParser.resolve_forward_refs() finishes
the function-level part of the resolution (return_type, generator yield / send / return types) AFTER the
per-parser lock is released and the table of pending references is already empty, so a second thread skips
the resolution and runs with generator_yield_type still None: it yields the raw, unconverted items.

run:  PYTHONPATH=<tree> python finding_2.py        exit 1 = violation present, 0 = absent
"""
# ---- tiny deterministic scheduler (line-level breakpoints via sys.settrace) -------------------
import sys, threading, traceback, os, linecache


def find_line(module, func_name, text, occurrence=1):
    """line number of the `occurrence`-th source line containing `text` inside function `func_name`
    of `module` (located by text so that the script does not depend on exact line numbers)"""
    import ast
    path = module.__file__
    src = open(path).read()
    lines = src.splitlines()
    for node in ast.walk(ast.parse(src)):
        if isinstance(node, (ast.FunctionDef, ast.AsyncFunctionDef)) and node.name == func_name:
            n = 0
            for no in range(node.lineno, node.end_lineno + 1):
                if text in lines[no - 1]:
                    n += 1
                    if n == occurrence:
                        return path, no
    return path, None


class _T:
    def __init__(self, name, fn, bps):
        self.name, self.fn, self.bps = name, fn, list(bps)
        self.go = threading.Semaphore(0)
        self.stopped = threading.Event()
        self.done = self.free = False
        self.result = None
        self.thread = threading.Thread(target=self.run, daemon=True)

    def tracer(self, frame, event, arg):
        if self.free or not self.bps:
            return None
        if not any(frame.f_code.co_filename == b[0] for b in self.bps):
            return None
        return self.local

    def local(self, frame, event, arg):
        if event == 'line' and not self.free and self.bps:
            path, no, co_name = self.bps[0]
            if frame.f_lineno == no and frame.f_code.co_filename == path and \
                    (co_name is None or frame.f_code.co_name == co_name):
                self.bps.pop(0)
                self.stopped.set()
                self.go.acquire()
        return self.local

    def run(self):
        self.go.acquire()
        sys.settrace(self.tracer)
        try:
            self.result = ('ok', self.fn())
        except BaseException as e:
            self.result = ('err', e)
        finally:
            sys.settrace(None)
            self.done = True
            self.stopped.set()


def run_schedule(threads, schedule, block_timeout=2.0):
    """threads: {name: (callable, [(path, lineno, code_name or None), ...])}
    schedule: names; each step lets that thread run up to its next breakpoint (or its end).
    A thread that does not get there within block_timeout (it waits for a lock) is left waiting."""
    ts = {n: _T(n, f, b) for n, (f, b) in threads.items()}
    for t in ts.values():
        t.thread.start()
    trace = []
    for n in schedule:
        t = ts[n]
        if t.done:
            trace.append(n + ':finished-earlier')
            continue
        t.stopped.clear()
        t.go.release()
        if not t.stopped.wait(block_timeout):
            trace.append(n + ':BLOCKED(waits)')
        else:
            trace.append(n + (':finished' if t.done else ':paused'))
    for t in ts.values():
        t.free = True
        for _ in range(10):
            t.go.release()
    for t in ts.values():
        t.thread.join(30)
    return {n: t.result for n, t in ts.items()}, trace
# -----------------------------------------------------------------------------------------------

import utype
from typing import Iterator
import utype.parser.func as ufunc

violations = []


@utype.parse
def gen(n: int) -> 'Iterator[Item]':
    for i in range(n):
        yield {'x': str(i)}


@utype.parse
def gen_alone(n: int) -> 'Iterator[Item]':
    for i in range(n):
        yield {'x': str(i)}


class Item(utype.Schema):
    x: int


def use():
    return list(gen('2'))


expected = list(gen_alone('2'))
print('alone    :', expected)

path, no = find_line(ufunc, 'resolve_forward_refs', 'if resolved:')
if no is None:
    print('deterministic part skipped: line not found in FunctionParser.resolve_forward_refs')
else:
    # A makes the first call and is preempted right after the base-class resolution returned
    # (the lock is released, forward_refs is empty); B makes its call; then A goes on.
    res, trace = run_schedule({'A': (use, [(path, no, 'resolve_forward_refs')]), 'B': (use, [])},
                              ['A', 'B', 'A'])
    print('schedule :', trace)
    print('thread A :', res['A'])
    print('thread B :', res['B'])
    for n in 'AB':
        r = res[n]
        if r is None or r[0] != 'ok' or r[1] != expected or not all(isinstance(i, Item) for i in r[1]):
            violations.append('thread %s got %r' % (n, r))
    print('later    :', use())

print('VIOLATION:' if violations else 'no violation', violations)
sys.exit(1 if violations else 0)
