"""
C20 finding 4: TypeRegistry.resolve() fills its cache with a converter it read from the registry earlier;
a register_transformer() that completes in between (it clears the cache) is lost: the stale converter is
written back into the cache AFTER the clear, and every later conversion of that type -- long after both
threads have finished -- still uses the replaced converter.  No sequential order of the two operations
(lookup, registration) leaves the registry in that state.

run:  PYTHONPATH=<tree> python finding_4.py        exit 1 = violation present, 0 = absent
"""
# ---- tiny deterministic scheduler (line-level breakpoints via sys.settrace) -------------------
import sys, threading, traceback, os, linecache


def find_line(module, func_name, text, occurrence=1):
    """line number of the `occurrence`-th source line containing `text` inside function `func_name`
    of `module` (located by text so that the script does not depend on exact line numbers)"""
    import ast
    path = module.__file__
    src = open(path).read()
    lines = src.splitlines()
    for node in ast.walk(ast.parse(src)):
        if isinstance(node, (ast.FunctionDef, ast.AsyncFunctionDef)) and node.name == func_name:
            n = 0
            for no in range(node.lineno, node.end_lineno + 1):
                if text in lines[no - 1]:
                    n += 1
                    if n == occurrence:
                        return path, no
    return path, None


class _T:
    def __init__(self, name, fn, bps):
        self.name, self.fn, self.bps = name, fn, list(bps)
        self.go = threading.Semaphore(0)
        self.stopped = threading.Event()
        self.done = self.free = False
        self.result = None
        self.thread = threading.Thread(target=self.run, daemon=True)

    def tracer(self, frame, event, arg):
        if self.free or not self.bps:
            return None
        if not any(frame.f_code.co_filename == b[0] for b in self.bps):
            return None
        return self.local

    def local(self, frame, event, arg):
        if event == 'line' and not self.free and self.bps:
            path, no, co_name = self.bps[0]
            if frame.f_lineno == no and frame.f_code.co_filename == path and \
                    (co_name is None or frame.f_code.co_name == co_name):
                self.bps.pop(0)
                self.stopped.set()
                self.go.acquire()
        return self.local

    def run(self):
        self.go.acquire()
        sys.settrace(self.tracer)
        try:
            self.result = ('ok', self.fn())
        except BaseException as e:
            self.result = ('err', e)
        finally:
            sys.settrace(None)
            self.done = True
            self.stopped.set()


def run_schedule(threads, schedule, block_timeout=2.0):
    """threads: {name: (callable, [(path, lineno, code_name or None), ...])}
    schedule: names; each step lets that thread run up to its next breakpoint (or its end).
    A thread that does not get there within block_timeout (it waits for a lock) is left waiting."""
    ts = {n: _T(n, f, b) for n, (f, b) in threads.items()}
    for t in ts.values():
        t.thread.start()
    trace = []
    for n in schedule:
        t = ts[n]
        if t.done:
            trace.append(n + ':finished-earlier')
            continue
        t.stopped.clear()
        t.go.release()
        if not t.stopped.wait(block_timeout):
            trace.append(n + ':BLOCKED(waits)')
        else:
            trace.append(n + (':finished' if t.done else ':paused'))
    for t in ts.values():
        t.free = True
        for _ in range(10):
            t.go.release()
    for t in ts.values():
        t.thread.join(30)
    return {n: t.result for n, t in ts.items()}, trace
# -----------------------------------------------------------------------------------------------

import utype
from utype import type_transform
import utype.utils.base as ubase

violations = []


class Money:
    def __init__(self, v):
        self.v = v

    def __repr__(self):
        return 'Money(%r)' % (self.v,)


class Money2(Money):
    pass


def register(cls, tag):
    @utype.register_transformer(cls, allow_subclasses=False)
    def conv(trans, data, t):
        return t((tag, data))
    return 'registered ' + tag


# sequential behaviour (pinned by the library: "a later registration must take effect for types
# that were already resolved"):
register(Money2, 'old')
type_transform('5', Money2)
register(Money2, 'new')
print('sequential : lookup, register(new), then', type_transform('5', Money2))

register(Money, 'old')


def convert():
    return type_transform('5', Money)


path, no = find_line(ubase, 'resolve', '_cache[t] = trans')
if no is None:
    print('deterministic part skipped: cache fill line not found in TypeRegistry.resolve')
else:
    # B: looks Money up, found the old converter, preempted before writing it into the cache
    # A: registers the new converter (clears the cache), completely
    # B: goes on
    res, trace = run_schedule(
        {'B': (convert, [(path, no, 'resolve')]), 'A': (lambda: register(Money, 'new'), [])},
        ['B', 'A', 'B'])
    print('schedule   :', trace)
    print('B convert  :', res['B'], ' (old or new are both fine for the racing call itself)')
    print('A register :', res['A'])
    later = [type_transform('5', Money) for _ in range(3)]
    print('later calls:', later)
    if any(m.v[0] != 'new' for m in later):
        violations.append('conversions made after both threads finished still use the replaced converter: %r' % later)

print('VIOLATION:' if violations else 'no violation', violations)
sys.exit(1 if violations else 0)
