"""C15 finding 3: minProperties is counted on the input keys, undeclared keys are then dropped from the output; maxProperties 0 is not enforced"""
import json
import sys
import warnings

warnings.simplefilter("ignore")

from utype import type_transform, Options
from utype.specs.json_schema.parser import JsonSchemaParser
from utype.utils.encode import JSONEncoder

STRICT = Options(no_explicit_cast=True, no_data_loss=True)


class StrictParser(JsonSchemaParser):
    # strict conversion also inside the generated Schema classes
    @staticmethod
    def object_options_cls(**kwargs):
        return Options(no_explicit_cast=True, no_data_loss=True, **kwargs)


def build(schema):
    return StrictParser(schema)()


def convert(schema, value):
    """build the type, convert the value strictly, return the result as plain JSON data"""
    out = type_transform(value, build(schema), options=STRICT)
    return json.loads(json.dumps(out, cls=JSONEncoder))


violations = 0


def try_build(schema, note=""):
    global violations
    try:
        build(schema)
    except BaseException as e:
        violations += 1
        print(f"BUILD FAILS  {json.dumps(schema)}  {note}\n      -> {type(e).__name__}: {e}")
        return False
    print(f"build ok     {json.dumps(schema)}")
    return True


def try_emit(schema, value, forbidden, why):
    """forbidden(out) -> True when the emitted JSON value is one the schema forbids"""
    global violations
    try:
        out = convert(schema, value)
    except BaseException as e:
        print(f"rejected     {json.dumps(schema)}  input {json.dumps(value)}  ({type(e).__name__})")
        return
    if forbidden(out):
        violations += 1
        print(f"VIOLATION    {json.dumps(schema)}\n      input {json.dumps(value)} -> output {json.dumps(out)}   [{why}]")
    else:
        print(f"ok           {json.dumps(schema)}  input {json.dumps(value)} -> {json.dumps(out)}")


def finish():
    print(f"\n{violations} violation(s)")
    sys.exit(1 if violations else 0)

try_emit({"type": "object", "properties": {"a": {"type": "integer"}}, "minProperties": 2}, {"a": 1, "b": 2},
         lambda o: len(o) < 2, "fewer than minProperties=2")
try_emit({"properties": {"a": {"type": "integer"}, "b": {"type": "integer"}}, "minProperties": 3},
         {"a": 1, "x": 2, "y": 3},
         lambda o: len(o) < 3, "fewer than minProperties=3")
try_emit({"type": "object", "properties": {"a": {"type": "integer"}}, "maxProperties": 0}, {"a": 1},
         lambda o: len(o) > 0, "more than maxProperties=0")

finish()
