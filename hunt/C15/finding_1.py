"""C15 finding 1: legal bound / length keyword combinations cannot be built (Rule's own sanity checks are stricter than JSON Schema)"""
import json
import sys
import warnings

warnings.simplefilter("ignore")

from utype import type_transform, Options
from utype.specs.json_schema.parser import JsonSchemaParser
from utype.utils.encode import JSONEncoder

STRICT = Options(no_explicit_cast=True, no_data_loss=True)


class StrictParser(JsonSchemaParser):
    # strict conversion also inside the generated Schema classes
    @staticmethod
    def object_options_cls(**kwargs):
        return Options(no_explicit_cast=True, no_data_loss=True, **kwargs)


def build(schema):
    return StrictParser(schema)()


def convert(schema, value):
    """build the type, convert the value strictly, return the result as plain JSON data"""
    out = type_transform(value, build(schema), options=STRICT)
    return json.loads(json.dumps(out, cls=JSONEncoder))


violations = 0


def try_build(schema, note=""):
    global violations
    try:
        build(schema)
    except BaseException as e:
        violations += 1
        print(f"BUILD FAILS  {json.dumps(schema)}  {note}\n      -> {type(e).__name__}: {e}")
        return False
    print(f"build ok     {json.dumps(schema)}")
    return True


def try_emit(schema, value, forbidden, why):
    """forbidden(out) -> True when the emitted JSON value is one the schema forbids"""
    global violations
    try:
        out = convert(schema, value)
    except BaseException as e:
        print(f"rejected     {json.dumps(schema)}  input {json.dumps(value)}  ({type(e).__name__})")
        return
    if forbidden(out):
        violations += 1
        print(f"VIOLATION    {json.dumps(schema)}\n      input {json.dumps(value)} -> output {json.dumps(out)}   [{why}]")
    else:
        print(f"ok           {json.dumps(schema)}  input {json.dumps(value)} -> {json.dumps(out)}")


def finish():
    print(f"\n{violations} violation(s)")
    sys.exit(1 if violations else 0)

# satisfiable, everyday schemas
try_build({"type": "integer", "minimum": 5, "maximum": 5}, "(exactly 5)")
try_build({"type": "number", "minimum": 0, "maximum": 0}, "(exactly 0)")
try_build({"type": "string", "maxLength": 0}, "(only the empty string)")
try_build({"type": "array", "maxItems": 0}, "(only the empty array)")
try_build({"type": "object", "maxProperties": 0}, "(only the empty object)")
try_build({"type": "integer", "minimum": 1, "exclusiveMinimum": 0}, "(both lower bounds are allowed together)")
try_build({"type": "object", "properties": {"a": {"type": "integer", "minimum": 5, "maximum": 5}}}, "(same, as a property)")
# legal schemas that happen to accept nothing: still have to build
try_build({"type": "integer", "minimum": 6, "maximum": 5})
try_build({"type": "integer", "exclusiveMinimum": 1, "exclusiveMaximum": 2})
try_build({"type": "string", "minLength": 3, "maxLength": 2})

finish()
