"""C15 finding 8: a keyword that applies to another instance type breaks the build, or overwrites the keyword that does apply"""
import json
import sys
import warnings

warnings.simplefilter("ignore")

from utype import type_transform, Options
from utype.specs.json_schema.parser import JsonSchemaParser
from utype.utils.encode import JSONEncoder

STRICT = Options(no_explicit_cast=True, no_data_loss=True)


class StrictParser(JsonSchemaParser):
    # strict conversion also inside the generated Schema classes
    @staticmethod
    def object_options_cls(**kwargs):
        return Options(no_explicit_cast=True, no_data_loss=True, **kwargs)


def build(schema):
    return StrictParser(schema)()


def convert(schema, value):
    """build the type, convert the value strictly, return the result as plain JSON data"""
    out = type_transform(value, build(schema), options=STRICT)
    return json.loads(json.dumps(out, cls=JSONEncoder))


violations = 0


def try_build(schema, note=""):
    global violations
    try:
        build(schema)
    except BaseException as e:
        violations += 1
        print(f"BUILD FAILS  {json.dumps(schema)}  {note}\n      -> {type(e).__name__}: {e}")
        return False
    print(f"build ok     {json.dumps(schema)}")
    return True


def try_emit(schema, value, forbidden, why):
    """forbidden(out) -> True when the emitted JSON value is one the schema forbids"""
    global violations
    try:
        out = convert(schema, value)
    except BaseException as e:
        print(f"rejected     {json.dumps(schema)}  input {json.dumps(value)}  ({type(e).__name__})")
        return
    if forbidden(out):
        violations += 1
        print(f"VIOLATION    {json.dumps(schema)}\n      input {json.dumps(value)} -> output {json.dumps(out)}   [{why}]")
    else:
        print(f"ok           {json.dumps(schema)}  input {json.dumps(value)} -> {json.dumps(out)}")


def finish():
    print(f"\n{violations} violation(s)")
    sys.exit(1 if violations else 0)

# JSON Schema: a keyword that does not apply to the instance's type is simply ignored
try_build({"type": "string", "minimum": 5})
try_build({"type": "boolean", "maximum": 1})
try_build({"minLength": 2, "minimum": 5}, "(no type: strings of length >= 2, numbers >= 5, anything else)")
try_build({"type": "string", "const": 5})
# maxLength / maxItems / maxProperties all land on the same Rule constraint: the last one written wins
try_emit({"type": "string", "maxLength": 2, "maxItems": 5}, "abcd",
         lambda o: len(o) > 2, "longer than maxLength 2")
try_emit({"type": "array", "minItems": 2, "minLength": 1}, [1],
         lambda o: len(o) < 2, "fewer than minItems 2")

finish()
