"""C15 finding 5: anyOf / oneOf / allOf next to 'type' (or const/enum) are ignored, and only one of several combinators is applied"""
import json
import sys
import warnings

warnings.simplefilter("ignore")

from utype import type_transform, Options
from utype.specs.json_schema.parser import JsonSchemaParser
from utype.utils.encode import JSONEncoder

STRICT = Options(no_explicit_cast=True, no_data_loss=True)


class StrictParser(JsonSchemaParser):
    # strict conversion also inside the generated Schema classes
    @staticmethod
    def object_options_cls(**kwargs):
        return Options(no_explicit_cast=True, no_data_loss=True, **kwargs)


def build(schema):
    return StrictParser(schema)()


def convert(schema, value):
    """build the type, convert the value strictly, return the result as plain JSON data"""
    out = type_transform(value, build(schema), options=STRICT)
    return json.loads(json.dumps(out, cls=JSONEncoder))


violations = 0


def try_build(schema, note=""):
    global violations
    try:
        build(schema)
    except BaseException as e:
        violations += 1
        print(f"BUILD FAILS  {json.dumps(schema)}  {note}\n      -> {type(e).__name__}: {e}")
        return False
    print(f"build ok     {json.dumps(schema)}")
    return True


def try_emit(schema, value, forbidden, why):
    """forbidden(out) -> True when the emitted JSON value is one the schema forbids"""
    global violations
    try:
        out = convert(schema, value)
    except BaseException as e:
        print(f"rejected     {json.dumps(schema)}  input {json.dumps(value)}  ({type(e).__name__})")
        return
    if forbidden(out):
        violations += 1
        print(f"VIOLATION    {json.dumps(schema)}\n      input {json.dumps(value)} -> output {json.dumps(out)}   [{why}]")
    else:
        print(f"ok           {json.dumps(schema)}  input {json.dumps(value)} -> {json.dumps(out)}")


def finish():
    print(f"\n{violations} violation(s)")
    sys.exit(1 if violations else 0)

try_emit({"type": "integer", "anyOf": [{"minimum": 5}, {"maximum": 0}]}, 3,
         lambda o: not (o >= 5 or o <= 0), "matches no anyOf branch")
try_emit({"type": "string", "allOf": [{"maxLength": 2}]}, "abcdef",
         lambda o: len(o) > 2, "violates allOf[0].maxLength")
try_emit({"type": "object", "properties": {"a": {}, "b": {}}, "anyOf": [{"required": ["a"]}, {"required": ["b"]}]}, {},
         lambda o: "a" not in o and "b" not in o, "matches no anyOf branch")
try_emit({"type": "integer", "oneOf": [{"minimum": 0}, {"maximum": 10}]}, 5,
         lambda o: o >= 0 and o <= 10, "matches both oneOf branches")
# no 'type' at all: two combinators, only the first one in the order anyOf, oneOf, allOf is used
try_emit({"anyOf": [{"type": "integer"}, {"type": "string"}], "allOf": [{"minimum": 5}]}, 3,
         lambda o: o < 5, "violates allOf[0].minimum")
try_emit({"allOf": [{"type": "integer"}], "oneOf": [{"minimum": 0}, {"maximum": 10}]}, 5,
         lambda o: o >= 0 and o <= 10, "matches both oneOf branches")

finish()
