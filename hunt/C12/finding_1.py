"""C12 finding 1: Options(no_data_loss=True) does not imply addition=False, so unknown keys
are silently dropped under no_data_loss (Schema constructor, __from__, runtime options,
@utype.dataclass, @utype.parse functions, item assignment)."""
import sys
import warnings
import utype
from utype import Schema, Options, exc

warnings.simplefilter("ignore")
bad = 0


def check(label, fn):
    global bad
    try:
        res = fn()
    except exc.ExceedError as e:
        print(f"ok   {label}: rejected ({type(e).__name__})")
    except Exception as e:  # any other rejection is fine for the property as well
        print(f"ok   {label}: rejected ({type(e).__name__}: {e})")
    else:
        bad += 1
        print(f"VIOLATION {label}: unknown key accepted and dropped -> {res!r}")


opt = Options(no_data_loss=True)
print("Options(no_data_loss=True).addition =", repr(opt.addition), "(property/anchor says: False)")
print("Options(no_data_loss=True, addition=None).addition =",
      repr(Options(no_data_loss=True, addition=None).addition))


class User(Schema):
    __options__ = Options(no_data_loss=True)
    name: str


class Plain(Schema):
    name: str


class ClsOpt(Schema):
    class __options__(Options):
        no_data_loss = True
    name: str


@utype.dataclass(options=Options(no_data_loss=True))
class DC:
    name: str


@utype.parse(options=Options(no_data_loss=True))
def func(name: str):
    return name


check("Schema(**data), class options", lambda: User(name="x", code="XYZ"))
check("Schema.__from__(dict), class options", lambda: User.__from__({"name": "x", "code": "XYZ"}))
check("Schema.__from__(dict, options=runtime no_data_loss)",
      lambda: Plain.__from__({"name": "x", "code": "XYZ"}, options=Options(no_data_loss=True)))
check("class-style Options subclass", lambda: ClsOpt(name="x", code="XYZ"))
check("@utype.dataclass", lambda: DC(name="x", code="XYZ"))
check("@utype.parse function keyword", lambda: func(name="x", code="XYZ"))

sys.exit(1 if bad else 0)
