"""C12 finding 8 (borderline): under no_data_loss a timed string becomes a date when its clock part
happens to be midnight, including strings that carry a UTC offset (the offset, i.e. which day it is
in UTC, is dropped).  A datetime object with the same content is rejected."""
import sys
from datetime import date, datetime, timezone, timedelta
from utype import type_transform, Options

NDL = Options(no_data_loss=True)
bad = 0
for value in ("2020-01-01 00:00:00", "2020-01-01T00:00:00+08:00", "2020-01-01 12:00:00 AM",
              datetime(2020, 1, 1), datetime(2020, 1, 1, tzinfo=timezone(timedelta(hours=8))),
              "2020-01-01 00:00:01"):
    try:
        got = type_transform(value, date, options=NDL)
    except Exception as e:
        print(f"ok   {value!r}: rejected ({type(e).__name__})")
        continue
    if isinstance(value, str):
        bad += 1
        print(f"VIOLATION timed string {value!r} -> {got!r} under no_data_loss")
sys.exit(1 if bad else 0)
