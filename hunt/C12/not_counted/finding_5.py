"""C12 finding 5: a data class that declares no_data_loss still collapses a multi-element list to
its first element when it is reached through the converter (type_transform / a field of another
class / List[Cls]), because transform_dataclass looks at the CALLER's options (cls.py:619-623) while
the rest of the conversion uses the class's own options.  Cls.__from__ with the same input is
rejected.  The same mismatch exists for no_explicit_cast (the list is unwrapped into the object)."""
import sys
import typing
from utype import Schema, Options, type_transform

bad = 0


class Strict(Schema):
    __options__ = Options(no_data_loss=True)
    a: int


class NoCast(Schema):
    __options__ = Options(no_explicit_cast=True)
    a: int


class Holder(Schema):
    one: Strict = None
    many: typing.List[Strict] = []
    nc: NoCast = None


two = [{"a": 1}, {"a": 2}]


def rejects(fn):
    try:
        fn()
    except Exception:
        return True
    return False


# the class really is under its own flags for everything else:
print("Strict.__from__(two-element list) rejected:", rejects(lambda: Strict.__from__(two)))
print("type_transform({'a': 1.5}, Strict) rejected:", rejects(lambda: type_transform({"a": 1.5}, Strict)))
print("NoCast.__from__([{'a': 1}]) rejected:", rejects(lambda: NoCast.__from__([{"a": 1}])))
print("type_transform({'a': '1'}, NoCast) rejected:", rejects(lambda: type_transform({"a": "1"}, NoCast)))


def attempt(label, fn, what):
    global bad
    try:
        r = fn()
    except Exception as e:
        print(f"ok   {label}: rejected ({type(e).__name__})")
    else:
        bad += 1
        print(f"VIOLATION {label}: {what} -> {r!r}")


attempt("type_transform(two-element list, Strict)", lambda: type_transform(two, Strict),
        "second element dropped although the class is under no_data_loss")
attempt("Holder(one=two-element list)", lambda: Holder(one=two),
        "second element dropped although the class is under no_data_loss")
attempt("Holder(many=[two-element list])", lambda: Holder(many=[two]),
        "second element dropped although the class is under no_data_loss")
attempt("type_transform([{'a': 1}], NoCast)", lambda: type_transform([{"a": 1}], NoCast),
        "array converted to object although the class is under no_explicit_cast")
sys.exit(1 if bad else 0)
