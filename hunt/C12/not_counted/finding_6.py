"""C12 finding 6: parametrised abstract iterables (typing.Iterable[T], Collection[T], Reversible[T],
and for text also Sequence[T]) iterate whatever they are given, under BOTH flags: a mapping becomes
the list of its keys (object -> array under no_explicit_cast, all values dropped under no_data_loss),
a str becomes the list of its characters (string -> array).  The concrete counterparts refuse:
List[str] rejects both under no_explicit_cast and Set[str] rejects the dict under no_data_loss
('set cannot pack ... dict item', transform.py:305-308)."""
import sys
import typing
from utype import Schema, Options, type_transform
from utype.parser.rule import Rule

STRICT = Options(no_explicit_cast=True, no_data_loss=True)
bad = 0
for ann in (typing.Iterable[str], typing.Collection[str], typing.Reversible[str], typing.Sequence[str],
            typing.List[str], typing.Set[str]):
    t = Rule.parse_annotation(ann)
    for value in ({"a": 1, "b": 2}, "a,b"):
        try:
            got = type_transform(value, t, options=STRICT)
        except Exception as e:
            print(f"ok   {ann} <- {value!r}: rejected ({type(e).__name__})")
            continue
        if isinstance(got, (list, set, tuple)) and not isinstance(value, (list, set, tuple)):
            bad += 1
            print(f"VIOLATION {ann} <- {value!r} under no_explicit_cast+no_data_loss -> {got!r}")
        else:
            print(f"ok   {ann} <- {value!r}: {got!r}")


class Post(Schema):
    __options__ = STRICT
    tags: typing.Iterable[str]


p = Post(tags={"x": 1, "y": 2})
print("Post(tags={'x': 1, 'y': 2}) ->", p)
sys.exit(1 if bad else 0)
