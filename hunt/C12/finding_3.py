"""C12 finding 3: Enum conversion looks a string up by member NAME first, but only when neither
flag is set; under no_explicit_cast / no_data_loss it looks up by VALUE.  When a string is the
name of one member and the value of another, the flags change the result instead of restricting it."""
import sys
from enum import Enum
from utype import type_transform, Options


class Opposite(str, Enum):
    left = "right"
    right = "left"


class Mixed(Enum):
    X = 1
    Y = "X"


bad = 0
for target, value in [(Opposite, "left"), (Opposite, "right"), (Mixed, "X")]:
    base = type_transform(value, target)
    for kw in ({"no_explicit_cast": True}, {"no_data_loss": True},
               {"no_explicit_cast": True, "no_data_loss": True}):
        got = type_transform(value, target, options=Options(**kw))
        if got is not base:
            bad += 1
            print(f"VIOLATION {value!r} -> {target.__name__}: {kw} gives {got!r}, no flags gives {base!r}")
        else:
            print(f"ok   {value!r} -> {target.__name__}: {kw} {got!r}")
sys.exit(1 if bad else 0)
