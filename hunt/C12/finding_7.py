"""C12 finding 7: even with unknown keys forbidden (no_data_loss with addition=None -> False, or
addition=False), input keys that are named like a non-field attribute of the class (a method, a
classmethod, a ClassVar, a '_private' name) are silently dropped instead of rejected:
parse_addition returns before looking at options.addition (base.py:400-402)."""
import sys
import typing
from utype import Schema, Options

bad = 0


class S(Schema):
    __options__ = Options(no_data_loss=True, addition=None)  # the documented way: becomes addition=False
    a: int
    version: typing.ClassVar[int] = 3
    _cache: int = 0

    def helper(self):
        return 1


assert S.__options__.addition is False
try:
    S(a=1, zz=5)
    print("unexpected: a plain unknown key is accepted")
except Exception as e:
    print("ok   plain unknown key 'zz' rejected:", type(e).__name__)

for key in ("helper", "version", "_cache"):
    try:
        r = S.__from__({"a": 1, key: 5})
    except Exception as e:
        print(f"ok   key {key!r} rejected ({type(e).__name__})")
    else:
        bad += 1
        print(f"VIOLATION unknown key {key!r} accepted and dropped under no_data_loss/addition=False -> {r!r}")
sys.exit(1 if bad else 0)
