"""C12 finding 4: under no_explicit_cast alone the Union conversion skips the 'no data loss' stage
(rule.py:411) that the flag-less conversion runs, so the flag makes a Union pick a DIFFERENT member
(and a lossy one): Union[str, int](3.5) is 3 with the flag and '3.5' without."""
import sys
import typing
from decimal import Decimal
from utype import Schema, Options, type_transform
from utype.parser.rule import Rule

bad = 0
NEC = Options(no_explicit_cast=True)
for ann, value in [
    (typing.Union[str, int], 3.5),
    (typing.Union[int, str], Decimal("1.5")),
    (typing.Union[bool, int], 1.5),
    (typing.Union[int, typing.List[int]], [1.5]),
]:
    t = Rule.parse_annotation(ann)
    base = type_transform(value, t)
    got = type_transform(value, t, options=NEC)
    if type(got) is not type(base) or got != base:
        bad += 1
        print(f"VIOLATION {ann}: {value!r} -> {got!r} under no_explicit_cast, {base!r} without flags")
    else:
        print(f"ok   {ann}: {value!r} -> {got!r}")


class A(Schema):
    v: typing.Union[str, int]


class B(Schema):
    __options__ = NEC
    v: typing.Union[str, int]


a, b = A(v=3.5).v, B(v=3.5).v
print("Schema field Union[str, int] = 3.5:", repr(a), "without flags,", repr(b), "under no_explicit_cast")
if a != b:
    bad += 1
sys.exit(1 if bad else 0)
