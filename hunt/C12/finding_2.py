"""C12 finding 2: to_dict uses a different algorithm under no_data_loss than without it, so the
same input converts to a DIFFERENT dict with the flag than without; and the very loss the
no_data_loss branch is written to prevent (dict([{'a': 1, 'b': 2}]) == {'a': 'b'}) still happens
under no_data_loss through the JSON-text / deque / frozenset paths."""
import sys
from collections import Counter, deque
from utype import type_transform, Options

NDL = Options(no_data_loss=True)
bad = 0


def conv(v, t, o=None):
    try:
        return "ok", type_transform(v, t, options=o)
    except Exception as e:
        return "err", e


# (a) "only restrict": flag result must equal the flag-less result
for value, target in [
    ([{"a": 1, "b": 2}], dict),
    (({"a": 1, "b": 2},), dict),
    ([("a", 1), ("b", 2)], Counter),
    (frozenset({"a="}), dict),
]:
    f = conv(value, target, NDL)
    n = conv(value, target)
    same = f[0] == n[0] == "ok" and f[1] == n[1] and type(f[1]) is type(n[1])
    if f[0] == "ok" and not same:
        bad += 1
        print(f"VIOLATION (restrict-only) {value!r} -> {target.__name__}: "
              f"no_data_loss gives {f[1]!r}, no flags gives {n[1]!r}")
    else:
        print(f"ok   {value!r} -> {target.__name__}: {f[1]!r} / {n[1]!r}")

# (b) "keeps its promises": values of the only element are dropped under no_data_loss
for value in ['[{"a":1,"b":2}]', deque([{"a": 1, "b": 2}])]:
    f = conv(value, dict, NDL)
    if f[0] == "ok" and f[1] == {"a": "b"}:
        bad += 1
        print(f"VIOLATION (data loss under no_data_loss) {value!r} -> dict: {f[1]!r} (values 1 and 2 dropped)")
    else:
        print(f"ok   {value!r} -> dict: {f}")

sys.exit(1 if bad else 0)
