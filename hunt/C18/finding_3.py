"""
C18 finding 3: a data class with a custom, typed __init__ (documented: guide/cls.md "Custom __init__ function")
restarts the depth accounting at every level, so max_depth is never enforced and a cyclic input is not
stopped by the depth limit (it runs into Python's recursion limit instead).

exit 1 = violation present, 0 = absent
"""
import sys
from typing import Optional
from utype import Schema, Options, exc


class Plain(Schema):
    __options__ = Options(max_depth=3)
    v: int = 0
    c: Optional['Plain'] = None


class Custom(Schema):
    __options__ = Options(max_depth=3)
    v: int = 0
    c: Optional['Custom'] = None

    def __init__(self, v: int = 0, c: Optional['Custom'] = None):
        super().__init__(v=v, c=c)


class Custom2(Schema):
    # same, without Optional (keeps the cyclic case cheap: no union retries)
    __options__ = Options(max_depth=3)
    v: int = 0
    c: 'Custom2' = None

    def __init__(self, v: int = 0, c: 'Custom2' = None):
        kw = {} if c is None else {'c': c}
        super().__init__(v=v, **kw)


def chain(n):
    node = {'v': 0}
    for i in range(1, n):
        node = {'v': i, 'c': node}
    return node


def depth_of(inst):
    n = 0
    while inst is not None:
        n += 1
        inst = inst.c
    return n


def accepted(cls, data):
    try:
        return depth_of(cls(**data))
    except exc.ParseError as e:
        lines = [ln.strip() for ln in str(e).splitlines() if 'max_depth' in ln]
        return 'rejected (%s)' % (lines[-1][-45:] if lines else str(e)[-45:])


bad = False
for cls in (Plain, Custom, Custom2):
    for n in (3, 4, 8):
        r = accepted(cls, chain(n))
        print(f'{cls.__name__:8s} max_depth=3  input depth {n}: {r}')
        if n > 3 and isinstance(r, int):
            bad = True

cyc = {'v': 1}
cyc['c'] = cyc
for cls in (Plain, Custom2):
    try:
        cls(**cyc)
        r = 'ACCEPTED'
    except exc.ParseError as e:
        msg = str(e)
        r = 'rejected by max_depth' if 'max_depth' in msg else \
            'NOT stopped by max_depth: %s' % ('RecursionError' if 'RecursionError' in msg or 'recursion' in msg else msg[-80:])
    except RecursionError:
        r = 'NOT stopped by max_depth: RecursionError escaped'
    print(f'{cls.__name__:8s} max_depth=3  cyclic input: {r}')
    if 'max_depth' not in r or r.startswith('NOT'):
        bad = True

if bad:
    print('VIOLATION: values deeper than max_depth are accepted / cyclic input is not stopped by the depth limit')
    sys.exit(1)
print('no violation')
sys.exit(0)
