"""
C18 finding 5: a nested value that sits under the mapping key None is counted as one nesting level too many,
so with max_depth = d a value of depth exactly d is rejected ("... wherever the nested value sits (any list
index, any mapping key ...)").

exit 1 = violation present, 0 = absent
"""
import sys
from typing import Dict, Optional, Any
from utype import Schema, Options, exc


class N(Schema):
    __options__ = Options(max_depth=3)
    v: int = 0
    c: Dict[Optional[str], 'N'] = None


class M(Schema):
    __options__ = Options(max_depth=3)
    v: int = 0
    c: Dict[Any, 'M'] = None


def chain(n, key):
    node = {'v': 0}
    for i in range(1, n):
        node = {'v': i, 'c': {key: node}}
    return node


def accepted(cls, data):
    try:
        cls(**data)
        return True
    except exc.ParseError as e:
        return False


bad = False
for cls in (N, M):
    for key in ('a', '', None):
        res = {n: accepted(cls, chain(n, key)) for n in (1, 2, 3, 4)}
        expect = {1: True, 2: True, 3: True, 4: False}
        flag = '' if res == expect else '   <-- depth limit not exact'
        print(f'{cls.__name__} max_depth=3 key={key!r:5}: accepted by depth {res}{flag}')
        if res != expect:
            bad = True

try:
    N(**chain(3, None))
except exc.ParseError as e:
    print('error for depth 3 under key None:', [ln.strip() for ln in str(e).splitlines() if 'max_depth' in ln][-1])

if bad:
    print('VIOLATION: a depth-3 value is rejected with max_depth=3 when it sits under the key None')
    sys.exit(1)
print('no violation')
sys.exit(0)
