"""
C18 finding 4: options declared with the documented class-decorator form  @Options(max_depth=d)
(guide/cls.md "Class decorator") are not applied below the top level of a self-referencing data class:
the depth limit is never enforced and cyclic input is not rejected by it.

Options.__call__ returns a SUBCLASS carrying the options; the self reference 'Node' inside the class body was
already bound to the undecorated class (which has no options), so every nested level is parsed by the
undecorated class.

exit 1 = violation present, 0 = absent
"""
import sys
from utype import Schema, Options, exc


class Attr(Schema):
    __options__ = Options(max_depth=3)
    v: int = 0
    c: 'Attr' = None


@Options(max_depth=3)
class Node(Schema):
    v: int = 0
    c: 'Node' = None


def chain(n):
    node = {'v': 0}
    for i in range(1, n):
        node = {'v': i, 'c': node}
    return node


def try_parse(cls, data):
    try:
        inst = cls(**data)
    except exc.ParseError as e:
        msg = str(e)
        if 'max_depth' in msg:
            return 'rejected by max_depth'
        return 'failed WITHOUT the depth limit: ' + ('RecursionError' if 'recursion' in msg else msg[-60:])
    except RecursionError:
        return 'failed WITHOUT the depth limit: RecursionError'
    return 'accepted'


bad = False
print('Node.__options__ =', Node.__options__)
for cls in (Attr, Node):
    for n in (3, 4, 6):
        r = try_parse(cls, chain(n))
        print(f'{cls.__name__:5s} max_depth=3, input depth {n}: {r}')
        if n > 3 and r != 'rejected by max_depth':
            bad = True
    cyc = {'v': 1}
    cyc['c'] = cyc
    r = try_parse(cls, cyc)
    print(f'{cls.__name__:5s} max_depth=3, cyclic input : {r}')
    if r != 'rejected by max_depth':
        bad = True

inst = Node(**chain(2))
print('type(inst) is Node:', type(inst) is Node, '| type(inst.c) is Node:', type(inst.c) is Node,
      '| options of type(inst.c):', type(inst.c).__options__)

if bad:
    print('VIOLATION: max_depth given by @Options(...) is not enforced on nested levels')
    sys.exit(1)
print('no violation')
sys.exit(0)
