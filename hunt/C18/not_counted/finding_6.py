"""
C18 finding 6: the depth limit is off by one through the secondary entry points.
For the same class (max_depth=3) and the same value of depth exactly 3:
   N(**value), N.__from__(value)                         -> accepted (correct)
   utype.type_transform(value, N)                        -> rejected "max_depth: 3 exceed: 4"
   Rule call  types.Array[N]([value])                    -> rejected
   @utype.parse function parameter / *args / **kwargs / return value of type N  -> rejected
The class-less root context created by these entry points is counted as a data-class nesting level.

exit 1 = violation present, 0 = absent
"""
import sys
import utype
from utype import Schema, Options, exc, types


class N(Schema):
    __options__ = Options(max_depth=3)
    v: int = 0
    c: 'N' = None


def chain(n):
    node = {'v': 0}
    for i in range(1, n):
        node = {'v': i, 'c': node}
    return node


@utype.parse
def f_param(n: N):
    return n


@utype.parse
def f_ret(n) -> N:
    return n


@utype.parse
def f_args(*ns: N):
    return ns


@utype.parse
def f_kwargs(**ns: N):
    return ns


ArrN = types.Array[N]

ways = {
    'N(**value)': lambda v: N(**v),
    'N.__from__(value)': lambda v: N.__from__(v),
    'type_transform(value, N)': lambda v: utype.type_transform(v, N),
    'types.Array[N]([value])': lambda v: ArrN([v]),
    '@parse f(n: N)': lambda v: f_param(v),
    '@parse f(n) -> N': lambda v: f_ret(v),
    '@parse f(*ns: N)': lambda v: f_args(v),
    '@parse f(**ns: N)': lambda v: f_kwargs(a=v),
}

bad = False
for name, way in ways.items():
    res = {}
    for n in (2, 3, 4):
        try:
            way(chain(n))
            res[n] = True
        except exc.ParseError:
            res[n] = False
    expect = {2: True, 3: True, 4: False}
    flag = '' if res == expect else '   <-- depth 3 rejected with max_depth=3'
    print(f'{name:28s} accepted by depth {res}{flag}')
    if res != expect:
        bad = True

if bad:
    print('VIOLATION: max_depth=3 rejects a value of data-class nesting depth 3 depending on the entry point')
    sys.exit(1)
print('no violation')
sys.exit(0)
