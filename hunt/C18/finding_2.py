"""
C18 finding 2: a union (Union / OneOf) with TWO recursive data-class branches re-parses the whole
sub-tree once per branch at every level, so a VALID chain of depth n costs ~2^n conversions,
even when the staged retries are switched off (no_explicit_cast + no_data_loss => a single stage).

 (a) Union['A', 'B']: input matches B at every level; branch A descends the whole sub-tree first,
     fails on its own field, then branch B descends it again
 (b) OneOf (A ^ B): every branch is always evaluated, so even an input that matches the FIRST branch
     at every level costs 2^n

Work = number of calls of a custom leaf converter registered with register_transformer
exit 1 = violation present, 0 = absent
"""
import sys
import time
from typing import Optional, Union
from utype import Schema, Options, register_transformer, exc
from utype.parser.rule import LogicalType

CALLS = 0


class Leaf:
    def __init__(self, x):
        self.x = x


@register_transformer(Leaf)
def to_leaf(transformer, value, t):
    global CALLS
    CALLS += 1
    return t(value)


strict = Options(no_explicit_cast=True, no_data_loss=True)   # => the union is tried in ONE stage only


class A(Schema):
    __options__ = strict
    leaf: Leaf
    c: Union['A', 'B', None] = None
    x: int


class B(Schema):
    __options__ = strict
    leaf: Leaf
    c: Union['A', 'B', None] = None
    x: str


class X(Schema):
    __options__ = strict
    leaf: Leaf
    c: 'XY' = None
    x: int


class Y(Schema):
    __options__ = strict
    leaf: Leaf
    c: 'XY' = None
    y: int


XY = LogicalType.one_of(X, Y)       # X ^ Y


def chain(n, xval):
    node = {'leaf': 0, 'x': xval}
    for i in range(1, n):
        node = {'leaf': i, 'x': xval, 'c': node}
    return node


def measure(label, cls, build, depths):
    global CALLS
    rows = []
    for n in depths:
        data = build(n)
        CALLS = 0
        t = time.time()
        try:
            cls(**data)
            ok = True
        except exc.ParseError as e:
            ok = False
        dt = time.time() - t
        rows.append((n, CALLS))
        print(f'{label}: depth={n:2d} accepted={ok!s:5} leaf-converter calls={CALLS:8d}  time={dt:.3f}s')
        assert ok, 'the input is valid'
    ratios = [rows[i + 1][1] / rows[i][1] for i in range(len(rows) - 1)]
    print(f'{label}: growth ratio per extra level: {[round(r, 2) for r in ratios]}')
    return min(ratios[-3:]) > 1.75


bad = False
bad |= measure("(a) Union[A, B], valid chain of B", B, lambda n: chain(n, 'text'), range(5, 14))
bad |= measure("(b) OneOf X ^ Y, valid chain of X (first branch)", X, lambda n: chain(n, 1), range(5, 14))

if bad:
    print('VIOLATION: conversion work for a valid input grows exponentially with nesting depth')
    sys.exit(1)
print('no violation: work grows polynomially')
sys.exit(0)
