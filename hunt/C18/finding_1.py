"""
C18 finding 1: the staged Union retries (strict -> no-data-loss -> plain) are restarted from scratch
at every nested data-class level, so conversion work grows exponentially with nesting depth.

 (a) a chain of depth n with ONE invalid leaf at the bottom costs ~3^n   (Optional['M'])
 (b) a perfectly VALID chain of depth n costs ~2^n when every level has one sibling value
     that needs a lossless cast (the string '5' for an int), e.g. Optional[Tuple['T', int]]

Work is measured with the public register_transformer hook: the number of times the converter of a
custom leaf type is invoked (a linear parser calls it once per node).
exit 1 = violation present, 0 = absent
"""
import sys
import time
from typing import Optional, Tuple, Dict
from utype import Schema, register_transformer, exc

CALLS = 0


class Leaf:
    def __init__(self, x):
        self.x = x


@register_transformer(Leaf)
def to_leaf(transformer, value, t):
    global CALLS
    CALLS += 1
    if value == 'bad':
        raise ValueError('bad leaf')
    return t(value)


class M(Schema):
    v: Leaf
    c: Optional['M'] = None


class T(Schema):
    v: Leaf
    c: Optional[Tuple['T', int]] = None


class D(Schema):
    v: Leaf
    c: Optional[Dict[int, 'D']] = None


def chain_m(n, leaf):
    x = {'v': leaf}
    for i in range(1, n):
        x = {'v': 'ok', 'c': x}
    return x


def chain_t(n):
    x = {'v': 'ok'}
    for i in range(1, n):
        x = {'v': 'ok', 'c': [x, '5']}      # '5' -> 5 is valid, but not in the strict stage
    return x


def chain_d(n):
    x = {'v': 'ok'}
    for i in range(1, n):
        x = {'v': 'ok', 'c': {1: x, '2': {'v': 'ok'}}}   # key '2' -> 2 is valid, but not in the strict stage
    return x


def measure(label, cls, build, depths, expect_ok):
    global CALLS
    rows = []
    for n in depths:
        data = build(n)
        CALLS = 0
        t = time.time()
        try:
            cls(**data)
            ok = True
        except exc.ParseError:
            ok = False
        dt = time.time() - t
        rows.append((n, CALLS))
        print(f'{label}: depth={n:2d} accepted={ok!s:5} leaf-converter calls={CALLS:8d}  time={dt:.3f}s')
        assert ok == expect_ok, 'unexpected accept/reject result'
    ratios = [rows[i + 1][1] / rows[i][1] for i in range(len(rows) - 1)]
    print(f'{label}: growth ratio per extra level: {[round(r, 2) for r in ratios]}')
    # any polynomial n^k has ratio ((n+1)/n)^k -> 1; for n >= 5, k = 3 it is below 1.75
    return min(ratios[-3:]) > 1.75


bad = False
bad |= measure('(a) Optional[M], one invalid leaf at the bottom', M, lambda n: chain_m(n, 'bad'), range(3, 9), False)
bad |= measure('(a0) Optional[M], valid chain (reference, linear)', M, lambda n: chain_m(n, 'ok'), range(3, 9), True)
bad |= measure("(b) Optional[Tuple[T, int]], VALID chain with '5' for int", T, chain_t, range(5, 14), True)
bad |= measure("(c) Optional[Dict[int, D]], VALID chain with a key '2' for int", D, chain_d, range(5, 12), True)

if bad:
    print('VIOLATION: conversion work grows exponentially with nesting depth')
    sys.exit(1)
print('no violation: work grows polynomially')
sys.exit(0)
