"""C06 finding 5: a subclass re-declares an inherited field and the case-insensitivity of that field changes
(the subclass Options switch case_insensitive on or off). The field map is keyed by the case-folded name for a
case-insensitive field, so the re-declared field does not replace the inherited one: both stay in parser.fields
with the same output name. data-first never notices the stale entry, field-first demands it.
"""
import sys
import warnings
from utype import Schema, Options

warnings.simplefilter("ignore")


class Base(Schema):
    Name: str
    other: int = 0


def make_options(dfs):
    class Sub(Base):
        __options__ = Options(data_first_search=dfs, case_insensitive=True)
        Name: int
    return Sub


class InsensitiveBase(Schema):
    __options__ = Options(case_insensitive=True)
    Name: str


def make_reverse(dfs):
    # the other direction: the base is case-insensitive, the subclass (own Options) is not
    class Sub(InsensitiveBase):
        __options__ = Options(data_first_search=dfs)
        Name: int
    return Sub


def outcome(make, dfs, data):
    try:
        return "ok", dict(make(dfs)(dict(data)))
    except Exception as e:  # noqa
        return "err", type(e).__name__


violated = False
for make in (make_options, make_reverse):
    print(make.__name__, "fields:", list(make(True).__parser__.fields))
    for data in ({"Name": 1}, {"name": 1}, {"name": 1, "Name": 2}):
        d, f = outcome(make, True, data), outcome(make, False, data)
        print(f"  input={data!r}\n     data-first : {d}\n     field-first: {f}")
        if d != f:
            violated = True

print("VIOLATION" if violated else "no violation")
sys.exit(1 if violated else 0)
