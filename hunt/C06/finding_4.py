"""C06 finding 4: the ORDER of the parsed result follows the input under data-first and the declaration under
field-first; the property setters of a data class are called in that order during initialization, so a class
with two setters that touch the same private state ends up with different data.
(The same order difference is directly visible in json.dumps(schema) / repr(dataclass) / list(schema).)
"""
import sys
import json
import warnings
from utype import Schema, Options

warnings.simplefilter("ignore")


def make(dfs):
    # the documented "control assignment" pattern (docs/en/guide/cls.md), plus a setter for slug
    class Article(Schema):
        __options__ = Options(data_first_search=dfs)
        _slug: str
        _title: str

        @property
        def title(self) -> str:
            return self._title

        @title.setter
        def title(self, val: str):
            self._title = val
            self._slug = "-".join(val.lower().split())

        @property
        def slug(self) -> str:
            return self._slug

        @slug.setter
        def slug(self, val: str):
            self._slug = val

    return Article


def outcome(dfs, data):
    try:
        return "ok", dict(make(dfs)(dict(data)))
    except Exception as e:  # noqa
        return "err", type(e).__name__


data = {"slug": "custom", "title": "Hello World"}
d, f = outcome(True, data), outcome(False, data)
print(f"input={data!r}\n   data-first : {d}\n   field-first: {f}")
violated = d != f     # dict comparison: ignores the key order, the VALUE of slug differs

# (informational) the plain order difference
def make2(dfs):
    class S(Schema):
        __options__ = Options(data_first_search=dfs)
        a: int
        b: int
    return S
print("json data-first :", json.dumps(make2(True)(b=1, a=2)))
print("json field-first:", json.dumps(make2(False)(b=1, a=2)))

print("VIOLATION" if violated else "no violation")
sys.exit(1 if violated else 0)
