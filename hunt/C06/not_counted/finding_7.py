"""C06 finding 7 (depends on how "a failure of the same kind" is read): without collect_errors the FIRST error is
raised, and the first error is found in input order by data-first and in declaration order by field-first - the
exception classes differ (AbsenceError / ExceedError / AliasConflictError / plain ParseError; all are ParseError
subclasses, but callers catching exc.AbsenceError or exc.ExceedError observe the strategy).
"""
import sys
import warnings
from utype import Schema, Field, Options

warnings.simplefilter("ignore")


def make_strict(dfs):
    class S(Schema):
        __options__ = Options(data_first_search=dfs, addition=False)
        a: int
        b: int
    return S


def make_alias(dfs):
    class S(Schema):
        __options__ = Options(data_first_search=dfs)
        a: int = Field(alias_from=["b"])
    return S


def outcome(make, dfs, data):
    try:
        return "ok", dict(make(dfs)(dict(data)))
    except Exception as e:  # noqa
        return "err", type(e).__name__


violated = False
for make, data in (
    (make_strict, {"b": "x"}),                    # ParseError(b) vs AbsenceError(a)
    (make_strict, {"c": 1, "b": "x", "a": 1}),    # ExceedError(c) vs ParseError(b)
    (make_alias, {"a": "x", "b": 1}),             # ParseError(a) vs AliasConflictError(a)
):
    d, f = outcome(make, True, data), outcome(make, False, data)
    print(f"{make.__name__} input={data!r}\n   data-first : {d}\n   field-first: {f}")
    if d != f:
        violated = True

print("VIOLATION" if violated else "no violation")
sys.exit(1 if violated else 0)
