"""C06 finding 6: keys that are not str (Schema({1: ...}) - a dict given positionally may carry any hashable key).
data-first looks every key up as str(key) and stores additions under str(key); field-first (without a
case-insensitive field) uses the raw key: it can not match a field, additions keep the raw key, and for a class
with addition=True the later attribute assignment crashes with a non-parse AttributeError.
"""
import sys
import warnings
from utype import Schema, Field, Options

warnings.simplefilter("ignore")


def make_alias(dfs):
    class S(Schema):
        __options__ = Options(data_first_search=dfs)
        a: int = Field(alias_from=["1"], default=0)
    return S


def make_addition(dfs):
    class S(Schema):
        __options__ = Options(data_first_search=dfs, addition=True)
        a: int = 0
    return S


def outcome(make, dfs, data):
    try:
        return "ok", dict(make(dfs)(dict(data)))
    except Exception as e:  # noqa
        return "err", type(e).__name__


violated = False
for make, data in (
    (make_alias, {1: 5}),
    (make_addition, {2: 5}),
    (make_addition, {b"k": 5}),
):
    d, f = outcome(make, True, data), outcome(make, False, data)
    print(f"{make.__name__} input={data!r}\n   data-first : {d}\n   field-first: {f}")
    if d != f:
        violated = True

print("VIOLATION" if violated else "no violation")
sys.exit(1 if violated else 0)
