"""C06 finding 1: with Options(ignore_alias_conflicts=True) the alias that wins depends on the lookup strategy.

data-first : the LAST spelling in the input wins (every spelling is parsed, each overwrites the previous one)
field-first: the FIRST spelling in declaration order (name, then alias_from order) wins, the others are not parsed
"""
import sys
import warnings
from utype import Schema, Field, Options

warnings.simplefilter("ignore")


def make(dfs):
    class S(Schema):
        __options__ = Options(ignore_alias_conflicts=True, data_first_search=dfs)
        alias: int = Field(alias_from=["alias_from", "@af2"])
    return S


def outcome(dfs, data):
    try:
        return "ok", dict(make(dfs)(dict(data)))
    except Exception as e:  # noqa
        return "err", type(e).__name__


violated = False
for data in (
    {"alias": 1, "alias_from": 2},          # both parse: different value
    {"alias": 1, "alias_from": "oops"},     # data-first fails on the ignored duplicate, field-first succeeds
):
    d, f = outcome(True, data), outcome(False, data)
    print(f"input={data!r}\n   data-first : {d}\n   field-first: {f}")
    if d != f:
        violated = True

print("VIOLATION" if violated else "no violation")
sys.exit(1 if violated else 0)
