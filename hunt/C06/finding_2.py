"""C06 finding 2: two spellings of one field carrying values that compare equal (1 == 1.0 == True) are not an
alias conflict, but which of the two values gets parsed depends on the strategy.

data-first : the first spelling in the input is parsed, the later ones are dropped
field-first: the first spelling in declaration order is parsed; and for two CASE variants of a
             case-insensitive name the pre-pass keeps the LAST one
"""
import sys
import warnings
from utype import Schema, Field, Options

warnings.simplefilter("ignore")


def make_alias(dfs):
    class S(Schema):
        __options__ = Options(data_first_search=dfs)
        a: str = Field(alias_from=["b"])
    return S


def make_case(dfs):
    class S(Schema):
        __options__ = Options(data_first_search=dfs, case_insensitive=True)
        name: str
    return S


def outcome(make, dfs, data):
    try:
        return "ok", dict(make(dfs)(dict(data)))
    except Exception as e:  # noqa
        return "err", type(e).__name__


violated = False
for make, data in (
    (make_alias, {"b": 1.0, "a": 1}),
    (make_alias, {"b": True, "a": 1}),
    (make_case, {"NAME": 1, "name": 1.0}),
):
    d, f = outcome(make, True, data), outcome(make, False, data)
    print(f"{make.__name__} input={data!r}\n   data-first : {d}\n   field-first: {f}")
    if d != f:
        violated = True

print("VIOLATION" if violated else "no violation")
sys.exit(1 if violated else 0)
