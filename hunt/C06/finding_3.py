"""C06 finding 3: in a parsed function, a keyword whose name belongs to a parameter that was already filled
positionally (or to a positional-only parameter) is silently dropped by data-first, but is treated as an
additional keyword by field-first (lands in **kwargs, or raises ExceedError / TypeError).
"""
import sys
import warnings
import utype
from utype import Options

warnings.simplefilter("ignore")


def make_posonly(dfs):
    @utype.parse(options=Options(data_first_search=dfs))
    def f(a: int, /, **kwargs: int):
        return a, kwargs
    return f


def make_strict(dfs):
    @utype.parse(options=Options(data_first_search=dfs, addition=False))
    def f(a: int, b: int = 0):
        return a, b
    return f


def make_kw(dfs):
    @utype.parse(options=Options(data_first_search=dfs))
    def f(a: int, **kwargs):
        return a, kwargs
    return f


def make_alias(dfs):
    @utype.parse(options=Options(data_first_search=dfs))
    def f(a: int = utype.Field(alias_from=["a1"]), **kwargs: int):
        return a, kwargs
    return f


def outcome(make, dfs, call):
    try:
        return "ok", call(make(dfs))
    except Exception as e:  # noqa
        return "err", type(e).__name__


violated = False
for make, label, call in (
    # perfectly legal Python: plain `def f(a, /, **kwargs)` returns (1, {'a': '2'})
    (make_posonly, "f(1, a='2')", lambda f: f(1, a="2")),
    (make_strict, "f(1, 2, b=3)", lambda f: f(1, 2, b=3)),
    (make_kw, "f(1, a=2)", lambda f: f(1, a=2)),
    (make_alias, "f(1, a1=2)", lambda f: f(1, a1=2)),
):
    d, f_ = outcome(make, True, call), outcome(make, False, call)
    print(f"{make.__name__}: {label}\n   data-first : {d}\n   field-first: {f_}")
    if d != f_:
        violated = True

print("VIOLATION" if violated else "no violation")
sys.exit(1 if violated else 0)
