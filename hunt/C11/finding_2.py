"""
C11 finding 2: assigning an invalid value to a field whose policy is 'exclude' (Field(on_error='exclude') or
Options(invalid_values='exclude')) stores the library's internal `unprovided` sentinel AS THE FIELD VALUE
(attribute assignment, item assignment, update(), setdefault(), |=, DataClass attributes, @property setters).

Run:  PYTHONPATH=<tree> python finding_2.py     exit 1 = violation present, 0 = absent
"""
import sys
import warnings

warnings.simplefilter("ignore")

from utype import DataClass, Field, Options, Schema
from utype.utils.datastructures import unprovided

violations = []


def report(label, bad, shown):
    print(f"{'VIOLATED' if bad else 'ok      '} {label}: {shown}")
    if bad:
        violations.append(label)


def has_sentinel(mapping):
    return any(v is unprovided for v in dict(mapping).values())


class Item(Schema):
    a: int = Field(on_error="exclude", required=False)
    b: int = 1


# construction: the offending field is removed, as the property says
print("constructor   :", dict(Item(a="x", b="2")), "(a is excluded, b converted: fine)")

# the very same field / value / policy through the other public entry points
s = Item(a=3)
s.a = "x"
report("attribute assignment  s.a = 'x'", has_sentinel(s), f"dict(s) = {dict(s)!r}, s.a = {s.a!r}")

s = Item(a=3)
s["a"] = "x"
report("item assignment  s['a'] = 'x'", has_sentinel(s), f"dict(s) = {dict(s)!r}")

s = Item(a=3)
s.update(a="x", b="5")
report("update(a='x', b='5')", has_sentinel(s) or s.b != 5, f"dict(s) = {dict(s)!r}")

s = Item()
s.setdefault("a", "x")
report("setdefault('a', 'x')", has_sentinel(s), f"dict(s) = {dict(s)!r}")

s = Item(a=3)
s |= {"a": "x"}
report("s |= {'a': 'x'}", has_sentinel(s), f"dict(s) = {dict(s)!r}")


class Conf(Schema):
    __options__ = Options(invalid_values="exclude")
    a: int = Field(required=False)


s = Conf(a=3)
s.a = "x"
report("Options(invalid_values='exclude') + assignment", has_sentinel(s), f"dict(s) = {dict(s)!r}")


class Data(DataClass):
    a: int = Field(on_error="exclude", required=False)
    b: int = 1


d = Data(a=3)
d.a = "x"
report("DataClass attribute assignment", d.__dict__.get("a") is unprovided, f"d.__dict__ = {d.__dict__!r}")

received = []


class WithSetter(Schema):
    _v: int = 0

    @property
    def v(self) -> int:
        return self._v

    @v.setter
    @Field(on_error="exclude", required=False)
    def v(self, value: int):
        received.append(value)
        self._v = value


try:
    w = WithSetter()
    w.v = "x"
    report("@property setter receives", any(r is unprovided for r in received), f"setter was called with {received!r}")
except Exception as e:  # declaration style not supported in this version: ignore this sub-case
    print("skipped   @property setter case:", type(e).__name__, e)

print()
if violations:
    print(f"{len(violations)} violation(s) of C11: the `unprovided` sentinel is stored as a field value")
    sys.exit(1)
print("no violation")
sys.exit(0)
