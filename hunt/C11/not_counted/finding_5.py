"""
C11 finding 5 (narrower: needs Options(ignore_required=True) on a function): when a positional argument is
excluded, the FOLLOWING positional arguments slide one position to the left: a non-offending argument ends up
in another parameter, and is passed to the function without being converted / checked against that parameter.

Run:  PYTHONPATH=<tree> python finding_5.py     exit 1 = violation present, 0 = absent
"""
import sys
import warnings

warnings.simplefilter("ignore")

import utype
from utype import Options


def make(policy):
    @utype.parse(options=Options(invalid_values=policy, ignore_required=True))
    def func(a: int, b: int = 5, c: str = "c"):
        return {"a": a, "b": b, "c": c}

    return func


def attempt(f, *args, **kwargs):
    try:
        return f(*args, **kwargs)
    except Exception as e:
        return f"raised {type(e).__name__}: {e}"


violations = []
print("throw   , all valid   func('1', '3', 'z') ->", attempt(make("throw"), "1", "3", "z"))
print("preserve, a offending func('x', '3', 'z') ->", attempt(make("preserve"), "x", "3", "z"))
got = attempt(make("exclude"), "x", "3", "z")
print("exclude , a offending func('x', '3', 'z') ->", got)

# the non-offending elements are b='3' -> 3 and c='z' -> 'z'; whatever happens to `a`, they must stay what they are
if isinstance(got, dict):
    if got.get("b") != 3 or got.get("c") != "z":
        print("VIOLATED: the values given for b and c were moved to a and b:", got)
        violations.append("slide")
    if not isinstance(got.get("b"), int):
        print(f"VIOLATED: parameter b: int received {got.get('b')!r} unconverted and unchecked")
        violations.append("untyped")
else:
    print("(an error is acceptable: `a` has no default to fall back on)")

print()
if violations:
    print(f"{len(violations)} violation(s) of C11")
    sys.exit(1)
print("no violation")
sys.exit(0)
