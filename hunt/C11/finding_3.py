"""
C11 finding 3: a field declared with Field(discriminator=...) ignores its exclude / preserve policy:
  * a value whose discriminator matches no branch, or that is not a mapping, raises although the policy is
    'exclude' / 'preserve' (the same field WITHOUT discriminator= honours the policy);
  * with 'preserve', an offending value is NOT put back unchanged: a JSON string comes back as a dict.

Run:  PYTHONPATH=<tree> python finding_3.py     exit 1 = violation present, 0 = absent
"""
import sys
import warnings
from typing import Literal, Union

warnings.simplefilter("ignore")

from utype import Field, Options, Schema

violations = []


class Video(Schema):
    kind: Literal["video"]
    height: int


class Audio(Schema):
    kind: Literal["audio"]
    seconds: int


def attempt(cls, **data):
    try:
        return dict(cls(**data))
    except Exception as e:
        return f"raised {type(e).__name__}"


def check(label, got, want):
    ok = got == want
    print(f"{'ok      ' if ok else 'VIOLATED'} {label}: got {got!r}, property requires {want!r}")
    if not ok:
        violations.append(label)


for policy in ("exclude", "preserve"):
    class WithDisc(Schema):
        file: Union[Video, Audio] = Field(discriminator="kind", on_error=policy, required=False)
        n: int = 0

    class NoDisc(Schema):
        file: Union[Video, Audio] = Field(on_error=policy, required=False)
        n: int = 0

    class ByOptions(Schema):
        __options__ = Options(invalid_values=policy)
        file: Union[Video, Audio] = Field(discriminator="kind", required=False)
        n: int = 0

    json_text = '{"kind": "video", "height": "tall"}'
    offending = [
        ("valid tag, bad content ", {"kind": "video", "height": "tall"}),
        ("unknown tag            ", {"kind": "image", "height": 1}),
        ("not a mapping          ", 5),
        ("JSON text, bad content ", json_text),
    ]
    for name, value in offending:
        want = {"n": 3} if policy == "exclude" else {"file": value, "n": 3}
        check(f"{policy:8} no discriminator (control) {name}", attempt(NoDisc, file=value, n="3"), want)
        check(f"{policy:8} Field(discriminator=)      {name}", attempt(WithDisc, file=value, n="3"), want)
        check(f"{policy:8} Options + discriminator    {name}", attempt(ByOptions, file=value, n="3"), want)

print()
if violations:
    print(f"{len(violations)} violation(s) of C11")
    sys.exit(1)
print("no violation")
sys.exit(0)
