"""
C11 finding 4: an EXCLUDED field that has a default is still treated as "provided" by the dependency check,
so the result is not the one of strict parsing with the offending field removed:
  (a) the excluded field still drags in ITS OWN dependencies -> DependenciesAbsenceError instead of a result;
  (b) the excluded field still satisfies the dependencies OF OTHER fields -> a result instead of the error
      that strict parsing gives once the offending field is removed.

Run:  PYTHONPATH=<tree> python finding_4.py     exit 1 = violation present, 0 = absent
"""
import sys
import warnings

warnings.simplefilter("ignore")

from utype import Field, Options, Schema

violations = []


def attempt(cls, **data):
    try:
        return dict(cls(**data))
    except Exception as e:
        return f"raised {type(e).__name__}"


def check(label, with_policy, strict_removed):
    ok = with_policy == strict_removed
    print(f"{'ok      ' if ok else 'VIOLATED'} {label}:\n"
          f"           exclude policy, offending value given : {with_policy!r}\n"
          f"           strict parsing, offending value removed: {strict_removed!r}")
    if not ok:
        violations.append(label)


for dfs in (False, True):
    # (a) the doc example of `dependencies` (credit_card needs billing_address), credit_card being best-effort
    class Account(Schema):
        __options__ = Options(data_first_search=dfs)
        name: str
        billing_zip: int = Field(required=False)
        credit_card: int = Field(default=None, on_error="exclude", dependencies=["billing_zip"])

    check(f"(a) dfs={dfs}: excluded field imposes its dependencies",
          attempt(Account, name="alice", credit_card="not-a-number"),
          attempt(Account, name="alice"))

    # control: same thing when the excluded field has no default -> consistent
    class Account0(Schema):
        __options__ = Options(data_first_search=dfs)
        name: str
        billing_zip: int = Field(required=False)
        credit_card: int = Field(required=False, on_error="exclude", dependencies=["billing_zip"])

    check(f"    dfs={dfs}: control, no default on the excluded field",
          attempt(Account0, name="alice", credit_card="not-a-number"),
          attempt(Account0, name="alice"))

    # (b) the dependency itself is the offending (excluded) field
    class Account2(Schema):
        __options__ = Options(data_first_search=dfs)
        name: str
        billing_zip: int = Field(default=None, on_error="exclude")
        credit_card: int = Field(required=False, dependencies=["billing_zip"])

    check(f"(b) dfs={dfs}: excluded field satisfies a dependency",
          attempt(Account2, name="alice", credit_card=1234, billing_zip="??"),
          attempt(Account2, name="alice", credit_card=1234))

print()
if violations:
    print(f"{len(violations)} violation(s) of C11")
    sys.exit(1)
print("no violation")
sys.exit(0)
