"""
C11 finding 1: inside Optional[...] / Union[...], an 'exclude' / 'preserve' policy drops (or leaves unconverted)
elements that are perfectly VALID under the default 'throw' policy.

Run:  PYTHONPATH=<tree> python finding_1.py     exit 1 = violation present, 0 = absent
"""
import sys
import warnings
from typing import Dict, List, Optional, Union

warnings.simplefilter("ignore")

import utype
from utype import Options, Schema

violations = []


def check(label, got, want):
    ok = got == want and repr(got) == repr(want)
    print(f"{'ok      ' if ok else 'VIOLATED'} {label}: got {got!r}, property requires {want!r}")
    if not ok:
        violations.append(label)


def make(policy):
    class Data(Schema):
        __options__ = Options(invalid_items=policy, invalid_keys=policy, invalid_values=policy)
        plain: List[int] = None
        opt: Optional[List[int]] = None
        uni: Union[List[int], str] = None
        dic: Optional[Dict[str, int]] = None

    return Data


# 1. an input without a single offending element: every element converts under 'throw'
valid_list = ["1", 3]
valid_dict = {"a": "1", "b": 2}
strict = make("throw")(plain=valid_list, opt=valid_list, uni=valid_list, dic=valid_dict)
print("throw   :", dict(strict))
assert strict.plain == strict.opt == strict.uni == [1, 3] and strict.dic == {"a": 1, "b": 2}

for policy in ("exclude", "preserve"):
    inst = make(policy)(plain=valid_list, opt=valid_list, uni=valid_list, dic=valid_dict)
    # nothing is offending, so the result must be the strict one, whatever the policy
    check(f"{policy}: List[int]            (control)", inst.plain, [1, 3])
    check(f"{policy}: Optional[List[int]]", inst.opt, [1, 3])
    check(f"{policy}: Union[List[int], str]", inst.uni, [1, 3])
    check(f"{policy}: Optional[Dict[str, int]]", inst.dic, {"a": 1, "b": 2})

# 2. one offending element ('x'): only that one may be removed / kept, '1' must still become 1
mixed = ["1", "x", 3]
inst = make("exclude")(plain=mixed, opt=mixed)
check("exclude: List[int] with one bad item (control)", inst.plain, [1, 3])
check("exclude: Optional[List[int]] with one bad item", inst.opt, [1, 3])
inst = make("preserve")(plain=mixed, opt=mixed)
check("preserve: List[int] with one bad item (control)", inst.plain, [1, "x", 3])
check("preserve: Optional[List[int]] with one bad item", inst.opt, [1, "x", 3])


# 3. same thing through a function
@utype.parse(options=Options(invalid_items="exclude"))
def func(xs: Optional[List[int]] = None):
    return xs


check("exclude: function param Optional[List[int]]", func(["1", 3]), [1, 3])

print()
if violations:
    print(f"{len(violations)} violation(s) of C11")
    sys.exit(1)
print("no violation")
sys.exit(0)
