"""C08 finding 4: Options(max_params / min_params) count keyword arguments only, so the same
call is accepted by position and rejected by keyword (and the reverse)."""
import sys, warnings
import utype
from utype import Options, exc
warnings.simplefilter('ignore')
bad = 0

@utype.parse(options=Options(max_params=2))
def f(a: int, b: int, c: int):
    return a, b, c
def attempt(label, fn):
    try:
        r = fn(); print(label, '->', r); return 'ok'
    except exc.ParseError as e:
        print(label, '->', type(e).__name__, e); return 'err'
r1 = attempt('max_params=2 f(1, 2, 3)      ', lambda: f(1, 2, 3))
r2 = attempt('max_params=2 f(a=1, b=2, c=3)', lambda: f(a=1, b=2, c=3))
if r1 != r2:
    bad = 1

@utype.parse(options=Options(min_params=2))
def g(a: int, b: int, c: int = 0):
    return a, b, c
r1 = attempt('min_params=2 g(1, 2)    ', lambda: g(1, 2))
r2 = attempt('min_params=2 g(a=1, b=2)', lambda: g(a=1, b=2))
if r1 != r2:
    bad = 1
sys.exit(bad)
