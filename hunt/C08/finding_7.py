"""C08 finding 7: a generator / async generator function whose return annotation is a bare
typing.Iterator / Generator / AsyncIterator / AsyncGenerator cannot be decorated (TypeError)."""
import sys, warnings, asyncio
from typing import Iterator, Generator, AsyncIterator, AsyncGenerator
import utype
warnings.simplefilter('ignore')
bad = 0

def mk_sync(ann):
    def gen(n: int) -> ann:
        for i in range(n):
            yield i
    return gen
def mk_async(ann):
    async def agen(n: int) -> ann:
        for i in range(n):
            yield i
    return agen

for ann in (Iterator, Generator):
    try:
        f = utype.parse(mk_sync(ann))
        print(ann, '->', list(f('2')))
    except TypeError as e:
        print(ann, '-> decoration failed: TypeError:', e); bad = 1
for ann in (AsyncIterator, AsyncGenerator):
    try:
        f = utype.parse(mk_async(ann))
        async def run():
            return [x async for x in f('2')]
        print(ann, '->', asyncio.run(run()))
    except TypeError as e:
        print(ann, '-> decoration failed: TypeError:', e); bad = 1
sys.exit(bad)
