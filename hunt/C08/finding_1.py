"""C08 finding 1: a parameter that does not take input (no_input / unsupported mode) breaks the
call when its value is given BY POSITION (TypeError / a default slides into the next slot),
while the same call by keyword works."""
import sys, warnings
import utype
from utype import Param, Options
warnings.simplefilter('ignore')

bad = 0

@utype.parse
def f(a: int, t: int = Param(no_input=True, default=9), b: int = 0):
    return a, t, b

print('by keyword :', f(1, t=5, b=3))          # (1, 9, 3): value ignored, default used
try:
    r = f(1, 5, 3)                               # Python binds a=1, t=5, b=3
    print('by position:', r)
    if r != (1, 9, 3):
        bad = 1
except TypeError as e:
    print('by position: TypeError:', e)
    bad = 1

# mode variant (same declaration as tests/test_func.py::test_mode, but passed by position)
@utype.parse(options=Options(mode='w'))
def g(fr: str = Param(None, mode='r'), fw: int = 3):
    return fr, fw
print('mode by keyword :', g(fr='x', fw=4))
try:
    r = g('x', 4)
    print('mode by position:', r)
    if r != (None, 4):
        bad = 1
except TypeError as e:
    print('mode by position: TypeError:', e)
    bad = 1

# positional-only variant: no exception, the default is passed twice and lands in *rest
@utype.parse
def h(t: int = Param(no_input=True, default=9), /, *rest: int):
    return t, rest
r = h(5)
print('pos-only h(5) ->', r, ' expected (9, ())')
if r != (9, ()):
    bad = 1

sys.exit(bad)
