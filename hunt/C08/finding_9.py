"""C08 finding 9: generator wrappers do not reproduce the undecorated generator:
(a) a value sent before a tail-call generator is re-sent to the just-started inner generator
    (TypeError) -- the async twin resets it;
(b) throw() is not delivered to the generator body, so the values it would yield are lost."""
import sys, warnings
from typing import Generator, Iterator
import utype
warnings.simplefilter('ignore')
bad = 0

def tail(x):
    yield x * 10

@utype.parse
def g() -> Generator[int, int, None]:
    x = yield 1
    yield tail(x)          # documented tail-call form: the wrapper continues with this generator

it = g()
print('next ->', next(it))
try:
    print('send("4") ->', it.send('4'), ' expected 40')
except TypeError as e:
    print('send("4") -> TypeError:', e); bad = 1

def raw() -> Iterator[int]:
    try:
        yield '1'
    except ValueError:
        yield '-1'
    yield '2'

def drive(f):
    it = f(); out = [next(it)]
    out.append(it.throw(ValueError('boom')))
    out.append(next(it))
    return out
print('undecorated:', drive(raw))
for eager in (False, True):
    try:
        r = drive(utype.parse(eager=eager)(raw))
        print(f'decorated eager={eager}:', r)
        if r != [1, -1, 2]:
            bad = 1
    except ValueError as e:
        print(f'decorated eager={eager}: ValueError escaped:', e); bad = 1
sys.exit(bad)
