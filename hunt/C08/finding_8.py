"""C08 finding 8: decorating the same module-level function twice shares one cached parser:
the plain @utype.parse version silently runs with the Options of the other decoration and
passes an unconverted value into an `int` parameter."""
import sys, warnings
import utype
from utype import Options, exc
warnings.simplefilter('ignore')

def handler(a: int, b: int = 0):
    return a, b

lenient = utype.parse(options=Options(invalid_values='preserve'))(handler)
strict = utype.parse(handler)          # default options: must convert or raise

print('lenient("zz") ->', lenient('zz'))
try:
    r = strict('zz')
    print('strict("zz")  ->', r, ' (body ran with a non-int)')
    sys.exit(1)
except exc.ParseError as e:
    print('strict("zz")  -> ParseError (expected)')
    sys.exit(0)
