"""C08 finding 6: a valid signature with a private (underscore) positional-only parameter
without default followed by a required parameter cannot be decorated (SyntaxError)."""
import sys, warnings
import utype
warnings.simplefilter('ignore')

def raw(_ctx, a: int, /):
    return _ctx, a
print('undecorated:', raw('ctx', 1))
try:
    f = utype.parse(raw)
    r = f('ctx', '1')
    print('decorated  :', r)
    sys.exit(0 if r == ('ctx', 1) else 1)
except SyntaxError as e:
    print('utype.parse raised SyntaxError:', e)
    sys.exit(1)
