"""C08 finding 10: a keyword whose name equals a positional-only parameter belongs to **kwargs
(PEP 570); it is delivered under field-first lookup but dropped under data-first lookup."""
import sys, warnings
import utype
from utype import Options
warnings.simplefilter('ignore')
bad = 0
for dfs in (False, True, None):
    @utype.parse(options=Options(data_first_search=dfs))
    def f(a: int, /, **kw: int):
        return a, kw
    r = f(1, a='2')
    print(f'data_first_search={dfs}: f(1, a="2") ->', r, ' expected (1, {"a": 2})')
    if r != (1, {'a': 2}):
        bad = 1
sys.exit(bad)
