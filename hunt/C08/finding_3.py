"""C08 finding 3: the guessed "reserved first parameter" is lost when it is passed by keyword:
the body receives None instead of the given value."""
import sys, warnings
import utype
warnings.simplefilter('ignore')
bad = 0

class Power:
    # documented order (docs/en/guide/func.md "@staticmethod"): "regardless the order"
    @staticmethod
    @utype.parse
    def scale(value, factor: int = 2):
        return value, factor

    @utype.parse
    def method(self, x: int = 0):
        return self, x

print('positional :', Power.scale(10, '3'))
r = Power.scale(value=10, factor='3')
print('by keyword :', r, ' expected (10, 3)')
if r != (10, 3):
    bad = 1

p = Power()
r = Power.method(self=p, x='2')
print('Power.method(self=p, x="2") ->', r)
if r[0] is not p:
    bad = 1
sys.exit(bad)
