"""C08 finding 5: Param(dependencies=...) is only enforced when the parameter is passed by
keyword; passed by position the body runs although the dependency is absent."""
import sys, warnings
import utype
from utype import Param, exc
warnings.simplefilter('ignore')
ran = []

@utype.parse
def pay(card: str = Param(None, dependencies=['address']), *, address: str = None):
    ran.append((card, address))
    return card, address

try:
    pay(card='4242')
    kw = 'ran'
except exc.DependenciesAbsenceError as e:
    kw = 'rejected'
    print('pay(card="4242") ->', type(e).__name__, e)
try:
    r = pay('4242')
    pos = 'ran'
    print('pay("4242")      ->', r)
except exc.DependenciesAbsenceError as e:
    pos = 'rejected'
    print('pay("4242")      ->', type(e).__name__, e)
print('body ran with:', ran)
sys.exit(1 if kw != pos else 0)
