"""C08 finding 2: an omitted parameter is not set to its default: the default is rebuilt by
copy_value(), which corrupts tuple subclasses (NamedTuple / namedtuple) and downgrades dict
subclasses (Counter, defaultdict, OrderedDict) to plain dict."""
import sys, warnings
from typing import NamedTuple
from collections import namedtuple, Counter, defaultdict
import utype
warnings.simplefilter('ignore')
bad = 0

class Point(NamedTuple):
    x: int
    y: int = 0

@utype.parse
def f(a: int, p: Point = Point(1)):
    return p
r = f(1)
print('NamedTuple default Point(1) ->', repr(r))
if r != Point(1):
    bad = 1

P2 = namedtuple('P2', 'x y')
@utype.parse
def g(a: int, p=P2(1, 2)):
    return p
try:
    r = g(1)
    print('namedtuple default ->', repr(r))
    if r != P2(1, 2):
        bad = 1
except TypeError as e:
    print('namedtuple default -> TypeError:', e)
    bad = 1

@utype.parse
def h(a: int, c: Counter = Counter('aab'), d: dict = defaultdict(list)):
    return c, d
c, d = h(1)
print('Counter default ->', type(c).__name__, '; defaultdict default ->', type(d).__name__)
if type(c) is not Counter or type(d) is not defaultdict:
    bad = 1
sys.exit(bad)
