"""C16 finding 3: a conversion that is scanning the registry while another thread registers a
newer matching converter writes the OLD converter into the cache AFTER the registration has
cleared it.  From then on every conversion of that type uses the superseded registration
(until some unrelated later registration happens to clear the cache again).

The interleaving is made deterministic with a detector (public `detector=` parameter) that
waits on an Event for one class; any detector scan has the same window, only shorter.
"""
import sys
import threading

from utype import register_transformer, type_transform


class Target:
    def __init__(self, v, by="init"):
        self.v = v
        self.by = by

    def __repr__(self):
        return f"Target({self.v!r}, by={self.by})"


in_detector = threading.Event()
go_on = threading.Event()
slow = [True]


def detect(cls):
    if cls is Target:
        if slow[0]:
            slow[0] = False
            in_detector.set()
            go_on.wait(10)
        return True
    return False


@register_transformer(detector=detect)
def old(transformer, data, t):
    return t(data, "old")


res = []
th = threading.Thread(target=lambda: res.append(type_transform(1, Target)))
th.start()                       # thread A: resolve(Target) -> scanning, inside the detector
in_detector.wait(10)


@register_transformer(Target)    # main thread: newer registration, same priority -> must win from now on
def new(transformer, data, t):
    return t(data, "new")


go_on.set()
th.join()
print("conversion that overlapped the registration :", res[0], "(either answer is defensible)")

later = [type_transform(1, Target) for _ in range(3)]
print("conversions strictly AFTER the registration  :", later)

violated = any(x.by != "new" for x in later)

# ---- single-threaded variant of the same root cause: a detector that registers lazily
class Lazy:
    def __init__(self, v, by="init"):
        self.v = v
        self.by = by

    def __repr__(self):
        return f"Lazy({self.v!r}, by={self.by})"


loaded = []


def lazy_detect(cls):
    if cls is Lazy and not loaded:
        loaded.append(1)

        @register_transformer(Lazy)          # "plugin" registered on first sight of the class
        def special(transformer, data, t):
            return t(data, "special")
    return cls is Lazy


@register_transformer(detector=lazy_detect)
def generic(transformer, data, t):
    return t(data, "generic")


lazy = [type_transform(1, Lazy) for _ in range(3)]
print("lazy-registering detector, 3 conversions     :", lazy)
if any(x.by != "special" for x in lazy[1:]):
    violated = True
    print("VIOLATION: `special` was registered before the 2nd and 3rd conversion started, "
          "is the most recent match, and is still not used")

if any(x.by != "new" for x in later):
    print("VIOLATION: the most recent matching registration `new` is ignored; "
          "the cache was re-poisoned with `old` after register() cleared it")
sys.exit(1 if violated else 0)
