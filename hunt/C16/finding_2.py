"""C16 finding 2: while one thread registers a converter, the registry is EMPTY for every other
thread (list.sort() empties the list while it runs and calls the Python-level key function,
which lets other threads run), so a concurrent conversion of a perfectly registered type
(int!) finds no converter at all.

Part A makes the interleaving deterministic by pausing the registering thread inside the sort
key function with sys.settrace (no library code is changed).  Part B is a plain stress run
with the default interpreter settings, no tracing.
"""
import sys
import threading
import time

from utype import register_transformer, type_transform


class Other:
    pass


def convert_int(out):
    try:
        out.append(("ok", type_transform("1", int)))
    except Exception as e:  # noqa
        out.append(("exc", f"{type(e).__name__}: {e}"))


# ---------------------------------------------------------------- part A (deterministic)
@register_transformer(Other)          # any registration: just makes sure nothing is cached
def _r0(transformer, data, t):
    return t()


observed_a = []
fired = []


def tracer(frame, event, arg):
    code = frame.f_code
    if (event == "call" and code.co_name == "<lambda>"
            and code.co_filename.replace("\\", "/").endswith("utype/utils/base.py") and not fired):
        fired.append(1)
        # we are inside `self._registry.sort(key=lambda v: -v[2])` of the registering thread;
        # let another thread convert '1' to int right now
        th = threading.Thread(target=convert_int, args=(observed_a,))
        th.start()
        th.join()
    return None


sys.settrace(tracer)
try:
    @register_transformer(Other)      # unrelated to int
    def _r1(transformer, data, t):
        return t()
finally:
    sys.settrace(None)

print("part A: conversion of '1' to int while another thread registers a converter for an unrelated class:")
print("   ", observed_a)
print("    same conversion afterwards:", type_transform("1", int))

# ---------------------------------------------------------------- part B (stress, no tracing)
stop = False
errors = []
count = [0]


def worker():
    while not stop:
        try:
            r = type_transform("1", int)
            count[0] += 1
            if r != 1:
                errors.append(("val", r))
        except Exception as e:  # noqa
            errors.append(("exc", f"{type(e).__name__}: {e}"))


threads = [threading.Thread(target=worker) for _ in range(4)]
for t in threads:
    t.start()
t0 = time.time()
n = 0
while time.time() - t0 < 15 and not errors:
    @register_transformer(Other)
    def _r(transformer, data, t):
        return t()
    n += 1
stop = True
for t in threads:
    t.join()
print(f"part B: {n} registrations for class Other, {count[0]} successful int conversions, "
      f"{len(errors)} failed int conversions")
print("   ", errors[:3])

violated = any(k != "ok" or v != 1 for k, v in observed_a) or bool(errors)
if violated:
    print("VIOLATION: a type with a matching registration (int) was reported as having no converter")
sys.exit(1 if violated else 0)
