"""C16 finding 1: a registration made after a declaration was compiled never takes effect
for the element type of List[T] / Dict[K, T] / Tuple[T, ...] nor for the origin of a Rule,
although it does take effect for a bare `T` field of the very same Schema.
"""
import sys
import warnings
from typing import Dict, List, Tuple

from utype import Rule, Schema, Options, TypeTransformer, register_transformer, type_transform, parse, types
from utype.utils.base import TypeRegistry

warnings.simplefilter("ignore")


class Tag:
    def __init__(self, v, by="init"):
        self.v = v
        self.by = by

    def __repr__(self):
        return f"Tag({self.v!r}, by={self.by})"


@register_transformer(Tag)
def first(transformer, data, t):
    return t(data, "first")


class S(Schema):
    bare: Tag
    lst: List[Tag]
    dct: Dict[str, Tag]
    tup: Tuple[Tag, int]


class PosInt(int, Rule):      # origin int, resolved when the class is created
    gt = 0


@parse
def fn(bare: Tag, lst: List[Tag]):
    return bare, lst


data = dict(bare=1, lst=[1], dct={"k": 1}, tup=(1, 2))
print("before 2nd registration:", S(**data), fn(1, [1]), PosInt("5"))


# ---- later registrations: most recent one must win from now on
@register_transformer(Tag)
def second(transformer, data, t):
    return t(data, "second")


@register_transformer(int, allow_subclasses=False)   # exact class int only
def int_plus_1000(transformer, data, t):
    return int(data) + 1000


print("registry says          :", type_transform(1, Tag), type_transform("5", int))
s = S(**data)
f = fn(1, [1])
p = PosInt("5")
print("after  2nd registration:", s, f, p)

bad = []
if s.bare.by != "second":
    bad.append("bare field stale")          # (not expected: bare fields resolve at runtime)
if s.lst[0].by != "second":
    bad.append("List[Tag] element still converted by the superseded registration")
if s.dct["k"].by != "second":
    bad.append("Dict[str, Tag] value still converted by the superseded registration")
if s.tup[0].by != "second":
    bad.append("Tuple[Tag, int] element still converted by the superseded registration")
if f[1][0].by != "second":
    bad.append("@parse List[Tag] parameter still converted by the superseded registration")
if p != 1005:
    bad.append(f"Rule with origin int ignores the newer exact-class int registration (got {p!r}, type_transform gives 1005)")

# utype's own ready-made rules were compiled at import time, so NO user registration for their
# origin type can ever reach them (int_plus_1000 above is the current converter of exact `int`)
pp = types.PositiveInt("5")
print("types.PositiveInt('5')   :", pp)
if pp != 1005:
    bad.append(f"utype.types.PositiveInt converts its origin int with the superseded converter (got {pp!r})")


# same root cause, other symptom: a scoped registry (Options.transformer_cls, "You can declare a
# transformer class of type in Options") is consulted for `int` but not for the int inside List[int]
class Scoped(TypeTransformer):
    registry = TypeRegistry("scoped", base=TypeTransformer.registry, shortcut="__transformer__", cache=True)


@Scoped.registry.register(float)
def scoped_float(transformer, data, t):
    return float(data) + 0.5


class S2(Schema):
    __options__ = Options(transformer_cls=Scoped)
    bare: float
    lst: List[float]


s2 = S2(bare="1", lst=["1"])
print("scoped registry         :", s2)
if s2.bare != 1.5:
    bad.append("scoped registry ignored for a bare field")   # not expected
if s2.lst != [1.5]:
    bad.append(f"scoped registry used for `float` but ignored for the element of List[float] (got {s2.lst!r})")

for b in bad:
    print("VIOLATION:", b)
sys.exit(1 if bad else 0)
