#!/usr/bin/env python3
"""Rewrites the generated blocks of DESIGN.md (seeded-change table, repository fixes, open findings, mutants)
from seeded/RESULTS.json, seeded/*/meta.json, known_findings.json, vmon/selftest/last_results.json and /repo's git log."""
import json, os, re, subprocess, sys
HERE = os.path.dirname(os.path.dirname(os.path.abspath(__file__)))
sys.path.insert(0, HERE)


def block(name, text, doc):
    a, b = f"<!-- BEGIN GENERATED:{name} -->", f"<!-- END GENERATED:{name} -->"
    if a not in doc:
        raise SystemExit(f"marker {name} missing in DESIGN.md")
    return doc[:doc.index(a) + len(a)] + "\n" + text.rstrip() + "\n" + doc[doc.index(b):]


def seeded_table():
    res = {r["seeded"]: r for r in json.load(open(os.path.join(HERE, "seeded", "RESULTS.json")))}
    rows = ["| change | what it does (one line, from the sub-agent's note) | files | caught by (quick tier) | first mechanism key reported |", "|---|---|---|---|---|"]
    for name in sorted(os.listdir(os.path.join(HERE, "seeded"))):
        mp = os.path.join(HERE, "seeded", name, "meta.json")
        if not os.path.exists(mp):
            continue
        m = json.load(open(mp))
        title = ((m.get("needs_to_manifest", "").strip().splitlines() or [m.get("title") or "(see patch.diff)"])[0]).lstrip("# ").strip()
        title = re.sub(r"^C\d\d\s*/\s*[ab]\s*[—-]\s*", "", title)
        r = res.get(name)
        if m.get("retired"):
            caught, key = "retired: " + m["retired"][:140], ""
        elif not r:
            caught, key = "not run", ""
        else:
            c = [k for k, v in r["checks"].items() if v["caught"]]
            miss = [k for k, v in r["checks"].items() if not v["caught"]]
            caught = ", ".join(c) if c else "**missed**"
            if c and miss:
                caught += f" (not by {', '.join(miss)})"
            key = ""
            for k in c:
                ks = r["checks"][k]["keys"]
                if ks:
                    key = "`" + ks[0].split(" count=")[0].replace("key=", "").replace("|", "\\|") + "`"
                    break
        note = " *(rebased after a repository fix)*" if m.get("rebased") else ""
        rows.append(f"| {name} | {title[:170].replace('|', '/')}{note} | {', '.join(os.path.basename(f) for f in m.get('files_changed', []))} | {caught} | {key} |")
    return "\n".join(rows)


def fixes_table():
    log = subprocess.run(["git", "-C", "/repo", "log", "--format=%h %s"], capture_output=True, text=True).stdout.splitlines()
    k = json.load(open(os.path.join(HERE, "known_findings.json")))
    prop = {}
    for f in k["fixed"]:
        mm = re.match(r"fixed: property=(C\d\d) (\w+)", f)
        if mm:
            prop.setdefault(mm.group(2)[:7], []).append(mm.group(1))
    rows = ["| commit | property | defect repaired (commit subject) |", "|---|---|---|"]
    for l in reversed(log):
        h, s = l.split(" ", 1)
        if s.startswith("fix:"):
            rows.append(f"| {h} | {', '.join(sorted(set(prop.get(h[:7], ['?']))))} | {s[4:].strip()} |")
    return "\n".join(rows)


def open_table():
    k = json.load(open(os.path.join(HERE, "known_findings.json")))
    rows = ["| property | mechanism key | what fails |", "|---|---|---|"]
    for o in k["open"]:
        rows.append(f"| {o['property']} | `{o['key']}` | {o['what'][:260].replace('|', '/')}{'…' if len(o['what']) > 260 else ''} |")
    return "\n".join(rows)


def mutant_table():
    p = os.path.join(HERE, "vmon", "selftest", "last_results.json")
    from vmon.selftest.mutants import MUTANTS
    last = {}
    if os.path.exists(p):
        d = json.load(open(p))
        for r in d if isinstance(d, list) else d.get("results", []):
            last[r.get("mutant")] = r
    rows = ["| mutant | kind | must be caught by | last run |", "|---|---|---|---|"]
    for m in MUTANTS:
        r = last.get(m["name"])
        st = "not run"
        if r:
            ch = r.get("checks") or {}
            st = ", ".join(f"{c}:{'caught' if v.get('caught') else 'MISSED'}" for c, v in ch.items()) or str(r.get("status", ""))
        rows.append(f"| {m['name']} | {'revert of fix ' + m['revert'] if 'revert' in m else 'edit'} | {', '.join(m['props'])} | {st} |")
    return "\n".join(rows)


def status_table():
    sys.path.insert(0, os.path.join(HERE, "tools"))
    import gen_manifest
    rows = ["| id | deciding monitor | quick: evaluations / distinct non-trivial / wall | thorough: evaluations / distinct / wall | open findings seen |", "|---|---|---|---|---|"]
    for pid, (tech, *_rest) in sorted(gen_manifest.CHECKS.items()):
        cells = []
        kf = ""
        for tier in ("quick", "thorough"):
            f = os.path.join(HERE, "runs", f"{pid}.{tier}.json")
            if os.path.exists(f):
                r = json.load(open(f))
                cells.append(f"{r['evaluations']:,} / {r['distinct_nontrivial']:,} / {r['wall_s']} s")
                kf = str(r["known_findings_seen"])
            else:
                cells.append("not yet run on this tree")
        rows.append(f"| {pid} | {tech} | {cells[0]} | {cells[1]} | {kf} |")
    return "\n".join(rows)


def main():
    p = os.path.join(HERE, "DESIGN.md")
    doc = open(p).read()
    doc = block("status", status_table(), doc)
    doc = block("seeded", seeded_table(), doc)
    doc = block("fixes", fixes_table(), doc)
    doc = block("open", open_table(), doc)
    doc = block("mutants", mutant_table(), doc)
    open(p, "w").write(doc)
    print("DESIGN.md tables regenerated")


if __name__ == "__main__":
    main()
