#!/usr/bin/env python3
"""Re-create a seeded patch by hand-written edits on the current tree, verify it (tests green, demo fails with / passes
without) and store it.  usage: from a python snippet: reseed(name, [(file, old, new), ...], note)"""
import json, os, shutil, subprocess, sys, tempfile
HERE = os.path.dirname(os.path.dirname(os.path.abspath(__file__)))

def reseed(name, edits, note):
    d = tempfile.mkdtemp(prefix="reseed-")
    try:
        subprocess.run(["rsync", "-a", "--exclude", ".git", "--exclude", "__pycache__", "/repo/", d + "/"], check=True)
        for f, old, new in edits:
            p = os.path.join(d, f); s = open(p).read()
            if s.count(old) != 1:
                print(name, "ANCHOR occurs %dx in %s" % (s.count(old), f)); return False
            open(p, "w").write(s.replace(old, new))
        diff = ""
        for f in sorted({e[0] for e in edits}):
            r = subprocess.run(["diff", "-u", "/repo/" + f, os.path.join(d, f)], capture_output=True, text=True).stdout
            diff += r.replace("/repo/" + f, "a/" + f).replace(os.path.join(d, f), "b/" + f)
        env = dict(os.environ, PYTHONPATH=d, PYTHONDONTWRITEBYTECODE="1")
        t = subprocess.run(["/venv/bin/python", "-m", "pytest", "-q", "-x", "-p", "no:cacheprovider", "-W", "ignore", "tests"], cwd=d, env=env, capture_output=True, text=True)
        demo = os.path.join(HERE, "seeded", name, "demo.py")
        rc1 = subprocess.run(["timeout", "300", "/venv/bin/python", "-W", "ignore", demo], cwd="/tmp", env=env, capture_output=True).returncode
        rc0 = subprocess.run(["timeout", "300", "/venv/bin/python", "-W", "ignore", demo], cwd="/tmp", env=dict(os.environ, PYTHONPATH="/repo", PYTHONDONTWRITEBYTECODE="1"), capture_output=True).returncode
        ok = t.returncode == 0 and rc1 != 0 and rc0 == 0
        print(name, "tests_green", t.returncode == 0, "demo patched rc", rc1, "clean rc", rc0, "->", "STORED" if ok else "NOT VALID")
        if not ok and t.returncode != 0:
            print("   ", t.stdout.strip().splitlines()[-1][:200])
        if ok:
            open(os.path.join(HERE, "seeded", name, "patch.diff"), "w").write(diff)
            mp = os.path.join(HERE, "seeded", name, "meta.json"); m = json.load(open(mp))
            m["rebased"] = ((m.get("rebased") + " | ") if m.get("rebased") else "") + note + " (tests 115 green, demo rc %s patched / 0 clean)" % rc1
            json.dump(m, open(mp, "w"), indent=1)
        return ok
    finally:
        shutil.rmtree(d, ignore_errors=True)
