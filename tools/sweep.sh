#!/bin/bash
# usage: tools/sweep.sh quick "0 1 2 3" [ids...]   -- runs ./check for every id x seed, prints the summary / violation lines
tier=${1:-quick}; seeds=${2:-"0 1 2"}; shift 2
ids=${@:-"C01 C02 C03 C04 C05 C06 C07 C08 C09 C10 C11 C12 C13 C14 C15 C16 C17 C18 C19 C20"}
cd "$(dirname "$0")/.."
for s in $seeds; do for p in $ids; do
  out=$(VERIF_OUT=${SWEEP_OUT:-/tmp/sweep-out} ./check $p --tier $tier --seed $s 2>&1); rc=$?
  echo "$out" | grep -v "^KNOWN" | grep -v "^  key=" | tail -3 | cut -c1-400 | sed "s/^/rc=$rc /"
done; done
