#!/usr/bin/env python3
"""Runs every hunt/<prop>/finding_k.py against the repository (exit 1 = violation present, 0 = absent)."""
import glob, os, subprocess, sys, json
HERE = os.path.dirname(os.path.dirname(os.path.abspath(__file__)))
repo = os.environ.get("VERIF_REPO", "/repo")
out = {}
for f in sorted(glob.glob(os.path.join(HERE, "hunt", "C*", "finding_*.py"))):
    pid = f.split(os.sep)[-2]
    try:
        p = subprocess.run(["/venv/bin/python", "-W", "ignore", f], env=dict(os.environ, PYTHONPATH=repo, PYTHONDONTWRITEBYTECODE="1"), capture_output=True, text=True, timeout=180, cwd="/tmp")
        rc = p.returncode
    except subprocess.TimeoutExpired:
        rc = "timeout"
    out[f"{pid}/{os.path.basename(f)}"] = rc
present = [k for k, v in out.items() if v == 1]
print(json.dumps(out, indent=0))
print(f"{len(out)} findings: {len(present)} present, {sum(1 for v in out.values() if v == 0)} absent, {sum(1 for v in out.values() if v not in (0, 1))} other")
