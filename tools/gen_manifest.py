#!/usr/bin/env python3
"""Regenerates MANIFEST.json from the table below (keeps it schema-valid at all times)."""
import json, os
HERE = os.path.dirname(os.path.dirname(os.path.abspath(__file__)))
CHECKS = {
 "C01": ("type-directed conformance monitor at the API boundary + icontract postcondition on Rule.parse, over generated declarations",
         "Every accepted parse of ~3e5 (quick) / ~1e7 (thorough) generated (declaration, route, options, input) executions is judged by an independent conformance predicate; held = no accepted value was non-conforming on what was explored. Exploration, not proof: reach comes from declaration+input generators aimed at each converter branch.",
         "Trusted: vmon/typespec.py conforms() and oracles/constraints_ref.py (written from the docs). Known findings (abstract Sequence/Iterable/Iterator origins; strict-then-lax order) are listed in known_findings.json.", "§4 C01"),
 "C02": ("boundary-value exactness monitor against documented constraint semantics (exact arithmetic) + isinstance agreement",
         "Every well-typed boundary value of every generated legal constraint set is judged accept<=>reference, result==input, isinstance agrees.",
         "Trusted: oracles/constraints_ref.py; undefined cases (const tolerance pairs) skipped and counted.", "§4 C02"),
 "C03": ("two-run re-parse relation monitor with mechanism diagnosis (locate innermost non-fixed-point node)",
         "r2 = T(T(x)) must equal r1 = T(x) (type- and NaN-aware) for generated types incl. unions and data classes; lax outputs on exact domains must satisfy the strict form.",
         "Trusted: values.approx_eq, constraints_ref. Nine mechanism-keyed known findings (lax carry/drift/order, union/xor/and re-resolution) are listed; anything else is a violation.", "§4 C03"),
 "C05": ("model-vs-implementation monitor: a reference model of the documented field contract predicts the key view, the attribute view or the set of failure kinds; every lookup strategy of the real parser must agree",
         "Over declarations spanning the Field parameter space and class Options, and inputs over names/aliases/case variants/unknown keys: which value lands under which name in which view, which absences / exceeding keys / dependency gaps / parameter counts are errors, defaults copied fresh, deferred defaults on attribute access.",
         "Trusted: vmon/oracles/field_model.py (written from docs/en/references/field.md + options.md; says 'skip' where they are silent; skips are counted in the evidence). Leaf conversions are taken from the library. Three defects found and repaired in /repo.", "§4 C05"),
 "C06": ("strategy-differential monitor: each generated (declaration, input, options) parsed with data_first_search on and off (runtime and class Options routes), fail-fast and with collect_errors",
         "Both strategies must accept with equal key and attribute views, or fail with the same kind ((kind,item) multisets under collect_errors), over declarations spanning the Field parameter space and inputs with aliases, case variants, duplicate spellings, unknown keys, absent fields and invalid values.",
         "Relation between two runs of the library (no reference model). Four divergences repaired in /repo; three mechanism-keyed known findings remain (recognised by the parser's own field facts + outcome shape).", "§4 C06"),
 "C07": ("history invariant monitor: generated mutation histories on data-class instances with invariants I1-I7 evaluated from the driver at every quiescent point over full snapshots of the mapping, attribute and __dict__ views",
         "After every setattr/delattr/__setitem__/__delitem__/update/pop/popitem/setdefault/clear/|=/copy step: present fields conform (no unparsed data, no sentinel), required present, immutable unchanged (Field(immutable) and Final), views agree, dependent properties recomputed, a failed single-key operation changed nothing, copy and original independent.",
         "Invariants are the harness's (check_invariants in vmon/props/c07.py); icontract invariants are not used because they do not fire for dict methods Schema inherits. Six defects found and repaired in /repo.", "§4 C07"),
 "C08": ("binding monitor: generated signatures (source text) whose body records its locals; expected binding from inspect.Signature.bind + defaults + expected conversions; generator traces of decorated vs raw function under the same next/send script",
         "Every bindable call must give the body exactly Python's binding with converted annotated values, for positional / keyword / alias spellings, *args / **kwargs, defaults, methods / classmethods / staticmethods in both decorator orders, coroutines; a failing parameter must raise ParseError before the body runs; results conform to the return annotation; sync and async generators (eager / lazy) yield, receive and return what the raw generator does, converted.",
         "Trusted: inspect.Signature.bind. Private (underscore) parameters follow the documented rules (not parsed, not passable by keyword). Two defects repaired in /repo (default slide past a private positional-only parameter; async generator asend), one known finding (staticmethod heuristic).", "§4 C08"),
 "C09": ("combinator semantics monitor: argument-relative oracle (each argument evaluated alone on the original input, per union stage), all permutations of ^, structural construction algebra",
         "For generated combinator nodes over disagreeing argument types: | accepts <=> some argument accepts in one of the three stages and returns an accepting argument's output (exact-type inputs returned unchanged); ^ accepts <=> exactly one argument accepts, identically for every argument order; ~ accepts <=> argument rejects, returning the input object; & equals the left fold. ~~T, duplicate/Any absorption, same-kind flattening and operator order with data classes are checked on the built types.",
         "Argument verdicts come from the library itself on fresh contexts (relation between runs). One known finding (^ exact-type shortcut). One-shot inputs skipped.", "§4 C09"),
 "C13": ("schema-vs-parser monitor: generated documents checked by the independent jsonschema validator (check_schema; encoded parser outputs against the output document) and structural probes of the real parser against the input document's properties / required / additionalProperties",
         "Over generated types in the JSON-expressible negation-free fragment and generated data classes in modes {None,r,w,a} (mode through class Options and through the generator argument), input and output views, with and without $defs.",
         "Trusted: the jsonschema package (Draft 2020-12, no format assertion). Five defects repaired in /repo (generator mode argument, case-folded property names, output-view required/dependentRequired, bool leaking from int conversion); five mechanism-keyed known findings remain.", "§4 C13"),
 "C14": ("encode/parse round-trip monitor with a strict-JSON reader: instance -> json.dumps(cls=JSONEncoder) -> standard-JSON check -> Cls.__from__(text) -> field-wise type-aware equality",
         "Over generated data classes whose instances are drawn from the JSON-faithful domain the property states (all listed scalar types, containers, nesting; offsets of both signs incl. seconds; negative/sub-second durations; JS-unsafe numbers; +-inf): encoding succeeds, the text is standard JSON, and the re-parsed instance is equal.",
         "Trusted: json (stdlib) as the strict reader, eq() in vmon/props/c14.py. Two known findings (Infinity token; attribute-based DataClass has no encoder); one defect repaired (negative UTC offsets).", "§4 C14"),
 "C15": ("schema-built-type monitor: generated schema documents over the supported keyword fragment are built with JsonSchemaParser and every value the built type returns under strict options is validated against the source document by the independent jsonschema package",
         "Building must succeed for every generated document (odd property names included); every accepted result, JSON-encoded, must validate against its source schema. Rejections of valid instances (stricter) are counted, not judged.",
         "Trusted: the jsonschema package. Seven defects repaired in /repo; eleven mechanism-keyed known findings remain (recognised by document shape + failing keyword), which narrows what this check can still see around oneOf, prefixItems extras and minProperties.", "§4 C15"),
 "C16": ("history + executable sequential model over uniquely tagged registrations; bounded-exhaustive histories on a fresh TypeRegistry, random histories incl. base registries and the library's global transformer/encoder registries",
         "Every read (resolve / type_transform / plain-typed Schema field / json.dumps) in every history of length <= 5 (quick; 6 thorough) over a 13-symbol alphabet, plus random longer histories, must return the registration the no-cache 'highest priority, most recent wins' model predicts. Exhaustive for the stated alphabet and bound; exploration beyond it.",
         "Trusted: model_resolve()/matches() in vmon/props/c16.py (25 lines). Two defects found and repaired in /repo (b8f56f5, 28f56ca).", "§4 C16"),
 "C17": ("spelling/order differential monitor: generated systems of mutually referencing data classes materialised as source text under several spellings of each reference, definition orders and first-use orders, every variant judged against the outcome the system's shape determines",
         "Direct / 'Name' / 'Name' inside a generic / whole-annotation string / postponed evaluation / function-local classes; same late name in several annotations; constrained references (Field bounds on a late plain class, max_length on a reference list); function parameters, *args and return type; shadowed simple names (local / nested / redefined class); results must match from the first call on and on the second pass.",
         "Expected values are computed from the shape (ints and nesting only). Class names are unique per variant; the process-wide typing ForwardRef cache is exercised by a dedicated scenario (known finding). One defect repaired in /repo (same late name in several annotations).", "§4 C17"),
 "C18": ("depth biconditional monitor over generated recursive declarations and positioned inputs + deterministic work counting (counting leaf converter, sys.monitoring LINE steps) with a growth-ratio oracle",
         "accept <=> nesting depth <= max_depth for chains through every link kind and position (list index 0/1/last, dict keys incl. '' and float keys, tuple slots, union branches, mutual recursion, cyclic inputs); work curves for depth 3..7 (8 thorough) and width 10..640 over every (link, flag set, leaf kind) combination must not grow by >1.9x per level throughout.",
         "Bounded restatement of 'at most polynomial' (ratio test over the stated range). The known exponential (staged union retries) is keyed by stage count; exponential growth under strict options or beyond stage count is a new violation. Step counts need sys.monitoring (inconclusive without).", "§4 C18"),
 "C10": ("error-collection differential monitor: fail-fast vs collect_errors vs max_errors 1..3 on the same input, with singleton probes deciding which top-level items fail on their own",
         "Same verdict and equal value with collection on/off; for rejected inputs exactly one CollectedParseError naming exactly the individually failing items once each, never a valid one, and exactly min(max_errors, #failing) of them when capped; over generated data classes/functions with nested, union, conjunction and nested-class field types.",
         "Probes and both runs use the library itself (relation between runs). Declarations avoid no_input/mode/dependencies/duplicate spellings (C05/C06).", "§4 C10"),
 "C11": ("policy metamorphic monitor: expected result rebuilt from per-element singleton probes (offending elements removed / put back unchanged), for every container kind, data-class fields with per-field on_error, typed addition and *args, over the 27 policy triples",
         "exclude == strict conversion of the input minus exactly the offending elements; preserve == that with the offending elements unchanged at their positions; positional exclusion rejects; a required field is never silently excluded; nested one level.",
         "Element verdicts/conversions come from the library under 'throw' (relation between runs); container reconstruction is the harness's (expected() in vmon/props/c11.py). One known finding (set targets built from raw input).", "§4 C11"),
 "C12": ("preference monitor at type_transform: subset/agreement relation between flag sets + independent promise predicates; hostile pool x targets exhaustive",
         "For every (source, target) pair of the hostile pool x 36 targets (quick, exhaustive over the pools) and 4e5 generated sources (thorough): a conversion that succeeds under no_explicit_cast / no_data_loss / both must succeed without flags with an equal same-type value; no_data_loss results must keep the listed promises; no_explicit_cast results must stay inside the documented primitive group.",
         "Trusted: promise_ndl()/src_groups() in vmon/props/c12.py (written from docs/en/references/options.md). Four mechanism-keyed known findings. Data classes receive runtime flags through __from__ (type_transform keeps a class's own options).", "§4 C12"),
 "C19": ("purity monitor: structural input snapshots around every parse (P1), container id-graphs + post-parse mutation of defaulted fields (P2), and call histories whose probe outcome is compared with a fresh process forked from an import-only zygote (P3)",
         "P1: no input object is modified by an accepted or rejected parse, on every route and policy; P2: nested mutable defaults (plain, Field(default), default_factory; Schema, DataClass, functions) are never shared between instances, calls and the declaration; P3: the outcome of a probe parse after a history of valid/invalid/collecting parses equals its outcome in a process that never ran the history.",
         "Trusted: values.snapshot / containers() / the fork-based helper (vmon/props/c19_helper.py). One known finding (typing's shared ForwardRef objects carry utype's evaluated state across same-named classes of different modules).", "§4 C19"),
 "C04": ("exception-class monitor at the API boundary + sys.monitoring logical-step watchdog with loop-signature confirmation",
         "Every rejected call must raise ParseError; every call must finish within 3e6 LINE events in utype/ (confirmed at 3e7 with a <=12-line loop signature); failing calls must not have entered the function body / __validate__.",
         "Bounded restatement of 'never loops': budget 3 orders of magnitude above the largest terminating call seen (reported in evidence). C-level hangs are only seen by the wall-clock net (inconclusive).", "§4 C04"),
}
def main():
    checks = []
    for pid, (tech, text, note, ref) in sorted(CHECKS.items()):
        if not os.path.exists(os.path.join(HERE, "vmon", "props", pid.lower() + ".py")):
            continue
        checks.append({"property_id": pid, "quick_cmd": f"./check {pid} --tier quick", "thorough_cmd": f"./check {pid} --tier thorough",
                       "evidence_file": f"evidence/{pid}.json", "replay_cmd_template": f"./check {pid} --replay {{path}}",
                       "engine": "vmon", "level_claimed": {"category": "exploration", "text": text, "design_ref": "DESIGN.md " + ref},
                       "level_note": note, "technique": "runtime monitoring: " + tech})
    claimed = {c["property_id"] for c in checks}
    na = [{"property_id": f"C{i:02d}", "reason": "check not built yet in this session (planned; see DESIGN.md §6 build order)"}
          for i in range(1, 21) if f"C{i:02d}" not in claimed]
    m = {"version": 1, "setup_cmd": "./setup.sh",
         "hooks": {"guard": "UTYPE_VERIF_MONITORS",
                   "enable": "harness-side: ./check exports UTYPE_VERIF_MONITORS=1; vmon.monitors.* wrap class attributes with icontract / register sys.monitoring callbacks at run time; /repo carries no hook code",
                   "baseline_off_cmd": "cd /repo && /venv/bin/python -m pytest -ra -q -p no:cacheprovider --timeout=900 --continue-on-collection-errors",
                   "source_commits": [], "add_only": True},
         "engines": [{"name": "vmon", "path": "vmon/", "serves_properties": sorted(claimed),
                      "kind_free_text": "runtime monitoring harness: seeded workload generators (declarations + inputs + histories + schedules), boundary oracles, icontract/sys.monitoring monitors, sharded runner"}],
         "checks": checks, "not_applicable": na,
         "notes": "All checks: exit 0 held / 1 VIOLATION / 2 inconclusive. known_findings.json lists open (mechanism-keyed) and fixed findings."}
    json.dump(m, open(os.path.join(HERE, "MANIFEST.json"), "w"), indent=1)
    print("checks:", sorted(claimed))
main()
