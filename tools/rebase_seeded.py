#!/usr/bin/env python3
"""Rebase a seeded patch that no longer applies: find the newest commit of /repo where it applies, commit it there in a
scratch clone, cherry-pick that commit onto HEAD (3-way merge), and verify (tests green, demo fails with / passes without).
usage: tools/rebase_seeded.py C16-a [...]"""
import json, os, shutil, subprocess, sys, tempfile
HERE = os.path.dirname(os.path.dirname(os.path.abspath(__file__)))

def sh(cmd, cwd=None, inp=None, env=None):
    return subprocess.run(cmd, cwd=cwd, input=inp, text=True, capture_output=True, env=env)

def main(names):
    commits = sh(["git", "-C", "/repo", "log", "--format=%H"]).stdout.split()
    for name in names:
        d = os.path.join(HERE, "seeded", name)
        patch = open(os.path.join(d, "patch.diff")).read()
        work = tempfile.mkdtemp(prefix="rebase-")
        try:
            sh(["git", "clone", "-q", "/repo", work])
            base = None
            for c in commits:
                sh(["git", "checkout", "-q", c], cwd=work)
                if sh(["git", "apply", "--check", "-p1", "-"], cwd=work, inp=patch).returncode == 0:
                    base = c
                    break
            if base is None:
                print(name, "NO BASE FOUND"); continue
            sh(["git", "apply", "-p1", "-"], cwd=work, inp=patch)
            sh(["git", "-c", "user.email=x@x", "-c", "user.name=x", "commit", "-qam", "seeded"], cwd=work)
            seeded_commit = sh(["git", "rev-parse", "HEAD"], cwd=work).stdout.strip()
            sh(["git", "checkout", "-q", commits[0]], cwd=work)
            r = sh(["git", "-c", "user.email=x@x", "-c", "user.name=x", "cherry-pick", seeded_commit], cwd=work)
            if r.returncode != 0:
                print(name, "CONFLICT (base %s): %s" % (base[:7], (r.stdout + r.stderr).strip().splitlines()[-1][:120]))
                continue
            newpatch = sh(["git", "diff", commits[0], "HEAD"], cwd=work).stdout
            env = dict(os.environ, PYTHONPATH=work, PYTHONDONTWRITEBYTECODE="1")
            t = sh(["/venv/bin/python", "-m", "pytest", "-q", "-x", "-p", "no:cacheprovider", "-W", "ignore", "tests"], cwd=work, env=env)
            tests_ok = t.returncode == 0
            demo = os.path.join(d, "demo.py")
            rc1 = sh(["timeout", "300", "/venv/bin/python", "-W", "ignore", demo], cwd="/tmp", env=env).returncode
            rc0 = sh(["timeout", "300", "/venv/bin/python", "-W", "ignore", demo], cwd="/tmp", env=dict(os.environ, PYTHONPATH="/repo", PYTHONDONTWRITEBYTECODE="1")).returncode
            ok = tests_ok and rc1 != 0 and rc0 == 0
            print(name, "base", base[:7], "tests_green", tests_ok, "demo patched rc", rc1, "clean rc", rc0, "->", "REBASED" if ok else "NOT VALID ANY MORE")
            if ok:
                open(os.path.join(d, "patch.diff"), "w").write(newpatch)
                mp = os.path.join(d, "meta.json"); m = json.load(open(mp))
                m["rebased"] = (m.get("rebased", "") + " | " if m.get("rebased") else "") + "re-applied by 3-way merge onto %s (from %s): tests green, demo rc %s patched / 0 clean" % (commits[0][:7], base[:7], rc1)
                json.dump(m, open(mp, "w"), indent=1)
        finally:
            shutil.rmtree(work, ignore_errors=True)

if __name__ == "__main__":
    main(sys.argv[1:])
