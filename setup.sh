#!/bin/sh
# Idempotent, offline: installs the third-party pieces the monitors use (icontract, jsonschema)
# beside the repository's interpreter, into the git-ignored /verif/.deps.
set -e
cd "$(dirname "$0")"
if [ -f .deps/.ok ]; then exit 0; fi
mkdir -p .deps
PIP_NO_INDEX=1 /venv/bin/pip install --quiet --no-index --find-links /opt/veriftools/wheels \
    --target .deps icontract jsonschema >/dev/null 2>.deps/pip.err || { cat .deps/pip.err >&2; exit 3; }
touch .deps/.ok
