"""C06 — the result does not depend on the field-lookup strategy.

Differential monitor: the same (declaration, input, options) is parsed with data_first_search=True
and False (runtime Options route and class Options route); outcomes must agree: equal data and
attribute views when both accept, the same failure kind otherwise."""
from .. import declspec as D
from .. import values as V
from ..execu import run
from ..runner import short

ID = "C06"
N = {"quick": 36000, "thorough": 300000}
TIME_BUDGET = {"quick": 45, "thorough": 480}
MIN_NONTRIVIAL = {"quick": 300, "thorough": 3000}
RULE = ("cases = generated declaration (Schema / DataClass / @parse function with keyword parameters; 1-5 fields over the Field "
        "parameter space: required incl. mode strings, default / default_factory / defer_default, alias, alias_from, case_insensitive, "
        "no_input / no_output (bool, mode string, callable), mode/readonly/writeonly, dependencies, on_error; class Options: mode, "
        "case_insensitive, addition (True/False/int), ignore_required, no_default, force_default, defer_default, "
        "ignore_alias_conflicts, min/max_params, invalid_values) x 6 input mappings (each field absent / one spelling / wrong-case "
        "spelling / two spellings with equal, different or raw-unequal-but-convertibly-equal values; valid / convertible / invalid "
        "values; 0-2 unknown keys incl. underscore names and case variants), each parsed once per strategy, fail-fast and with "
        "collect_errors. Strategy chosen through runtime Options or through class Options (two classes). Non-trivial = the two "
        "runs could differ: the input uses an alias / case variant / duplicate spelling / unknown key / absent field, or fails; "
        "distinct = (declaration shape, input plan, outcome).")
ASSUMPTIONS = [
    "under fail-fast an input with several failing items may legitimately stop at different items per strategy (iteration order is not specified): failure kinds are compared only when collect_errors shows a single failing item; with several, the sets of (kind, item) under collect_errors are compared",
    "equality of accepted data is order-insensitive dict equality, type-aware and NaN-aware, over both the key view and the attribute view",
]


def n_cases(tier):
    return N[tier]


def make_case(i, rng, tier):
    decl = D.gen_decl(rng)
    inputs = [D.gen_input(rng, decl) for _ in range(6)]
    if decl["base"] != "function" and rng.random() < 0.2:
        # the class inherits from a base that declared some of its fields under OTHER aliases; the re-declaration replaces them,
        # so the base's spellings are unknown keys for the subclass, whatever the lookup strategy
        parent = []
        for f in rng.sample(decl["fields"], rng.randint(1, len(decl["fields"]))):
            # (the library only allows a re-declaration under the same output name: the input aliases are what differs)
            g = dict(f, alias_from=["%s_old" % f["name"]], dependencies=[])
            parent.append(g)
        decl["parent"] = parent
        for pairs, plan in inputs:
            for g in parent:
                if rng.random() < 0.5:
                    vals = D.type_info(g["type"])[1]
                    pairs.insert(rng.randrange(len(pairs) + 1), (rng.choice(g["alias_from"]), rng.choice(vals)))
    # "runtime-bare": the runtime options carry the strategy only, i.e. they REPLACE the options the class was declared with
    return {"decl": decl, "inputs": inputs, "route": rng.choice(["runtime", "runtime", "class", "runtime-bare"]), "carrier": rng.random() < 0.12}


def views(obj, decl):
    """-> (key view or None, attribute view)"""
    if decl["base"] == "function":
        return None, obj
    kv = dict(obj) if decl["base"] == "Schema" else None
    av = {}
    for f in decl["fields"]:
        try:
            av[f["name"]] = getattr(obj, f["name"])
        except AttributeError:
            pass
        except Exception as e:
            av[f["name"]] = "<getattr raised %s>" % type(e).__name__
    if decl["base"] == "DataClass":
        extra = {k: v for k, v in obj.__dict__.items() if not k.startswith("__") and k not in av}
        av.update(extra)
    return kv, av


def kinds(e, top=True):
    """sorted list of (exception class, item) of the top-level errors"""
    errs = getattr(e, "errors", None)
    if errs:
        out = []
        for x in errs:
            out += kinds(x, False)
        return sorted(out)
    return [(type(e).__name__, str(getattr(e, "item", None)))]


def carrier(decl, data):
    """the same values held by an INSTANCE of another Schema class: its items() show keys the target does not know ('cx_<name>'),
    while its `in` and `[]` also answer to the attribute names - which are names the target accepts"""
    import typing
    import utype
    ns = {"__annotations__": {}, "__module__": "vmon_generated", "__qualname__": "Carrier", "__options__": utype.Options(addition=True)}
    kw = {}
    for f in decl["fields"]:
        acc = D.spellings(f, decl)[0]
        given = [k for k in data if k in acc]
        if not given or not f["name"].isidentifier():
            continue
        ns["__annotations__"][f["name"]] = typing.Any
        ns[f["name"]] = utype.Field(alias="cx_" + f["name"], required=False)
        kw["cx_" + f["name"]] = data[given[0]]
    rest = {k: v for k, v in data.items() if not any(k in D.spellings(f, decl)[0] for f in decl["fields"])}
    C = type(utype.Schema)("Carrier", (utype.Schema,), ns)
    try:
        return C.__from__(dict(kw, **rest))
    finally:
        D.drop(C)


def _fresh(d):
    return dict(d) if type(d) is dict else d.copy()


def call(target, decl, data, opts_extra):
    """-> Outcome (value = (key view, attr view))"""
    def thunk():
        if decl["base"] == "function":
            if opts_extra is None:
                r = target(**data)
            else:
                raise RuntimeError("functions take the strategy from their declaration options")
            return views(r, decl)
        if opts_extra is None:
            inst = target.__from__(data)
        else:
            bare = opts_extra.pop("__bare__", False) if "__bare__" in opts_extra else False
            inst = target.__from__(data, options=D.make_options({} if bare else decl["options"], **opts_extra))
        return views(inst, decl)
    return run(thunk)


def features(decl, plan, pairs):
    fs = set()
    for f in decl["fields"]:
        p = plan.get(f["name"])
        if p == "absent":
            fs.add("absent")
            if f["default"] is not D.NODEF or f["factory"]:
                fs.add("absent+default")
        elif p:
            vk, ks = p
            if len(ks) > 1:
                fs.add("two-spellings")
            if any(k != f["name"] for k in ks):
                fs.add("alias-or-case")
            if f["no_input"] is not None or f["mode"] or f["readonly"] or f["writeonly"]:
                fs.add("no_input-provided")
            if vk == "invalid":
                fs.add("invalid")
            if f["dependencies"]:
                fs.add("dependencies")
    names = set()
    for f in decl["fields"]:
        names |= set(D.spellings(f, decl)[0]) | set(D.spellings(f, decl)[1])
    if any(k not in names for k, _ in pairs):
        fs.add("unknown-key")
    return fs


def diagnose(decl, target, data):
    """structural facts about the case, read from the parser's own field objects (diagnosis only)"""
    facts = {"multi": [], "multi_diff": []}
    try:
        parser = getattr(target, "__parser__", None)
        opts = D.make_options(decl["options"])
        by_field = {}
        for k, v in data.items():
            fld = parser.get_field(str(k))
            if fld is not None:
                by_field.setdefault(fld.attname, (fld, []))[1].append(v)
        for an, (fld, vals) in by_field.items():
            # values that are not taken as input play no part (both strategies ignore them since the repairs in /repo)
            taken = [x for x in vals if not fld.is_no_input(x, options=opts)]
            if len(taken) > 1:
                facts["multi"].append(an)
                if any(not V.approx_eq(taken[0], x) for x in taken[1:]):
                    facts["multi_diff"].append(an)
    except Exception as e:
        facts["diagnosis_error"] = type(e).__name__
    return facts


def classify(decl, target, data, shape, a, b):
    """mechanism key.  The listed finding is recognised by structure AND outcome shape; everything
    else gets a generic key (a new violation)."""
    f = diagnose(decl, target, data)
    o = decl["options"]
    ea = type(a.exc).__name__ if not a.ok else None
    eb = type(b.exc).__name__ if not b.ok else None
    if (f["multi"] and o.get("ignore_alias_conflicts")) or (f["multi_diff"] and shape == "collected-errors-differ"):
        # with ignore_alias_conflicts data-first parses every given spelling (the last one wins, any of them may fail)
        # while field-first picks one by alias order; with conflicts reported, which value is parsed besides differs
        return "C06/several-spellings-of-one-field-are-considered-in-a-different-order"
    tags = []
    if f["multi_diff"]:
        tags.append("several-spellings")
    if decl["base"] == "function":
        tags.append("function")
    for k in ("ignore_required", "addition", "no_default", "force_default", "defer_default", "mode"):
        if o.get(k) is not None and len(tags) < 2:
            tags.append(k)
    return f"C06/{shape}/" + ("+".join(tags) or "plain")


def run_case(case, ctx):
    decl = case["decl"]
    built = []
    try:
        try:
            if case["route"] == "class" or decl["base"] == "function":
                TA = D.build(decl, {"data_first_search": True})
                TB = D.build(decl, {"data_first_search": False})
                TAc = D.build(decl, {"data_first_search": True, "collect_errors": True})
                TBc = D.build(decl, {"data_first_search": False, "collect_errors": True})
                built += [TA, TB, TAc, TBc]
                runtime = False
            else:
                TA = TB = TAc = TBc = D.build(decl)
                built.append(TA)
                runtime = True
        except Exception as e:
            ctx.count("declaration_rejected:" + type(e).__name__)
            return
        shp = D.shape(decl)
        for pairs, plan in case["inputs"]:
            data = D.to_mapping(pairs)
            if decl["base"] == "function" and not all(isinstance(k, str) for k in data):
                continue
            if case.get("carrier") and decl["base"] != "function" and all(isinstance(k, str) for k in data):
                try:
                    data = carrier(decl, data)
                    ctx.count("inputs_given_as_an_instance_of_another_schema")
                except Exception:
                    ctx.count("carrier_not_buildable")
            bare = {"__bare__": True} if case["route"] == "runtime-bare" else {}
            if runtime:
                a = call(TA, decl, _fresh(data), dict(bare, data_first_search=True))
                b = call(TB, decl, _fresh(data), dict(bare, data_first_search=False))
            else:
                a = call(TA, decl, _fresh(data), None)
                b = call(TB, decl, _fresh(data), None)
            ctx.count("pairs_run")
            if a.kind == "escape" or b.kind == "escape":
                # a non-ParseError is C04's subject; it is still compared as a failure kind here
                ctx.count("escape_seen")
            wit = {"declaration": D.describe(decl), "input": short(data, 300), "route": ("runtime-options-replacing-the-class-options" if case["route"] == "runtime-bare" else "runtime-options") if runtime else "class-options",
                   "data_first": repr(a), "field_first": repr(b)}
            fs = features(decl, plan, pairs)
            sig = (shp, tuple(sorted((k, str(v)) for k, v in plan.items())), a.ok, b.ok)
            if a.ok != b.ok:
                ctx.violation(classify(decl, TA, data, ("ok" if a.ok else "fail") + "-vs-" + ("ok" if b.ok else "fail"), a, b),
                              f"{D.describe(decl)} input={short(data, 160)}: data-first -> {a!r}; field-first -> {b!r}", wit, sig=sig)
                continue
            if a.ok:
                same = V.approx_eq(a.value[0], b.value[0]) and V.approx_eq(a.value[1], b.value[1])
                if not same:
                    ctx.violation(classify(decl, TA, data, "both-accept-different-data", a, b),
                                  f"{D.describe(decl)} input={short(data, 160)}: data-first -> {short(a.value, 120)}; field-first -> {short(b.value, 120)}",
                                  wit, sig=sig)
                    continue
            else:
                # both fail: compare kinds through collect_errors
                if runtime:
                    ac = call(TAc, decl, _fresh(data), dict(bare, data_first_search=True, collect_errors=True))
                    bc = call(TBc, decl, _fresh(data), dict(bare, data_first_search=False, collect_errors=True))
                else:
                    ac = call(TAc, decl, _fresh(data), None)
                    bc = call(TBc, decl, _fresh(data), None)
                if ac.ok != bc.ok:
                    ctx.violation(classify(decl, TA, data, "collected-errors-differ", ac, bc),
                                  f"{D.describe(decl)} input={short(data, 160)} collect_errors: data-first -> {ac!r}; field-first -> {bc!r}", wit, sig=sig)
                    continue
                if not ac.ok:
                    ka, kb = kinds(ac.exc), kinds(bc.exc)
                    wit["collected"] = {"data_first": ka, "field_first": kb}
                    if ka != kb:
                        ctx.violation(classify(decl, TA, data, "collected-errors-differ", ac, bc),
                                      f"{D.describe(decl)} input={short(data, 160)}: collected (kind,item) data-first {ka} != field-first {kb}", wit, sig=sig)
                        continue
                    if len(ka) == 1 and type(a.exc).__name__ != type(b.exc).__name__ and not (a.kind == "escape" or b.kind == "escape"):
                        ctx.violation(classify(decl, TA, data, "single-failure-different-kind", a, b),
                                      f"{D.describe(decl)} input={short(data, 160)}: {type(a.exc).__name__} vs {type(b.exc).__name__}", wit, sig=sig)
                        continue
            if fs or not a.ok:
                ctx.held(sig)
                if ctx.want_sample() and len(decl["fields"]) > 1 and fs:
                    ctx.sample(wit)
            else:
                ctx.trivial("plain input")
    finally:
        for t in built:
            D.drop(t)


def conclusive(m, tier):
    if m["counters"].get("pairs_run", 0) == 0:
        return "no strategy pair executed"
    return None
