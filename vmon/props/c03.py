"""C03 — parsing is idempotent; lax constraints converge in one step.

Two-run relation monitor: r1 = T(x); r2 = T(r1) with the same options; r2 must exist and be
type-and-NaN-aware equal to r1.  For lax constraints on exact domains r1 must also satisfy the
strict form under the reference semantics (constraints_ref.py)."""
import datetime as dt
from collections import deque
from decimal import Decimal

from .. import typespec as TS
from .. import values as V
from ..execu import run
from ..oracles import constraints_ref as CR
from ..routes import Absent, make_entry
from ..runner import short

ID = "C03"
N = {"quick": 40000, "thorough": 1300000}
TIME_BUDGET = {"quick": 40, "thorough": 540}
MIN_NONTRIVIAL = {"quick": 500, "thorough": 5000}
RULE = ("family A (2/3 of cases): random TypeSpec as C01 with lax constraints switched on in 40% of specs, unions of "
        "overlapping leaves over-sampled, data classes under allow_subclasses=False, x options {}, no_data_loss, "
        "no_explicit_cast, both, x 8 inputs; family B (1/3): every (origin, lax constraint, bound) pair the library "
        "accepts x a numeric/str/sequence pool with rounding-carry values (99.95, 999.5, 0.0009995), negatives for "
        "multiple_of, Decimals at several scales. Non-trivial = first parse accepted, so the re-parse relation (and for "
        "exact domains the strict form) was evaluated; distinct = (spec shape, options, input class).")
ASSUMPTIONS = [
    "equality is type-aware and NaN-aware (1 != 1.0; nan == nan); an equal instance of a sub/superclass of a scalar's type counts as equal (True vs 1): the statement says 'an equal value'",
    "results that are one-shot iterators / file objects cannot be re-parsed meaningfully: skipped",
    "float domains: only the fixed point is required (property text); exact domains: int, Decimal, str, list/tuple",
]
OPTS = [{}, {}, {"no_data_loss": True}, {"no_explicit_cast": True}, {"no_data_loss": True, "no_explicit_cast": True},
        {"allow_subclasses": False}, {"invalid_items": "exclude"}]
OVERLAP_UNIONS = [
    ("or", (("leaf", "bool"), ("leaf", "int"))), ("or", (("leaf", "int"), ("leaf", "float"), ("leaf", "str"))),
    ("or", (("leaf", "int"), ("leaf", "bool"))), ("opt", ("leaf", "int")), ("or", (("leaf", "float"), ("leaf", "Decimal"))),
    ("or", (("leaf", "str"), ("gen", "list", (("leaf", "str"),)))), ("or", (("leaf", "date"), ("leaf", "datetime"))),
    ("or", (("leaf", "datetime"), ("leaf", "date"), ("leaf", "str"))), ("or", (("leaf", "Num"), ("leaf", "int"))),
    ("or", (("leaf", "bytes"), ("leaf", "str"))), ("xor", (("leaf", "int"), ("leaf", "NoneType"))),
    ("or", (("gen", "list", (("leaf", "int"),)), ("gen", "tuple_var", (("leaf", "int"),)))),
    ("or", (("leaf", "Decimal"), ("leaf", "int"))), ("or", (("leaf", "timedelta"), ("leaf", "float"))),
    ("or", (("leaf", "time"), ("leaf", "str"))), ("or", (("leaf", "UUID"), ("leaf", "str"))),
    # constrained arguments: a later argument's (lax) output is convertible by an earlier argument
    ("or", (("con", "int", (("ge", 0),), (), ()), ("con", "str", (("max_length", 2),), ("max_length",), ()))),
    ("or", (("con", "int", (("le", 2),), (), ()), ("con", "float", (("le", 2.5),), ("le",), ()))),
    ("or", (("con", "int", (("ge", 0),), (), ()), ("con", "Decimal", (("decimal_places", 1),), ("decimal_places",), ()))),
    ("or", (("con", "float", (("ge", 0),), (), ()), ("con", "str", (("max_length", 3),), ("max_length",), ()))),
    ("or", (("con", "int", (("multiple_of", 5),), (), ()), ("con", "str", (("regex", r"\d+"),), (), ()))),
]
OVERLAP_INPUTS = ["12abc", "123", "12", "1.5x", 3.7, 2.4, "3.7", 5, 99, -1, "7", "0", 12.25, "12.25", Decimal("3.75"), b"45", "45abc", True, 2.5, "abc", 10, "10"]
NUM_POOL = [Decimal(0.1), Decimal(0.7), Decimal(0.3), "0.1", "0.7", 0, 1, -1, 2, 3, 5, 7, 9, 10, 11, 12, 99, 100, 101, 255, 999, 1000, 1001, -7, -10, -11, -255,
            0.0, -0.0, 0.5, 1.5, -1.5, 2.5, 0.1, 0.3, 0.7, 1.0, 0.9, 1.1, 9.95, 99.95, 999.5, 0.0009995, 12.345, 12.3, 0.995, 9.5,
            3.14159, 1e16, 1e-7, 123456.789, -99.95, -0.05, 0.05, 0.15, 0.25, 0.35, 2.675, 1.005,
            Decimal("0"), Decimal("1"), Decimal("1.0"), Decimal("1.50"), Decimal("99.95"), Decimal("9.95"), Decimal("999.5"),
            Decimal("0.0009995"), Decimal("12.345"), Decimal("-99.95"), Decimal("0.05"), Decimal("0.15"), Decimal("2.5"), Decimal("7"),
            Decimal("1E+3"), Decimal("1.2E+2"), Decimal("0.995"), Decimal("-2.5"), Decimal("10.0"), Decimal("0.10"),
            "12", "99.95", "999.5", "1.5", "-7", "0.15", "100"]
STR_POOL = ["", "a", "ab", "abc", "abcd", "abcde", "abcdef", "aaaa", "é日本x", b"abcd", b"ab", 12345, 1.5,
            # decomposed text: a combining mark sits exactly at index 1 / 2 / 3 / 4 (a cut there separates letter and accent)
            "e\u0301abc", "ae\u0301bc", "abe\u0301c", "cafe\u0301s", "a\u0301\u0302bcd", "\U0001F469\u200D\U0001F4BBxyz", "ab\ud83d"]
SEQ_POOL = [[], [1], [1, 2], [1, 2, 3], [1, 2, 3, 4], [1, 1], [1, 1, 2, 2, 3], [1, 1.0, True], ["a", "a", "b"], (1, 2, 3, 4), (1, 1),
            [[1], [1]], "1,2,3,4", "1,1,2", {1, 2, 3}, deque([1, 1, 2]),
            # equal items of different Python types (hashable next to unhashable, an enum member next to its value)
            [bytearray(b"a"), b"a"], [b"a", bytearray(b"a")], [V.Tone.RED, V.Tone.RED.value], [V.Tone.RED.value, V.Tone.RED],
            [{1, 2}, frozenset({1, 2})], [frozenset({1, 2}), {1, 2}, 3], (bytearray(b"a"), 1, b"a")]
EXACT = {"int", "Decimal", "str", "list", "tuple"}


def n_cases(tier):
    return N[tier]


def _lax_family(rng):
    origin = rng.choice(["int", "int", "float", "float", "Decimal", "Decimal", "str", "list", "tuple"])
    if origin in ("int", "float", "Decimal"):
        conv = {"int": int, "float": float, "Decimal": Decimal}[origin]
        c = rng.choice(["ge", "le", "multiple_of", "max_digits", "const", "enum"] + (["decimal_places"] * 2 if origin != "int" else []))
        if c in ("ge", "le"):
            b = rng.choice([0, 1, 3, 10, 100, -5, 255]) if rng.random() < 0.5 else conv(rng.choice([0, 1, 3, 10, 100, -5])) if origin != "float" else rng.choice([0.5, 1.5, 99.95, -1.5])
            if origin == "int" and rng.random() < 0.4:
                # fractional bound on an int rule (tolerated numeric pairs: float and Decimal), both signs
                b = rng.choice([0.5, 1.5, 10.5, 99.95, -1.5, 3.0, -2.5, Decimal("2.5"), Decimal("-2.5"), Decimal("0.5"), Decimal("-10.5"), Decimal("99.95"), Decimal("3")])
        elif c == "multiple_of":
            b = rng.choice([2, 3, 5, 10, 100]) if origin != "float" else rng.choice([2, 5, 0.5, 0.25, 0.1, 0.3, 10])
        elif c == "max_digits":
            b = rng.choice([1, 2, 3, 4, 5])
        elif c == "decimal_places":
            b = rng.choice([0, 1, 2, 3])
        elif c == "const":
            b = conv(rng.choice([0, 1, 5]))
            if origin == "Decimal" and rng.random() < 0.3:
                b = rng.choice([0.1, 0.7, 0.25, 1.5])   # a float member on a Decimal rule (membership is ==, exact)
        else:
            b = tuple(conv(x) for x in rng.sample([0, 1, 5, 10], 2))
            if origin == "Decimal" and rng.random() < 0.4:
                b = rng.choice([(0.1, 0.25, 0.7), (0.3, 5), (0.1, Decimal("0.5"))])
        extra = ()
        if c in ("multiple_of", "max_digits", "decimal_places") and rng.random() < 0.3:
            extra = (rng.choice([("ge", 0), ("le", 100), ("gt", -10)]),)
        cons = extra + ((c, b),)
        pool = NUM_POOL
    elif origin == "str":
        c = rng.choice(["max_length", "length", "const", "enum"])
        b = rng.choice([1, 2, 3, 4]) if c in ("max_length", "length") else ("ab" if c == "const" else ("ab", "abc"))
        cons = ((c, b),)
        if c == "max_length" and rng.random() < 0.3:
            cons = (("min_length", 1),) + cons
        pool = STR_POOL
    else:
        c = rng.choice(["max_length", "length", "unique_items"])
        b = True if c == "unique_items" else rng.choice([1, 2, 3])
        cons = ((c, b),)
        if c == "unique_items" and rng.random() < 0.4:
            cons = (rng.choice([("min_length", 2), ("max_length", 3)]),) + cons
        pool = SEQ_POOL
    # order as documented
    cons = tuple(sorted(cons, key=lambda kv: TS.CONSTRAINT_ORDER.index(kv[0])))
    spec = ("con", origin, cons, (c,), ())
    return spec, pool


def make_case(i, rng, tier):
    # Decimal rules that combine a regex with decimal_places: the output of the completion must still be a fixed point
    TS.ENABLE_REGEX_BEFORE_DECIMAL_PLACES = True
    fam = "B" if i % 3 == 0 else "A"
    if fam == "B":
        spec, pool = _lax_family(rng)
        inputs = [(lambda v=v: v) for v in rng.sample(pool, min(len(pool), 14))]
        opts = dict(rng.choice([{}, {}, {"no_data_loss": True}]))
        route = rng.choice(["call", "tt", "field"])
    else:
        if rng.random() < 0.25:
            spec = rng.choice(OVERLAP_UNIONS)
            if rng.random() < 0.3:
                spec = ("gen", "list", (spec,))
        else:
            depth = rng.choice([1, 2, 2, 3])
            spec = TS.gen_spec(rng, depth, allow_lax=rng.random() < 0.4, abstract=rng.random() < 0.1,
                               dc=lambda r, d: TS.gen_dc(r, max(0, min(d, 1))))
        inputs = [TS.gen_input(rng, spec) for _ in range(8)]
        if spec in OVERLAP_UNIONS or (spec[0] == "gen" and spec[2] and spec[2][0] in OVERLAP_UNIONS):
            wrap = (lambda v: [v]) if spec[0] == "gen" else (lambda v: v)
            inputs += [(lambda v=v: wrap(v)) for v in rng.sample(OVERLAP_INPUTS, 8)]
        opts = dict(rng.choice(OPTS))
        route = rng.choice(["tt", "call", "field", "param"])
    return {"fam": fam, "spec": spec, "opts": opts, "route": route, "inputs": inputs, "rng": rng}


def _parse_with(builder, spec, v, opts):
    from utype import Options, Rule, type_transform

    T = Rule.parse_annotation(builder.annotation(spec))
    return run(lambda: type_transform(v, T, options=Options(**opts)))


def _stable(builder, spec, v, opts):
    try:
        o = _parse_with(builder, spec, v, opts)
    except Exception:
        return True
    return o.ok and V.approx_eq(o.value, v, sub_ok=True)


def locate(builder, spec, v, opts, depth=0):
    """innermost (node spec, value) where re-parsing the already-parsed value is not a fixed point"""
    import collections.abc as cabc

    k = spec[0]
    if depth > 6:
        return spec, v
    try:
        if k == "gen" or (k == "con" and spec[4]):
            kind = spec[1]
            args = spec[2] if k == "gen" else spec[4]
            if kind in ("dict", "Mapping") and isinstance(v, cabc.Mapping):
                for kk, vv in v.items():
                    if not _stable(builder, args[0], kk, opts):
                        return locate(builder, args[0], kk, opts, depth + 1)
                    if not _stable(builder, args[1], vv, opts):
                        return locate(builder, args[1], vv, opts, depth + 1)
            elif kind == "tuple_fix" and isinstance(v, tuple):
                for a, e in zip(args, v):
                    if not _stable(builder, a, e, opts):
                        return locate(builder, a, e, opts, depth + 1)
            elif isinstance(v, (list, tuple, set, frozenset, deque)):
                for e in v:
                    if not _stable(builder, args[0], e, opts):
                        return locate(builder, args[0], e, opts, depth + 1)
            return spec, v
        if k == "opt":
            if v is not None and not _stable(builder, spec[1], v, opts):
                return locate(builder, spec[1], v, opts, depth + 1)
            return spec, v
        if k == "dc":
            for fname, fs, required, dkey in spec[2]:
                present, fv = TS._dc_get(v, fname, spec[1])
                if present and not _stable(builder, fs, fv, opts):
                    return locate(builder, fs, fv, opts, depth + 1)
            return spec, v
    except Exception:
        pass
    return spec, v


def _rejecting_constraint(e, depth=0):
    """name of the constraint that rejected (innermost ConstraintError in the chain)"""
    name = None
    while e is not None and depth < 30:
        c = getattr(e, "constraint", None)
        if c:
            name = c
        nxt = getattr(e, "origin_exc", None)
        if nxt is None:
            errs = getattr(e, "errors", None)
            nxt = errs[0] if errs else None
        e = nxt
        depth += 1
    return name


def _spec_widens(spec, d=0):
    if not isinstance(spec, tuple) or not spec or d > 8:
        return False
    if spec[0] in ("xor", "not"):
        return True
    if spec[0] in ("or", "and"):
        return any(_spec_widens(a, d + 1) for a in spec[1])
    if spec[0] == "opt":
        return _spec_widens(spec[1], d + 1)
    return False


def mechanism(builder, node, v, opts):
    """structural mechanism tag of a non-fixed-point at `node` (value v = the first parse's output there)"""
    k = node[0]
    if k in ("or", "xor", "opt"):
        # Optional[X] is Union[X, None]: X first; typing flattens an inner Union, an inner exclusive-or stays one argument
        arms = list(node[1]) if k != "opt" else [node[1], ("leaf", "NoneType")]
        if k == "opt" and node[1][0] == "or":
            arms = list(node[1][1]) + [("leaf", "NoneType")]
        for a in arms:
            # an arm whose own (nested) output is not a fixed point is the root cause, not the union
            try:
                belongs = a[0] in ("con", "gen") and isinstance(v, TS.ORIGINS[a[1]] if a[0] == "con" else TS.GEN_ORIGIN[a[1]])
            except Exception:
                belongs = False
            if belongs and not _stable(builder, a, v, opts):
                n2, v2 = locate(builder, a, v, opts)
                m = mechanism(builder, n2, v2, opts) if n2 is not node else ""
                if m.startswith("lax-"):
                    return m
        acc = 0
        ndl, ncast = bool(opts.get("no_data_loss")), bool(opts.get("no_explicit_cast"))
        stages = [dict(opts)]
        if k != "xor":  # a union resolves in stages: an arm may take the output in the strict / no-loss stage
            if not (ndl and ncast):
                stages.append(dict(opts, no_data_loss=True, no_explicit_cast=True))
            if not ndl and not ncast:
                stages.append(dict(opts, no_data_loss=True))
        for a in arms:
            try:
                if any(_parse_with(builder, a, v, st).ok for st in stages):
                    acc += 1
            except Exception:
                pass
        kk = "or" if k == "opt" else k
        lenient = any(opts.get(p_) in ("exclude", "preserve") for p_ in ("invalid_items", "invalid_keys", "invalid_values"))
        if k != "xor" and acc >= 2 and not lenient:
            # (under an exclude / preserve policy an argument "accepts" by dropping or keeping offending elements, and the
            # preliminary stages do not apply the policy the way the last one does: the prediction below is not defined there)
            # the listed finding is *staged re-resolution*: the documented stages (exact type; strict; no-loss; as given; arguments in
            # order within a stage) applied to the OUTPUT pick another argument than they did for the input.  It only explains a
            # re-parse whose result is what that staged procedure predicts; anything else is a different defect.
            pred = None
            exact = next((a for a in arms if a[0] == "leaf" and type(v) is TS.ORIGINS.get(a[1])), None)
            if exact is not None:
                return f"{kk}/not-explained-by-staged-resolution"  # an exact-type value must come back unchanged
            order = []
            if not (ndl and ncast):
                order.append(dict(opts, no_data_loss=True, no_explicit_cast=True))
            if not ndl and not ncast:
                order.append(dict(opts, no_data_loss=True))
            order.append(dict(opts))
            for st in order:
                for a in arms:
                    if st is not order[-1] and _spec_widens(a):
                        continue  # negations / exclusive-ors are only asked under the options as given
                    try:
                        o = _parse_with(builder, a, v, st)
                    except Exception:
                        continue
                    if o.ok:
                        pred = o
                        break
                if pred is not None:
                    break
            o2 = _parse_with(builder, node, v, opts)
            if pred is None or not o2.ok:
                return f"{kk}/not-explained-by-staged-resolution"
            if V.is_consumable(o2.value) or V.is_consumable(pred.value):
                same = type(o2.value) is type(pred.value)  # one-shot results: only their kind can be compared
            else:
                same = V.approx_eq(o2.value, pred.value, sub_ok=True)
            if not same:
                return f"{kk}/not-explained-by-staged-resolution"
        return f"{kk}/" + ("output-accepted-by-several-arms" if acc >= 2 else "single-arm")
    if k == "con":
        cons, lax = node[2], node[3]
        if lax:
            o2 = _parse_with(builder, node, v, opts)
            bound = dict(cons)[lax[0]]
            if not o2.ok:
                rej = _rejecting_constraint(o2.exc)
                names = [c for c, _ in cons]
                if rej in names and rej not in lax and TS.CONSTRAINT_ORDER.index(rej) < TS.CONSTRAINT_ORDER.index(lax[0]):
                    return "lax-transform-breaks-earlier-strict-constraint"
                if rej == lax[0] == "max_digits":
                    return "lax-max_digits-rounding-carry/" + node[1]
                return f"con:{node[1]}/lax:{lax[0]}/rejected-by:{rej}"
            if lax[0] == "multiple_of" and node[1] == "float" and isinstance(bound, float) and not float(bound).is_integer():
                return "lax-multiple_of-float-remainder-drift"
            return f"con:{node[1]}/lax:{lax[0]}/differs"
        return f"con:{node[1]}/" + "+".join(c for c, _ in cons)
    if k == "and":
        return "and/later-arm-transforms-what-earlier-arm-checked"
    return TS.node_tag(node)


def run_case(case, ctx):
    spec, opts, route = case["spec"], case["opts"], case["route"]
    b = TS.Builder(case["rng"])
    try:
        try:
            ann = b.annotation(spec)
            from utype import Rule

            T = Rule.parse_annotation(ann)
            entry = make_entry(route, ann, T, opts)
        except Exception as e:
            ctx.count("declaration_rejected:" + type(e).__name__)
            return
        if entry.cls is not None:
            b.created.append(entry.cls)
        shape = TS.spec_shape(spec)
        okey = tuple(sorted(opts.items()))
        for mk in case["inputs"]:
            try:
                x = mk()
            except Exception:
                continue
            xr = short(x, 100)
            out1 = run(lambda: entry(x))
            ctx.count("calls")
            if not out1.ok:
                ctx.trivial("first-parse-rejected")
                continue
            r1 = out1.value
            if V.is_consumable(r1):
                ctx.skip("consumable-result")
                continue
            snap = V.snapshot(r1)
            out2 = run(lambda: entry(r1))
            sig = (shape, okey, route, TS.value_class(x))
            wit = {"spec": TS.describe(spec), "options": opts, "route": route, "input": xr, "first": short(r1, 160), "second": repr(out2)}
            if not out2.ok or not V.approx_eq(out2.value, r1, sub_ok=True):
                try:
                    node, nv = locate(b, spec, r1, opts)
                    detail = mechanism(b, node, nv, opts)
                except Exception as e:
                    detail = "undiagnosed:" + type(e).__name__
            if not out2.ok and "Exceeds the limit (4300" in str(out2.exc):
                detail = "int-max-str-digits"
            if not out2.ok:
                if out2.kind == "escape" and isinstance(out2.exc, Absent):
                    kind = "reparse-dropped"
                else:
                    kind = "reparse-rejected"
                ctx.violation(f"C03/{detail}" if detail.startswith("lax-") else f"C03/{kind}/{detail}", f"{TS.describe(spec)[:200]} opts={opts}: T({xr}) = {short(r1, 80)} but T of that -> {out2!r}", wit, sig=sig)
                continue
            if not V.approx_eq(out2.value, r1, sub_ok=True):
                ctx.violation(f"C03/{detail}" if detail.startswith("lax-") else f"C03/reparse-differs/{detail}", f"{TS.describe(spec)[:200]} opts={opts}: T({xr}) = {short(r1, 80)}, T of that = {short(out2.value, 80)}", wit, sig=sig)
                continue
            # lax -> strict form on exact domains (top-level constrained spec only: family B)
            if case["fam"] == "B" and spec[1] in EXACT:
                bad = None
                for cname, bound in spec[2]:
                    if cname in spec[3]:
                        h = CR.holds(cname, bound, r1)
                        if h is False:
                            bad = (cname, bound)
                            break
                if bad:
                    k_ = ("lax-max_digits-rounding-carry/" + spec[1]) if bad[0] == "max_digits" else f"lax-result-violates-strict-form/{bad[0]}/{spec[1]}"
                    ctx.violation(f"C03/{k_}",
                                  f"{TS.describe(spec)[:200]}: T({xr}) = {short(r1, 80)} does not satisfy strict {bad[0]}={bad[1]!r}", wit, sig=sig)
                    continue
            ctx.held(sig)
            if ctx.want_sample() and spec[0] != "leaf":
                ctx.sample(dict(wit, verdict="fixed point"))
    finally:
        b.cleanup()
