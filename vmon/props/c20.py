"""C20 — concurrent use is safe, including the first use of a type.

Per trial a FRESH system (new module, unique class names, so first-use state is pristine) is used
by 2-3 threads, each performing a first and later parses.  Oracle: every call's outcome equals the
outcome of the same call run ALONE on an identical fresh system; afterwards the shared state is
fully initialised.  Schedules: (1) controlled scheduler (sys.monitoring baton) enumerating
single-preemption plans at source-line granularity inside the initialisation / registry code and
sampling 2-preemption plans; (2) free-running stress with sleep(0) injection at the same lines."""
import itertools
import random
import sys
import types

from ..monitors import sched as SC
from ..runner import short
from . import c19_helper as H

ID = "C20"
N = {"quick": 220, "thorough": 6000}
TIME_BUDGET = {"quick": 55, "thorough": 600}
MIN_NONTRIVIAL = {"quick": 150, "thorough": 2000}
SHARDS = {"quick": 16, "thorough": 16}
CASE_WALL = {"quick": 60, "thorough": 400}
RULE = ("cases = a generated system (Schema/DataClass A with late references Optional['B'], List['B'] (same late name twice), a "
        "constrained late reference 'Amt' = Field(ge=1, le=100), class B referring back to A, a @parse function and a @parse "
        "generator naming late classes, a constrained Param on a late name) or a registry scenario (one thread re-parses an "
        "already used type while another registers converters / first-uses many fresh classes) x 2-3 worker scripts of 2-3 calls "
        "(valid, invalid, out-of-range). Per case: expected outcomes from running each script alone on a fresh copy; then every "
        "single-preemption plan of the controlled scheduler (quick: <= 40 evenly spread positions per ordered worker pair; "
        "thorough: all), sampled 2-preemption plans, and free-running trials with sleep(0) injection. Non-trivial = an executed "
        "plan whose preemption fell inside a target function; distinct = distinct switch sequences (file:line of every switch).")
ASSUMPTIONS = [
    "bounded restatement of 'no schedule': all single-preemption plans (thorough: up to 1500 per case, sampled beyond that; quick: 90) at source-line granularity inside the named initialisation / registry / union-resolution / parser-lookup functions, sampled 2-preemption plans and free-running stress; switches inside one C-level call or needing >= 3 preemptions are out of reach",
    "every trial executes the system's source under fresh class names: typing's process-wide cache of Optional['Name'] objects would otherwise carry resolved classes from trial to trial (the C19/C17 known finding)",
    "a scheduler deadlock (a worker not getting the baton for 20 s) is inconclusive, never a violation",
]
TARGETS = {
    ("parser/base.py", "resolve_forward_refs"), ("parser/base.py", "__call__"), ("parser/base.py", "apply_for"), ("parser/base.py", "parse_data"),
    ("parser/field.py", "resolve_forward_refs"), ("parser/func.py", "resolve_forward_refs"), ("parser/rule.py", "resolve_forward_refs"),
    ("parser/rule.py", "resolve_forward_type"), ("parser/rule.py", "register_forward_ref"), ("parser/rule.py", "register_forward_refs"),
    ("utils/base.py", "resolve"), ("utils/base.py", "register"), ("utils/base.py", "decorator"), ("utils/transform.py", "resolver_transformer"),
    ("utils/transform.py", "__call__"), ("parser/cls.py", "init_dataclass"), ("parser/cls.py", "transform_dataclass"),
    # union resolution consults per-type facts about its members (does a member contain ~ / ^ ?)
    ("parser/rule.py", "logical_parse"), ("parser/rule.py", "_widens_when_strict"),
    # every instance construction looks its class's parser up through code shared by all data classes
    ("parser/cls.py", "get_parser"), ("parser/cls.py", "__init__"),
}
_uid = itertools.count()
_S = {}


def setup(ctx):
    s = SC.Scheduler(TARGETS)
    _S["sched"] = s if s.install() else None


def n_cases(tier):
    return N[tier]


def make_source(shape, uid):
    A, B, M = "A%d" % uid, "B%d" % uid, "Amt%d" % uid
    base = shape["base"]
    b_first = shape["b_first"]
    cls_a = f"""
class {A}({base}):
    v: int = Field(ge=0)
    b: Optional['{B}'] = None
    bs: List['{B}'] = Field(default_factory=list)
    amt: '{M}' = Field(ge=1, le=100, default=5)
"""
    cls_b = f"""
class {B}(Schema):
    w: str
    a: Optional['{A}'] = None
"""
    fn = f"""
@parse
def fn(x: '{A}', n: '{M}' = Param(1, ge=1, le=10)) -> '{B}':
    return {{'w': str(x.v) + ':' + str(int(n))}}

@parse
def gen(k: int, m: '{B}' = None) -> Iterator[int]:
    for i in range(k):
        yield str(i)
"""
    amt = f"""
class {M}(int):
    pass
"""
    # two classes LOCAL to a function that spell the same late reference the same way (typing caches Optional['Name'] objects)
    local = f"""
def _local_classes():
    class L1(Schema):
        t: Optional['{B}'] = None
    class L2(Schema):
        t: Optional['{B}'] = None
        u: int = 0
    return L1, L2
L1, L2 = _local_classes()
"""
    # unions with a negated / exclusive member (the strict preliminary stages of a union skip such members)
    wide = """
class W(Schema):
    x: (~utype.types.Int) | str = None
    y: typing.Union[int, utype.types.PositiveInt ^ utype.types.Float, None] = None
    z: typing.List[(~utype.types.Str) | int] = Field(default_factory=list)
"""
    parts = [local, wide] + ([fn] if shape["fn_first"] else [])
    parts += [cls_b, cls_a] if b_first else [cls_a, cls_b]
    if not shape["fn_first"]:
        parts.append(fn)
    parts.append(amt)
    return ("import typing\nfrom typing import List, Optional, Union, Dict, Iterator\nimport utype\nfrom utype import Schema, DataClass, Field, Param, parse\nimport utype.types\n"
            + "".join(parts) + f"\nA, B, Amt = {A}, {B}, {M}\n")


CALLS = [
    ["from", "A", {"v": "1", "b": {"w": 5}}, {}], ["from", "A", {"v": -1}, {}], ["from", "A", {"v": 1, "amt": 500}, {}], ["from", "A", {"v": 2, "amt": "7"}, {}],
    ["from", "A", {"v": 1, "bs": [{"w": "x", "a": {"v": 3}}]}, {}], ["from", "B", {"w": 1, "a": {"v": "2", "amt": 100}}, {}], ["from", "B", {"w": "s", "a": {"v": 2, "amt": 0}}, {}],
    ["from", "B", {}, {}], ["call", "fn", {"args": [{"v": 3}]}, {}], ["call", "fn", {"args": [{"v": 3}, 500]}, {}], ["call", "fn", {"args": [{"v": 3, "bs": [{"w": 1}]}, "7"]}, {}],
    ["call", "fn", {"args": [{"v": "x"}]}, {}], ["gen", "gen", {"args": [2]}, {}], ["gen", "gen", {"args": [1, {"w": 4}]}, {}], ["gen", "gen", {"args": [1, {"w": 4, "a": {"v": -5}}]}, {}],
    ["from", "W", {"x": 3.5}, {}], ["from", "W", {"x": "a", "y": "7"}, {}], ["from", "W", {"x": 2, "z": ["1", 2.5]}, {}], ["from", "W", {"y": 2.0, "z": [3.5]}, {}],
    ["from", "L1", {"t": {"w": 1}}, {}], ["from", "L2", {"t": {"w": "x"}, "u": "2"}, {}], ["from", "L1", {"t": {"w": 2, "a": {"v": -1}}}, {}], ["from", "L2", {"t": {"w": 3}}, {}],
]

REG_SRC = """
import enum, typing
import utype
from utype import Schema, Field, type_transform, register_transformer

class Point(Schema):
    x: int
    y: float = 0.5

class Tag:
    def __init__(self, v): self.v = v
    def __eq__(self, o): return isinstance(o, Tag) and o.v == self.v
    def __repr__(self): return 'Tag(%r)' % (self.v,)

class Holder(Schema):
    t: Tag = None

def churn(n):
    # first-use of many fresh classes: every one goes through TypeRegistry.resolve (cache fill)
    out = 0
    for i in range(n):
        E = enum.Enum('E%d' % i, {'A': i})
        out += type_transform(i, E).value
    return out

def register_then_use(tag):
    @register_transformer(Tag)
    def to_tag(transformer, data, t):
        return t((tag, data))
    return type_transform(1, Tag).v

def use_point(n):
    return [dict(Point(x=str(i), y=i)) for i in range(n)]

def use_holder():
    try:
        return repr(Holder(t=3).t)
    except Exception as e:
        return type(e).__name__
"""


def make_case(i, rng, tier):
    if rng.random() < 0.25:
        kind = rng.choice(["churn", "register", "register-vs-cached"])
        return {"fam": "registry", "kind": kind, "n": rng.choice([40, 120, 300]), "seed": rng.randrange(10 ** 9)}
    shape = {"base": rng.choice(["Schema", "Schema", "DataClass"]), "b_first": rng.random() < 0.4, "fn_first": rng.random() < 0.4}
    nw = rng.choice([2, 2, 3])
    scripts = [[rng.choice(CALLS) for _ in range(rng.choice([2, 2, 3]))] for _ in range(nw)]
    return {"fam": "system", "shape": shape, "scripts": scripts, "seed": rng.randrange(10 ** 9)}


def fresh_module(src, uid):
    mod = types.ModuleType("vmon_c20_%d" % uid)
    sys.modules[mod.__name__] = mod
    # locks the library creates for this system report contention to the scheduler instead of blocking in C
    with SC.cooperative_locks():
        exec(compile(src, "<c20-system>", "exec"), mod.__dict__)
    return mod


def drop_module(mod):
    """forget the trial's module: every cache that is keyed by its classes would otherwise keep the module (classes, parsers,
    fields) alive - thousands of trials per shard add up to gigabytes"""
    sys.modules.pop(mod.__name__, None)
    try:
        from utype.parser import base as pbase
        from utype.utils.transform import TypeTransformer
        from utype.utils import encode as _enc
        regs = [TypeTransformer.registry] + [r for r in vars(_enc).values() if type(r).__name__ == "TypeRegistry"]
        for v in list(mod.__dict__.values()):
            if isinstance(v, type) or callable(v):
                pbase.__parsers__.pop(v, None)
                for r in regs:
                    try:
                        r._cache.pop(v, None)
                    except Exception:
                        pass
        mod.__dict__.clear()
        _S["dropped"] = _S.get("dropped", 0) + 1
        if _S["dropped"] % 50 == 0:
            import gc
            import typing as _t
            for f in getattr(_t, "_cleanups", ()):
                f()
            gc.collect()
    except Exception:
        pass


def script_thunk(ns, script):
    return lambda: [H.perform(ns, c) for c in script]


def strip(o):
    """outcome without volatile parts (class-name suffixes are unique per trial)"""
    import json
    import re
    return json.loads(re.sub(r"(A|B|Amt)\d+", r"\1", json.dumps(o)))


MEM_LIMIT_MB = 2800   # per shard (16 shards on a 62 GB machine); the trial modules of a long thorough run do not all get freed


def _rss_mb():
    try:
        with open("/proc/self/statm") as f:
            return int(f.read().split()[1]) * 4096 / 1e6
    except Exception:
        return 0


def run_case(case, ctx):
    if _rss_mb() > MEM_LIMIT_MB:
        ctx.count("cases_skipped_by_the_memory_guard")
        ctx.skip("memory guard (shard above %d MB)" % MEM_LIMIT_MB)
        return
    sched = _S.get("sched")
    if sched is None:
        ctx.inconclusive_case("sys.monitoring unavailable")
        return
    rng = random.Random(case["seed"])
    tier = ctx.tier
    if case["fam"] == "registry":
        return run_registry(case, ctx, sched, rng)
    shape, scripts = case["shape"], case["scripts"]
    nw = len(scripts)
    # expected: each script alone on its own fresh system
    expected = []
    for sc in scripts:
        uid = next(_uid)
        mod = fresh_module(make_source(shape, uid), uid)
        try:
            expected.append(strip(script_thunk(mod.__dict__, sc)()))
        finally:
            drop_module(mod)

    def trial(plan, first=0, free=None):
        uid = next(_uid)
        mod = fresh_module(make_source(shape, uid), uid)
        try:
            sched.reset(plan, nw, free_yield=free)
            thunks = [script_thunk(mod.__dict__, sc) for sc in scripts]
            res = sched.run_free(thunks) if free is not None else sched.run(thunks, first=first)
            post = post_state(mod)
            return res, list(sched.trace), list(sched.steps), set(sched.locations), post
        finally:
            drop_module(mod)

    def judge(res, trace, post, how, plan):
        ctx.count("plans_run")
        sig = tuple((t[0], t[2], t[3]) for t in trace) or (how,)
        for w, r in enumerate(res):
            wit = {"system": shape, "scripts": scripts, "schedule": how, "plan": [list(map(str, p)) for p in plan] if plan else None,
                   "switches": [f"worker {a} at step {k} ({loc}) -> worker {b}" for a, k, loc, b in trace], "worker": w}
            if r is None or r[0] == "deadlock":
                ctx.inconclusive_case("scheduler deadlock")
                return False
            if r[0] == "raised" and isinstance(r[1], SC.Deadlock):
                ctx.inconclusive_case("scheduler timeout")
                return False
            if r[0] == "raised":
                ctx.violation(f"C20/{how}/worker-raised-an-internal-error/{type(r[1]).__name__}", f"worker {w} script {scripts[w]} raised {r[1]!r} under schedule {wit['switches']}", wit, sig=sig)
                return False
            got = strip(r[1])
            if got != expected[w]:
                j = next(k for k, (x, y) in enumerate(zip(got, expected[w])) if x != y)
                internal = got[j][0] == "err" and got[j][1] not in ("ParseError", "CollectedParseError", "AbsenceError", "ExceedError")
                ctx.violation(f"C20/{how}/outcome-differs-from-running-alone/" + (f"internal-{got[j][1]}" if internal else scripts[w][j][0] + ":" + scripts[w][j][1]),
                              f"worker {w} call {scripts[w][j]} -> {short(got[j], 120)}; alone -> {short(expected[w][j], 120)}; schedule {wit['switches']}",
                              dict(wit, observed=got, alone=expected[w]), sig=sig)
                return False
        if post:
            ctx.violation(f"C20/{how}/shared-state-not-fully-initialised", f"after the trial: {post}", {"system": shape, "scripts": scripts, "post": post}, sig=sig)
            return False
        if trace or how != "controlled":
            ctx.held(sig)
            ctx.state(sig)
        else:
            ctx.trivial("plan position never reached")
        return True

    # baseline: no preemption, to learn each worker's step count
    res, trace, steps, locs, post = trial({})
    if not judge(res, trace, post, "controlled", None):
        return
    ctx.count("preemption_points_total", sum(steps))
    plans = []
    for a in range(nw):
        ks = list(range(1, steps[a] + 1))
        if tier == "quick" and len(ks) > 40:
            ks = [ks[int(i * len(ks) / 40)] for i in range(40)]
        for b in range(nw):
            if a != b:
                for k in ks:
                    plans.append(({(a, k): b}, a))
    if tier == "quick":
        rng.shuffle(plans)
        plans = plans[:90]
    elif len(plans) > 1500:
        # thorough: every single-preemption position, up to a cap that keeps one case inside its wall-clock budget
        rng.shuffle(plans)
        plans = plans[:1500]
        ctx.count("thorough_cases_with_sampled_single_preemption_plans")
    n2 = 6 if tier == "quick" else 40
    for _ in range(n2):
        a, b = rng.sample(range(nw), 2)
        if steps[a] < 2 or steps[b] < 1:
            continue
        k1 = rng.randint(1, steps[a] - 1)
        k2 = rng.randint(1, steps[b])
        plans.append(({(a, k1): b, (b, k2): a}, a))
    for plan, first in plans:
        res, trace, _st, locs2, post = trial(plan, first=first)
        locs |= locs2
        if not judge(res, trace, post, "controlled", sorted(plan.items())):
            return
    # free-running stress with yield injection
    for t in range(8 if tier == "quick" else 60):
        p = rng.choice([0.0, 0.02, 0.1, 0.3])
        r2 = random.Random(rng.randrange(10 ** 9))
        res, trace, _st, _l, post = trial({}, free=lambda w, k, p=p, r2=r2: r2.random() < p)
        if not judge(res, [], post, "free-running", None):
            return
    ctx.count("distinct_switch_locations", len(locs))
    if ctx.want_sample():
        ctx.sample({"system": shape, "scripts": scripts, "steps_per_worker_without_preemption": steps, "plans_run": len(plans) + 1})


def post_state(mod):
    """shared state after the trial: used sequentially once more, every parser of the system is fully initialised"""
    probs = []
    ns = mod.__dict__
    o = H.perform(ns, ["from", "A", {"v": "1", "b": {"w": 5}, "bs": [{"w": 6}], "amt": "9"}, {}])
    if o[0] != "ok":
        probs.append(f"sequential parse after the trial -> {short(o, 100)}")
    o2 = H.perform(ns, ["from", "A", {"v": 1, "amt": 500}, {}])
    if o2[0] != "err":
        probs.append(f"out-of-range value accepted after the trial -> {short(o2, 100)}")
    o3 = H.perform(ns, ["call", "fn", {"args": [{"v": 3}, 500]}, {}])
    if o3[0] != "err":
        probs.append(f"fn(..., 500) accepted after the trial (Param le=10 lost) -> {short(o3, 100)}")
    o4 = H.perform(ns, ["gen", "gen", {"args": [1, {"w": 4}]}, {}])
    if o4 != ["ok", [0]]:
        probs.append(f"gen(1, {{'w': 4}}) after the trial -> {short(o4, 100)}")
    for name in ("A", "B", "fn", "gen"):
        p = getattr(ns.get(name), "__parser__", None)
        fr = getattr(p, "forward_refs", None)
        if fr:
            probs.append(f"{name}.forward_refs still holds {sorted(fr)} after a sequential use")
    return probs


# ---- registry scenarios ---------------------------------------------------------------------------
def run_registry(case, ctx, sched, rng):
    n = case["n"]
    tier = ctx.tier

    def system():
        uid = next(_uid)
        return fresh_module(REG_SRC, uid)

    if case["kind"] == "churn":
        def thunks_of(mod):
            return [lambda: mod.use_point(6), lambda: mod.churn(n)]
        exp = [[{"x": i, "y": float(i)} for i in range(6)], sum(range(n))]
    elif case["kind"] == "register-vs-cached":
        # one thread converts through types whose converters are already cached while another registers a
        # converter for an unrelated class (registration invalidates the cache)
        def thunks_of(mod):
            mod.use_point(1)
            return [lambda: mod.use_point(6), lambda: mod.register_then_use("t1")]
        exp = [[{"x": i, "y": float(i)} for i in range(6)], ("t1", 1)]
    else:
        def thunks_of(mod):
            return [lambda: [mod.use_holder() for _ in range(4)], lambda: mod.register_then_use("t1")]
        exp = None

    def trial(plan, first=0, free=None):
        mod = system()
        try:
            from utype.utils.transform import TypeTransformer
            before = list(TypeTransformer.registry._registry)
            sched.reset(plan, 2, free_yield=free)
            th = thunks_of(mod)
            res = sched.run_free(th) if free is not None else sched.run(th, first=first)
            # remove what the trial registered
            TypeTransformer.registry._registry[:] = [e for e in TypeTransformer.registry._registry if e in before]
            TypeTransformer.registry._cache.pop(mod.Tag, None)
            _S["where"] = [list(w) for w in sched.where]
            return res, list(sched.trace), list(sched.steps), set(sched.locations)
        finally:
            drop_module(mod)

    def judge(res, trace, how, plan):
        ctx.count("plans_run")
        sig = tuple((t[0], t[2], t[3]) for t in trace) or (how, case["kind"])
        wit = {"scenario": case["kind"], "n": n, "schedule": how, "switches": [f"worker {a} at step {k} ({loc}) -> worker {b}" for a, k, loc, b in trace]}
        for w, r in enumerate(res):
            if r is None or r[0] == "deadlock":
                ctx.inconclusive_case("scheduler deadlock")
                return False
            if r[0] == "raised" and isinstance(r[1], SC.Deadlock):
                ctx.inconclusive_case("scheduler timeout")
                return False
            if r[0] == "raised":
                ctx.violation(f"C20/{how}/registry/worker-raised-an-internal-error/{type(r[1]).__name__}", f"{case['kind']}: worker {w} raised {r[1]!r}; schedule {wit['switches']}", wit, sig=sig)
                return False
        if case["kind"] in ("churn", "register-vs-cached"):
            got = [[dict(d) for d in res[0][1]], res[1][1]]
            if got != exp:
                ctx.violation(f"C20/{how}/registry/outcome-differs-from-running-alone/{case['kind']}", f"use_point / {case['kind']} returned {short(got, 160)}; alone {short(exp, 160)}; schedule {wit['switches']}", wit, sig=sig)
                return False
        else:
            holder = res[0][1]
            # every Holder(t=3) is either converted by the registration (if it was already made) or rejected before it: both are
            # what a sequential order could produce; once converted, it stays converted (no going back)
            ok = all(h in ("TypeMismatchError", "ParseError", "Tag(('t1', 3))") for h in holder)
            seen_conv = False
            for h in holder:
                if h.startswith("Tag"):
                    seen_conv = True
                elif seen_conv:
                    ok = False
            if not ok or res[1][1] != ("t1", 1):
                ctx.violation(f"C20/{how}/registry/outcome-not-explained-by-any-sequential-order/register", f"holder uses {holder}, registering thread got {res[1][1]!r}; schedule {wit['switches']}", wit, sig=sig)
                return False
        if trace or how != "controlled":
            ctx.held(sig)
            ctx.state(sig)
        else:
            ctx.trivial("plan position never reached")
        return True

    res, trace, steps, locs = trial({})
    where = _S.get("where") or [[], []]
    if not judge(res, trace, "controlled", None):
        return
    plans = []
    for a, b in ((0, 1), (1, 0)):
        ks = list(range(1, steps[a] + 1))
        cap = 40 if tier == "quick" else 400
        if len(ks) > cap:
            # the registry's own lines first (every one of them), the rest evenly spread
            reg = [k for k in ks if k - 1 < len(where[a]) and where[a][k - 1].endswith("utils/base.py")]
            rest = [k for k in ks if k not in set(reg)]
            room = max(0, cap - len(reg))
            ks = reg[:cap * 3] + ([rest[int(i * len(rest) / room)] for i in range(room)] if room and rest else [])
        plans += [({(a, k): b}, a) for k in ks]
    if tier == "quick":
        rng.shuffle(plans)
        plans = plans[:120]
    for plan, first in plans:
        res, trace, _s, l2 = trial(plan, first=first)
        locs |= l2
        if not judge(res, trace, "controlled", plan):
            return
    for t in range(6 if tier == "quick" else 40):
        p = rng.choice([0.0, 0.05, 0.3])
        r2 = random.Random(rng.randrange(10 ** 9))
        res, trace, _s, _l = trial({}, free=lambda w, k, p=p, r2=r2: r2.random() < p)
        if not judge(res, [], "free-running", None):
            return
    ctx.count("distinct_switch_locations", len(locs))


def conclusive(m, tier):
    c = m["counters"]
    if c.get("plans_run", 0) == 0:
        return "no schedule executed (scheduler hook missing?)"
    if c.get("preemption_points_total", 0) == 0:
        return "no preemption point was ever reached inside the target functions"
    return None


def extra_coverage(m, tier):
    c = m["counters"]
    return {"schedules_executed": c.get("plans_run", 0), "distinct_interleavings_seen": len(m["states"]),
            "preemption_points_seen_in_baseline_runs": c.get("preemption_points_total", 0)}
