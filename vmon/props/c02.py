"""C02 — validation is exact on well-typed values and agrees with isinstance.

Oracle: independent reference semantics of every constraint (oracles/constraints_ref.py, written
from the documentation) on values that already have the source type:  accept <=> all hold,
result == input, isinstance(v, T) gives the same verdict."""
import datetime as dt
import math
import typing
from collections import deque
from decimal import Decimal

from .. import typespec as TS
from .. import values as V
from ..execu import run
from ..oracles import constraints_ref as CR
from ..runner import short

ID = "C02"
N = {"quick": 30000, "thorough": 900000}
TIME_BUDGET = {"quick": 40, "thorough": 540}
MIN_NONTRIVIAL = {"quick": 500, "thorough": 5000}
RULE = ("cases = (origin in int/float/Decimal/str/bytes/list/tuple/set/deque/dict/date/datetime, legal constraint set of "
        "size 1-3 incl. contains/min_contains/max_contains and Enum-class enum, declared via class statement / "
        "Rule.annotate / Field(...)) x ~24 WELL-TYPED values concentrated on every boundary (b, b+-1, nextafter(b), "
        "Decimal neighbours at the bound's scale, length limit+-1, digit counts around the limit in leading-zero / "
        "negative / exponent / trailing-zero spellings, regex partial matches, const/enum with True vs 1 vs 1.0, NaN, "
        "+-inf). Every (type, value) pair is judged: accept <=> reference says all constraints hold; result == value; "
        "isinstance(value, T) agrees. distinct = (origin, constraint names, route, value class, reference verdict).")
ASSUMPTIONS = [
    "constraints_ref.py is the trusted reference (documented semantics, exact Fraction arithmetic for multiple_of)",
    "cases where the documentation does not define the verdict (int/float/Decimal const tolerance, comparisons that raise) are skipped and counted",
    "@utype.apply types skip constraints for well-typed values by documented design: excluded",
]


def n_cases(tier):
    return N[tier]


def _num_values(rng, origin, cons):
    cd = dict(cons)
    vals = []
    conv = {"int": int, "float": float, "Decimal": Decimal}[origin]
    for name in ("gt", "ge", "lt", "le", "const"):
        if name in cd:
            b = cd[name]
            if origin == "int":
                vals += [int(b) - 1, int(b), int(b) + 1]
            elif origin == "float":
                fb = float(b)
                vals += [fb, math.nextafter(fb, math.inf), math.nextafter(fb, -math.inf), fb - 1, fb + 1]
            else:
                db = Decimal(b) if not isinstance(b, float) else Decimal(repr(b))
                e = db.as_tuple().exponent
                q = Decimal(1).scaleb(e) if isinstance(e, int) else Decimal(1)
                vals += [db, db + q, db - q, db + q / 10, db - q / 10, db + 1, db.normalize()]
    if "enum" in cd:
        for e in cd["enum"]:
            try:
                vals.append(conv(e) if not isinstance(e, float) or origin != "int" else int(e))
            except Exception:
                pass
    if "multiple_of" in cd:
        m = cd["multiple_of"]
        for k in (-3, -1, 0, 1, 2, 7):
            try:
                x = conv(m * k) if origin != "Decimal" else Decimal(repr(m * k))
                vals += [x, x + 1 if origin == "int" else x + conv("0.5") if origin == "Decimal" else x + 0.5]
            except Exception:
                pass
        if origin == "float":
            vals += [0.3, 0.5, 1.0, 1.1, 2.5, 1e16, 1e16 + 2]
    if "max_digits" in cd or "decimal_places" in cd:
        d = cd.get("max_digits", 3)
        p = cd.get("decimal_places", 2)
        if origin == "int":
            vals += [10 ** d - 1, 10 ** d, -(10 ** d - 1), -(10 ** d), 0, 10 ** (d - 1), 5]
        elif origin == "float":
            vals += [float(10 ** d - 1), float(10 ** d), 0.5, 0.05, 0.005, 0.0005, 1.5, 12.5, 12.25, 12.125, 99.95, 999.5, -1.25,
                     1e-7, 1.5e-5, 1e16, 1e22, 123456.0, 0.1 + 0.2, 0.0, -0.0, 100.0, 1.0]
        else:
            for s in ["0", "0.0", "0.00", "0.000", "1", "1.0", "1.50", "1.500", "12.3", "12.34", "123.4", "0.1", "0.01", "0.001",
                      "0.0123", "-1.5", "-0.05", "1E+2", "1E+3", "1.2E+3", "1E-3", "1E-10", "99.95", "999.5", "00012", "0012.30",
                      "1234567", "-99.99", "9.999", "10", "100", "1000"]:
                vals.append(Decimal(s))
    if origin == "float":
        vals += [float("nan"), float("inf"), float("-inf"), -0.0, 0.0]
    if origin == "Decimal":
        vals += [Decimal("NaN"), Decimal("Infinity"), Decimal("-Infinity"), Decimal("-0")]
    if origin == "int":
        vals += [0, 1, -1, True, False, 2 ** 63]
    vals += [conv(rng.randint(-300, 300)) for _ in range(4)]
    return vals


_STRS = ["", "a", "ab", "abc", "abcd", "abcde", "abcdef", "a" * 10, "a" * 11, "abab", "bc", "a|bc", "a.c", "axc", "a\nc", "abc\n",
         " abc", "ABC", "123", "12", "1234", "12345", "2020-01-02", "2020-1-2", "-1.5", "1.", "AbC1", "Ab", "red", "true", "1",
         "é", "日本", "\x00", "1.5", "12.5", "abcd-1", "ab-1", "abcd-", "abcabc"]


def _values_for(rng, origin, cons):
    cd = dict(cons)
    if origin in ("int", "float", "Decimal"):
        vals = _num_values(rng, origin, cons)
        if any(k in cd for k in ("length", "max_length", "min_length")):
            lim = cd.get("length", cd.get("max_length", cd.get("min_length")))
            conv = {"int": int, "float": float, "Decimal": Decimal}[origin]
            vals += [conv(10 ** max(lim - 1, 0)), conv(10 ** lim), conv(-(10 ** max(lim - 2, 0)))]
        return vals
    if origin in ("str", "bytes"):
        vals = list(_STRS)
        for name in ("length", "max_length", "min_length"):
            if name in cd:
                n = cd[name]
                vals += ["x" * max(n - 1, 0), "x" * n, "x" * (n + 1)]
        if "const" in cd:
            vals += [cd["const"], cd["const"] + "x", cd["const"].upper()]
        if "enum" in cd:
            vals += list(cd["enum"])
        if origin == "bytes":
            vals = [v.encode() if isinstance(v, str) else v for v in vals]
        return vals
    if origin in ("date", "datetime"):
        vals = []
        for name in ("gt", "ge", "lt", "le"):
            if name in cd:
                b = cd[name]
                step = [dt.timedelta(days=1)] if origin == "date" else [dt.timedelta(microseconds=1), dt.timedelta(seconds=1), dt.timedelta(days=1)]
                for s in step:
                    vals += [b - s, b, b + s]
        vals += [dt.date.min, dt.date.max] if origin == "date" else [dt.datetime.min, dt.datetime.max]
        return vals
    if origin in ("list", "tuple", "set", "frozenset", "deque", "dict"):
        mk = {"list": list, "tuple": tuple, "set": set, "frozenset": frozenset, "deque": deque}.get(origin)
        base = [[], [1], [1, 2], [1, 2, 3], [1, 2, 3, 4], [1, 2, 3, 4, 5], [1, 1], [1, 1.0], [1, True], [0, False], ["a", "a"], ["a", "A"],
                [5, 6, 7], [5, 5, 9], [4, 5], [9, 9, 9, 9], [(1,), (1,)], [None, None], [1.5, 2.5], [10, 20, 30]]
        nan = float("nan")
        if origin in ("list", "tuple", "deque"):
            base += [[[1], [1]], [[1], [2]], [nan, nan], [nan, float("nan")], [{"a": 1}, {"a": 1}],
                     # equal items of different Python types: hashable next to unhashable, a str-enum member next to its value
                     [b"k", bytearray(b"k")], [bytearray(b"k"), 1, b"k"], [{1, 2}, frozenset({1, 2})], [frozenset({1, 2}), {1, 2}],
                     [V.Tone.RED, "red"], ["red", 2, V.Tone.RED], [b"k", bytearray(b"j")], [(), []]]
        if origin == "dict":
            return [dict((str(i), x) for i, x in enumerate(b)) for b in base]
        out = []
        for b_ in base:
            try:
                out.append(mk(b_))
            except TypeError:
                pass
        return out
    return []


CONTAINS_TYPES = [
    ("int>=5", lambda x: isinstance(x, int) and not isinstance(x, bool) and x >= 5),
]


UNTYPED_VALUES = [0, 1, 2, True, False, 1.0, 0.0, 2.0, Decimal(1), Decimal("1.0"), "1", "a", b"1", b"a", None, (1,), [1], 1 + 0j, "",
                  V.Num.ONE, V.Color.RED, "red", float("nan")]


def make_case(i, rng, tier):
    if i % 40 == 7:
        kind = rng.choice(["const", "const", "enum"])
        if kind == "const":
            cons = (("const", rng.choice([0, 1, True, False, 1.0, "1", "a", b"a", None, (1,), Decimal(1)])),)
        else:
            cons = (("enum", tuple(rng.sample([0, 1, 2, "a", "1", 1.5, None, b"a"], rng.randint(1, 3)))),)
        return {"origin": None, "cons": cons, "route": rng.choice(["class", "annotate"]), "extra": None, "rng": rng, "minc": None, "maxc": None}
    origin = rng.choice(["int", "int", "float", "float", "Decimal", "Decimal", "str", "str", "bytes", "list", "tuple", "set", "deque",
                         "dict", "date", "datetime", "frozenset"])
    cons, _ = TS.gen_constraints(rng, origin)
    extra = None
    r = rng.random()
    if origin in ("int", "float", "Decimal") and r < 0.12:
        # length constraints on numbers are documented (len(str(v)))
        cons = ((rng.choice(["length", "max_length", "min_length"]), rng.choice([1, 2, 3])),)
    if origin in ("int", "str") and r > 0.93:
        extra = "enumcls"
    if origin in ("list", "tuple", "deque", "set") and r > 0.7:
        extra = "contains"
    if not cons and not extra:
        return None
    route = rng.choice(["class", "annotate", "field", "apply_dc"])
    return {"origin": origin, "cons": cons, "route": route, "extra": extra, "rng": rng,
            "minc": rng.choice([None, None, 1, 2]), "maxc": rng.choice([None, None, 2, 3]), "collect": rng.random() < 0.25}


def _build(case):
    import utype
    from utype import Field, Rule, Schema
    from utype.parser.rule import LogicalType

    origin = TS.ORIGINS[case["origin"]] if case["origin"] else None
    cd = {}
    for k, v in case["cons"]:
        cd[k] = list(v) if k == "enum" else v
    contains_pred = None
    if case["extra"] == "enumcls":
        cd = {"enum": V.Num if case["origin"] == "int" else V.Color}
    if case["extra"] == "contains":
        class Ge5(int, Rule):
            ge = 5
        cd = dict(cd)
        cd["contains"] = Ge5
        if case["minc"] and case["maxc"] and case["minc"] > case["maxc"]:
            case["maxc"] = None
        if case["minc"]:
            cd["min_contains"] = case["minc"]
        if case["maxc"]:
            cd["max_contains"] = case["maxc"]
        contains_pred = CONTAINS_TYPES[0][1]
    route = case["route"]
    # the declaration's own options may ask for error collection: the verdict on a well-typed value is the same
    own = {"__options__": utype.Options(collect_errors=True)} if case.get("collect") else {}
    ann_kw = {"options": own["__options__"]} if own else {}
    if origin is None:
        T = LogicalType("C", (Rule,), dict(cd, **own)) if route == "class" else Rule.annotate(constraints=dict(cd), **ann_kw)
        call = lambda v: T(v)
    elif route == "class" and origin is not bool:
        T = LogicalType("C", (origin, Rule), dict(cd, **own))
        call = lambda v: T(v)
    elif route == "annotate" or route == "class":
        T = Rule.annotate(origin, constraints=dict(cd), **ann_kw)
        call = lambda v: T(v)
    else:
        base = Schema if route == "field" else utype.DataClass
        S = type(base)("S", (base,), dict({"__annotations__": {"f": origin}, "f": Field(**cd), "__qualname__": "S", "__module__": "vmon_generated"}, **own))
        T = S.__parser__.fields["f"].type
        if route == "field":
            call = lambda v: dict.__getitem__(S(f=v), "f")
        else:
            call = lambda v: S(f=v).__dict__["f"]
        case["_cls"] = S
    return T, call, cd, contains_pred


def ref_verdict(cd, contains_pred, v):
    plain = {k: b for k, b in cd.items() if k not in ("contains", "min_contains", "max_contains")}
    if isinstance(v, Decimal) and "decimal_places" in plain and not isinstance(plain["decimal_places"], bool):
        # documented: a Decimal with fewer decimals is completed to decimal_places first
        # (Decimal('123.4') -> Decimal('123.40')) and the later constraints see the completed value
        if CR.holds("decimal_places", plain["decimal_places"], v) is False:
            return False
        if v.is_finite():
            v2 = v.quantize(Decimal(1).scaleb(-plain["decimal_places"]))
            later = {k: b for k, b in plain.items() if k in ("multiple_of", "max_digits", "length", "max_length", "min_length")}
            first = {k: b for k, b in plain.items() if k not in later}
            r1 = CR.all_hold(first, v)
            if r1 is False:
                return False
            r2 = CR.all_hold(later, v2)
            if r2 is False:
                return False
            r = True if (r1 and r2) else None
            plain = None
    if plain is not None:
        r = CR.all_hold(plain, v)
    if r is False:
        return False
    if contains_pred is not None:
        try:
            n = sum(1 for x in v if contains_pred(x))
        except Exception:
            return None
        if n == 0:
            return False
        if cd.get("min_contains") and n < cd["min_contains"]:
            return False
        if cd.get("max_contains") and n > cd["max_contains"]:
            return False
    return r


def run_case(case, ctx):
    try:
        T, call, cd, contains_pred = _build(case)
    except Exception as e:
        ctx.count("declaration_rejected:" + type(e).__name__)
        return
    try:
        origin = TS.ORIGINS[case["origin"]] if case["origin"] else None
        vals = _values_for(case["rng"], case["origin"], case["cons"]) if origin else list(UNTYPED_VALUES)
        if case["extra"] == "enumcls":
            vals = ([1, 2, 3, 0, True, V.Num.ONE] if case["origin"] == "int" else ["red", "green", "RED", "blue", ""])
        names = tuple(sorted(cd))
        for v in vals:
            if origin is not None and type(v) is not origin:
                continue  # subclass instances (bool for int) are re-initialised by the converter: not "already the source type"
            ref = ref_verdict(cd, contains_pred, v)
            if ref is None:
                ctx.skip("reference-undefined")
                continue
            out = run(lambda: call(v))
            ctx.count("calls")
            vc = TS.value_class(v)
            sig = (case["origin"], names, case["route"], vc, ref, bool(case.get("collect")))
            wit = {"origin": case["origin"], "constraints": {k: short(b, 60) for k, b in cd.items()}, "route": case["route"],
                   "value": short(v, 100), "reference_says": "all hold" if ref else "violated", "outcome": repr(out)}
            if out.kind == "escape":
                ctx.violation(f"C02/escape/{type(out.exc).__name__}/{'+'.join(names)}",
                              f"{case['origin']} {cd} on well-typed {short(v, 80)}: {out!r}", wit, sig=sig)
                continue
            if ref and not out.ok:
                ctx.violation(f"C02/valid-rejected/{case['origin']}/{'+'.join(names)}",
                              f"{case['origin']} {short(cd, 160)} rejects valid {short(v, 80)}: {out!r}", wit, sig=sig)
                continue
            if not ref and out.ok:
                ctx.violation(f"C02/invalid-accepted/{case['origin']}/{'+'.join(names)}",
                              f"{case['origin']} {short(cd, 160)} accepts invalid {short(v, 80)} -> {short(out.value, 80)}", wit, sig=sig)
                continue
            if out.ok and not V.loose_eq(out.value, v):
                ctx.violation(f"C02/valid-altered/{case['origin']}/{'+'.join(names)}",
                              f"{case['origin']} {short(cd, 160)} alters valid {short(v, 80)} -> {short(out.value, 80)}", wit, sig=sig)
                continue
            if origin is None:
                ctx.held(sig)  # no source type: isinstance() is not defined for it
                continue
            # isinstance agreement
            try:
                inst = isinstance(v, T)
            except Exception as e:
                ctx.violation(f"C02/isinstance-raises/{type(e).__name__}", f"isinstance({short(v, 60)}, {T!r}) raised {e!r}", wit, sig=sig)
                continue
            if inst != out.ok:
                ctx.violation(f"C02/isinstance-disagrees/{case['origin']}/{'+'.join(names)}",
                              f"isinstance({short(v, 60)}, {T!r}) = {inst} but parse {'accepts' if out.ok else 'rejects'}", wit, sig=sig)
                continue
            ctx.held(sig)
            if ctx.want_sample():
                ctx.sample(wit)
    finally:
        c = case.get("_cls")
        if c is not None:
            try:
                from utype.parser import base as pbase
                pbase.__parsers__.pop(c, None)
            except Exception:
                pass
