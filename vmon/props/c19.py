"""C19 — parsing is pure: no input mutation, no shared defaults, no cross-call state.

P1 deep snapshots of every input before/after each parse (accepted and rejected).
P2 id-graphs of the mutable containers reachable from defaulted fields / parameters of successive
   instances and calls, then post-parse mutation of one result.
P3 a history of parses followed by a probe whose outcome is compared with the SAME probe made by a
   process that never ran the history (fork of a zygote that has only imported utype)."""
import copy
import typing
import itertools
import json
import os
import subprocess
import sys
import types

from .. import typespec as TS
from .. import values as V
from ..execu import run
from ..routes import make_entry
from ..runner import HERE, REPO, short
from . import c19_helper as H

ID = "C19"
N = {"quick": 20000, "thorough": 260000}
TIME_BUDGET = {"quick": 50, "thorough": 540}
MIN_NONTRIVIAL = {"quick": 300, "thorough": 3000}
RULE = ("family P1 (60%): random TypeSpec / data class entered through every route under options incl. exclude/preserve/"
        "collect_errors x 8 inputs with nested mutable containers (incl. same-type shortcuts: an exactly typed list / dict / "
        "instance); structural snapshot before == after, for accepted and rejected parses. family P2 (15%): data classes "
        "(Schema, DataClass) and @parse functions whose defaults are generated nested mutables (list / dict / set / tuple-of-list "
        "/ dict-of-tuple-of-list ..., plain default, Field(default=), default_factory, Annotated[T, Field(...)] = default): container id-graphs of instance 1, "
        "instance 2 and the declared default must be disjoint; after mutating everything reachable from instance 1, instance 2 "
        "and a new instance 3 must still equal the pristine default. family P3 (25%): a generated module (Schema/DataClass with "
        "self and late forward references, unions, a @parse function, a @parse generator, a lax Rule) + a history of 1-10 calls "
        "(valid, invalid, collect_errors, max_depth) + a probe call; the probe's outcome after the history must equal its outcome "
        "in a fresh process. Non-trivial: P1 input holds a mutable container; P2 always; P3 history contains a failure or a "
        "first use of a forward reference; distinct = (family, declaration shape, input/history shape).")
ASSUMPTIONS = [
    "one-shot inputs (iterators, generators, file objects) are consumed by being read: not 'modification of the caller's objects' -- skipped",
    "P3 'fresh process' = a fork of a process that has imported utype and nothing else (state accumulated by the history cannot be present there)",
    "results may alias input objects when no conversion is needed (documented same-type shortcut); only modification of the input is judged in P1",
]
_S = {"uid": itertools.count()}


def n_cases(tier):
    return N[tier]


def setup(ctx):
    env = dict(os.environ, PYTHONPATH=os.pathsep.join([REPO, HERE, os.path.join(HERE, ".deps")]), PYTHONDONTWRITEBYTECODE="1")
    _S["helper"] = subprocess.Popen([sys.executable, "-u", "-m", "vmon.props.c19_helper"], stdin=subprocess.PIPE, stdout=subprocess.PIPE,
                                    stderr=subprocess.DEVNULL, env=env, cwd=HERE, text=True)


def finish(ctx):
    h = _S.get("helper")
    if h:
        try:
            h.stdin.close()
            h.wait(timeout=10)
        except Exception:
            h.kill()


def fresh(req):
    h = _S["helper"]
    h.stdin.write(json.dumps(req) + "\n")
    h.stdin.flush()
    line = h.stdout.readline()
    if not line:
        raise RuntimeError("probe helper died")
    return json.loads(line)


# ---- case generation ------------------------------------------------------------------------------
def gen_mutable(rng, depth=2):
    r = rng.random()
    if depth <= 0 or r < 0.35:
        return rng.choice([lambda: [], lambda: [1], lambda: {}, lambda: {"k": 1}, lambda: set(), lambda: {1, 2}])()
    kind = rng.choice(["list", "dict", "tuple", "tuple"])
    n = rng.choice([1, 2])
    items = [gen_mutable(rng, depth - 1) for _ in range(n)]
    if kind == "list":
        return items
    if kind == "dict":
        return {"k%d" % i: x for i, x in enumerate(items)}
    return tuple(items)


P3_CALLS = [
    ["from", "Item", {"n": 1}, {}], ["from", "Item", {"n": "2", "tags": "1,2"}, {}], ["from", "Item", {"n": -1}, {}],
    ["from", "Item", {"n": 1, "child": {"n": 2, "u": {"v": "x"}}}, {}], ["from", "Item", {"n": "x", "tags": "a"}, {"collect_errors": True}],
    ["from", "Item", {"n": 1, "u": {"v": 1}}, {}], ["from", "Item", {"n": 1, "child": {"n": -5}}, {}], ["from", "Item", {"n": 3, "u": 4}, {}],
    ["from", "Item", {"n": 1, "child": {"n": 1, "child": {"n": 1, "child": {"n": 1}}}}, {"max_depth": 2}],
    ["from", "Item", {"n": 1, "tags": ["x", 2]}, {"invalid_items": "exclude"}], ["init", "Item", {"n": 5}, {}], ["init", "Item", {"n": "q"}, {}],
    ["from", "Other", {"v": 3}, {}], ["from", "Other", {}, {}], ["from", "Other", {"v": "s", "w": {"n": 0}}, {}],
    ["call", "f", {"args": [1]}, {}], ["call", "f", {"args": ["x"]}, {}], ["call", "f", {"args": [1, {"n": 1}]}, {}],
    ["call", "f", {"args": [1, None, 2, "x"]}, {}], ["call", "f", {"args": ["2"], "kwargs": {"z": 1}}, {}], ["call", "f", {"kwargs": {"b": {"n": 2}}}, {}],
    ["gen", "g", {"args": [2]}, {}], ["gen", "g", {"args": ["x"]}, {}], ["gen", "g", {"args": [1, {"v": "s"}]}, {}], ["gen", "g", {"args": [3, {"v": []}]}, {}],
    ["gen", "g", {"args": ["1"]}, {}],
    ["type", "R", 7, {}], ["type", "R", "x", {}], ["type", "R", -3, {}], ["type", "R", 12.0, {}],
    ["type", "U", 5, {}], ["type", "U", {"n": 1}, {}], ["type", "U", {"n": -1}, {}], ["type", "U", "zz", {}],
    # unions in which several arguments accept inputs of one Python type: which argument wins must depend on the VALUE only,
    # never on which argument took an earlier input of that type
    ["type", "UL", [1.5, 2.5], {}], ["type", "UL", [1, 2, 3], {}], ["type", "UL", ["1", "2"], {}], ["type", "UD", 3.5, {}], ["type", "UD", 3.0, {}],
    ["type", "UD", "7", {}], ["type", "UAG", {"name": "g"}, {}], ["type", "UAG", {"name": "root", "level": 9}, {}], ["type", "UAG", {"name": "x", "level": "y"}, {}],
    ["from", "Item", {"n": 1, "ul": [1, 2]}, {}], ["from", "Item", {"n": 1, "ul": [0.5]}, {}],
    # two fields / parameters that each declare their own dependencies, given alone and together
    ["from", "Dep", {"p": 1, "x": 1}, {}], ["from", "Dep", {"p": 1, "q": 1, "x": 1, "y": 1}, {}], ["from", "Dep", {"p": 1, "q": 2, "x": 1}, {}],
    ["from", "Dep", {"q": 1, "y": 2}, {}], ["from", "Dep", {"q": 5}, {}], ["from", "Dep", {"p": "3", "q": "4", "x": 0, "y": 0}, {"data_first_search": True}],
    ["call", "fd", {"kwargs": {"p": 1, "x": 1}}, {}], ["call", "fd", {"kwargs": {"p": 1, "q": 1, "x": 1, "y": 1}}, {}], ["call", "fd", {"kwargs": {"q": 1, "y": 1}}, {}],
    ["call", "fd", {"kwargs": {"q": 1, "x": 1}}, {}],
]


def p3_source(rng, uid=None):
    """module source; class names carry a per-case suffix because typing caches Optional['Name'] objects
    process-wide (and utype stores the evaluated class on them): identical names in different generated
    modules would leak between CASES, which is not what a case's own history is about"""
    uid = rng.randrange(10 ** 9) if uid is None else uid
    I, O = "Item%d" % uid, "Other%d" % uid
    base = rng.choice(["Schema", "Schema", "DataClass"])
    opts = rng.choice(["", "", "collect_errors=True", "max_depth=4", "invalid_items='exclude'"])
    late = rng.random() < 0.7   # 'Other' is referenced before it is defined
    other = OTHER.replace("Other", O).replace("Item", I)
    other_first = "" if late else other
    other_last = other if late else ""
    child_ann = rng.choice(["Optional['Item']", "'Item'", "Optional[List['Item']]"])
    u_ann = rng.choice(["Union[int, 'Other', None]", "Optional['Other']", "'Other'"])
    src = f"""import typing
from typing import List, Optional, Union, Dict, Iterator
import utype
from utype import Schema, DataClass, Field, Options, Rule, Lax, parse
{other_first}
class {I}({base}):
    __options__ = Options({opts})
    n: int = Field(ge=0)
    tags: List[int] = Field(default_factory=list)
    child: {child_ann.replace("Item", I)} = None
    u: {u_ann.replace("Other", O)} = None
    ul: Union[List[int], List[float]] = None
{other_last}
@parse
def f(a: int, b: '{I}' = None, *args: int, **kw) -> int:
    return a

@parse
def g(n: int, m: '{O}' = None) -> Iterator[int]:
    for i in range(n):
        yield str(i)

class R(int, Rule):
    ge = 0
    multiple_of = Lax(5)

U = Rule.parse_annotation(Union[int, {I}])
UL = Rule.parse_annotation(Union[List[int], List[float]])
UD = Rule.parse_annotation(Union[int, __import__('decimal').Decimal])
class Admin{uid}(Schema):
    name: str
    level: int
class Guest{uid}(Schema):
    name: str
UAG = Rule.parse_annotation(Union[Admin{uid}, Guest{uid}])
class Dep{uid}({base}):
    p: int = Field(dependencies=['x'], default=0)
    q: int = Field(dependencies=['y'], default=0)
    x: int = 0
    y: int = 0
@parse
def fd(p: int = utype.Param(0, dependencies=['x']), q: int = utype.Param(0, dependencies=['y']), x: int = 0, y: int = 0):
    return p, q
Item, Other, Dep = {I}, {O}, Dep{uid}
"""
    return src, (base, opts, late, child_ann, u_ann)


OTHER = """
class Other(Schema):
    v: str
    w: Optional['Item'] = None
"""

SAME_NAME_A = """
from typing import Optional
from utype import Schema, DataClass
class Node(DataClass):
    a: int
    child: Optional['Node'] = None
"""
SAME_NAME_B = """
from typing import Optional
from utype import Schema, DataClass
class Node(Schema):
    b: str
    child: Optional['Node'] = None
"""


def make_case(i, rng, tier):
    if rng.random() < 0.03:
        members = [{"kind": "cat", "lives": "3"}, {"type": "dog", "name": 5}, {"lives": 2}, {"kind": "bird"}, {}, {"kind": "dog"}, {"type": "cat"}, {"name": "x", "type": "fish"}]
        kinds = ["defaultdict-list", "defaultdict-none", "defaultdict-str", "OrderedDict", "dict", "Counter"]
        return {"fam": "P1d", "base": rng.choice(["Schema", "DataClass"]), "policy": rng.choice(["none", "none", "exclude", "preserve"]),
                "where": rng.choice(["field", "field", "list", "param"]), "inputs": [(rng.choice(members), rng.choice(kinds)) for _ in range(6)]}
    r = rng.random()
    if r < 0.6:
        depth = rng.choice([1, 2, 2, 3])
        spec = TS.gen_spec(rng, depth, allow_lax=rng.random() < 0.15, dc=lambda rr, d: TS.gen_dc(rr, max(0, min(d, 1))))
        if rng.random() < 0.25:
            spec = TS.gen_dc(rng, 1)
        elif rng.random() < 0.1:
            # a transforming (lax) constraint on a bare container: the input already has the target type, so whatever the
            # constraint does happens to an object the caller still holds (possibly nested inside the caller's data)
            o = rng.choice(["list", "list", "set", "tuple", "deque"])
            c = rng.choice(["max_length", "max_length", "length"] + (["unique_items"] if o in ("list", "tuple", "deque") else []))
            spec = ("con", o, ((c, True if c == "unique_items" else rng.choice([1, 2, 3])),), (c,), ())
            if rng.random() < 0.5:
                spec = rng.choice([("gen", "list", (spec,)), ("gen", "dict", (("leaf", "str"), spec)), ("opt", spec)])
        opts = dict(rng.choice([{}, {}, {"collect_errors": True}, {"invalid_items": "exclude"}, {"invalid_items": "preserve"},
                                {"invalid_keys": "exclude", "invalid_values": "preserve"}, {"no_data_loss": True}, {"addition": True},
                                {"invalid_values": "exclude", "collect_errors": True}]))
        inputs = []
        for _ in range(8):
            if rng.random() < 0.2:
                vv = TS.valid_value(spec)
                if vv is not None and isinstance(vv, (list, dict, set)):
                    inputs.append(lambda vv=vv: copy.deepcopy(vv))
                    continue
            inputs.append(TS.gen_input(rng, spec))
        return {"fam": "P1", "spec": spec, "opts": opts, "route": rng.choice(["tt", "call", "field", "param", "args", "kwargs", "dcfield", "return"]),
                "inputs": inputs, "rng": rng}
    if r < 0.75:
        n = rng.randint(1, 4)
        return {"fam": "P2", "kind": rng.choice(["Schema", "DataClass", "function"]),
                "defaults": [(gen_mutable(rng, rng.choice([1, 2, 3])), rng.choice(["plain", "field", "factory", "annotated"])) for _ in range(n)]}
    if rng.random() < 0.03:
        # two modules declaring a class of the SAME name, each with a string self-reference inside Optional[...]
        return {"fam": "P3x"}
    src, shape = p3_source(rng)
    hist = [rng.choice(P3_CALLS) for _ in range(rng.randint(1, 10))]
    return {"fam": "P3", "source": src, "shape": shape, "history": hist, "probe": rng.choice(P3_CALLS)}


# ---- P1 -------------------------------------------------------------------------------------------
def _ambient():
    """process-wide settings a conversion could touch: the thread's decimal context, the warning filters' length, recursion limit"""
    import decimal
    import sys
    c = decimal.getcontext()
    return (c.prec, c.rounding, c.Emax, c.Emin, tuple(sorted(k.__name__ for k, v in c.traps.items() if v)), sys.getrecursionlimit())


def _restore_ambient():
    import decimal
    decimal.setcontext(decimal.DefaultContext.copy())


def has_mutable(v, d=0):
    if isinstance(v, (list, dict, set, bytearray)) or type(v).__name__ in ("deque", "MyList", "MyDict"):
        return True
    if isinstance(v, tuple) and d < 4:
        return any(has_mutable(x, d + 1) for x in v)
    return False


def run_p1(case, ctx):
    from utype import Rule

    spec, opts, route = case["spec"], case["opts"], case["route"]
    b = TS.Builder(case["rng"])
    try:
        try:
            ann = b.annotation(spec)
            T = Rule.parse_annotation(ann)
            entry = make_entry(route, ann, T, opts)
        except Exception as e:
            ctx.count("declaration_rejected:" + type(e).__name__)
            return
        if entry.cls is not None:
            b.created.append(entry.cls)
        shape = TS.spec_shape(spec)
        for mk in case["inputs"]:
            try:
                x = mk()
            except Exception:
                continue
            if V.is_consumable(x):
                ctx.skip("one-shot input")
                continue
            before = V.snapshot(x)
            amb0 = _ambient()
            out = run(lambda: entry(x))
            ctx.count("parses")
            after = V.snapshot(x)
            sig = ("P1", shape, route, tuple(sorted(opts.items())), TS.value_class(x), out.kind)
            amb1 = _ambient()
            if amb0 != amb1:
                _restore_ambient()
                ctx.violation(f"C19/P1-ambient-state-changed/{route}/{TS.node_tag(spec)}",
                              f"{route} {TS.describe(spec)[:160]} opts={opts} input={short(x, 80)}: the parse ({out.kind}) left process-wide state changed: {amb0} -> {amb1}",
                              {"spec": TS.describe(spec), "route": route, "options": opts, "input": short(x, 200), "before": repr(amb0), "after": repr(amb1)}, sig=sig)
                continue
            if before != after:
                ctx.violation(f"C19/P1-input-mutated/{route}/{TS.node_tag(spec)}",
                              f"{route} {TS.describe(spec)[:160]} opts={opts}: input changed by the parse ({out.kind}): before {short(before, 120)} after {short(after, 120)}",
                              {"spec": TS.describe(spec), "route": route, "options": opts, "before": short(before, 300), "after": short(after, 300), "outcome": repr(out)}, sig=sig)
                continue
            if has_mutable(x):
                ctx.held(sig)
                if ctx.want_sample() and out.ok and spec[0] != "leaf":
                    ctx.sample({"family": "P1", "spec": TS.describe(spec)[:200], "route": route, "options": opts, "input": short(x, 120), "unchanged": True})
            else:
                ctx.trivial("immutable input")
    finally:
        b.cleanup()


P1D_SRC = """
from typing import Literal, Union, Optional, List
import utype
from utype import Schema, DataClass, Field, Options
class Cat({base}):
    kind: Literal['cat'] = Field(alias_from=['type'])
    lives: int = 9
class Dog({base}):
    kind: Literal['dog'] = Field(alias_from=['type'])
    name: str = ''
class Owner({base}):
    pet: Union[Cat, Dog] = Field(discriminator='kind', required=False{kw})
    pets: List[Union[Cat, Dog]] = Field(default_factory=list)
    n: int = 0
@utype.parse
def adopt(pet: Union[Cat, Dog] = utype.Param(None, discriminator='kind')):
    return type(pet).__name__
"""


def _mapping_of(kind, d):
    import collections
    if kind == "defaultdict-list":
        return collections.defaultdict(list, d)
    if kind == "defaultdict-none":
        return collections.defaultdict(lambda: None, d)
    if kind == "defaultdict-str":
        return collections.defaultdict(str, d)
    if kind == "OrderedDict":
        return collections.OrderedDict(d)
    if kind == "Counter":
        return collections.Counter({k: v for k, v in d.items() if isinstance(v, int)}) if all(isinstance(v, int) for v in d.values()) else dict(d)
    return dict(d)


def run_p1d(case, ctx):
    """a member of a discriminated union given as a mapping with a __missing__ hook (defaultdict ...): reading it must not write to it"""
    ns = {}
    kw = {"none": "", "exclude": ", on_error='exclude'", "preserve": ", on_error='preserve'"}[case["policy"]]
    try:
        exec(P1D_SRC.format(base=case["base"], kw=kw), ns)
    except Exception as e:
        ctx.count("declaration_rejected:" + type(e).__name__)
        return
    try:
        for member, mk in case["inputs"]:
            m = _mapping_of(mk, member)
            x = {"pet": m, "n": 1} if case["where"] == "field" else ({"pets": [m], "n": 2} if case["where"] == "list" else m)
            before = V.snapshot(x)
            if case["where"] == "param":
                out = run(lambda: ns["adopt"](x))
            else:
                out = run(lambda: ns["Owner"].__from__(x))
            ctx.count("parses")
            ctx.count("discriminated_member_given_as:" + mk)
            after = V.snapshot(x)
            sig = ("P1d", case["base"], case["policy"], case["where"], mk, tuple(sorted(member)), out.kind)
            if before != after:
                ctx.violation(f"C19/P1-input-mutated/discriminated-union-member/{mk.split('-')[0]}",
                              f"Field(discriminator='kind') over Union[Cat, Dog], member given as {mk} {short(member, 80)} ({case['where']}): input changed by the parse "
                              f"({out.kind}): before {short(before, 120)} after {short(after, 120)}",
                              {"source": P1D_SRC.format(base=case["base"], kw=kw), "where": case["where"], "before": short(before, 300), "after": short(after, 300), "outcome": repr(out)}, sig=sig)
                return
            ctx.held(sig)
    finally:
        from utype.parser import base as pbase
        for v in ns.values():
            try:
                pbase.__parsers__.pop(v, None)
            except Exception:
                pass


# ---- P2 -------------------------------------------------------------------------------------------
def containers(v, acc=None, d=0):
    """ids of mutable containers reachable from v"""
    acc = {} if acc is None else acc
    if d > 8:
        return acc
    if isinstance(v, (list, dict, set)):
        acc[id(v)] = v
    if isinstance(v, dict):
        for x in v.values():
            containers(x, acc, d + 1)
    elif isinstance(v, (list, tuple, set, frozenset)):
        for x in v:
            containers(x, acc, d + 1)
    return acc


def mutate_all(v, d=0):
    if d > 8:
        return
    if isinstance(v, dict):
        for x in list(v.values()):
            mutate_all(x, d + 1)
        v["__mutated__"] = 1
    elif isinstance(v, list):
        for x in list(v):
            mutate_all(x, d + 1)
        v.append("__mutated__")
    elif isinstance(v, set):
        v.add("__mutated__")
    elif isinstance(v, tuple):
        for x in v:
            mutate_all(x, d + 1)


def run_p2(case, ctx):
    import utype
    from utype import Field, Param

    declared = [d for d, _ in case["defaults"]]
    pristine = copy.deepcopy(declared)
    names = ["m%d" % i for i in range(len(declared))]
    uid = next(_S["uid"])
    try:
        if case["kind"] == "function":
            ns = {"_D": declared, "Param": Param, "copy": copy, "typing": typing}
            params = []
            for i, (d, how) in enumerate(case["defaults"]):
                if how == "plain":
                    params.append(f"{names[i]}=_D[{i}]")
                elif how == "field":
                    params.append(f"{names[i]}=Param(_D[{i}])")
                elif how == "annotated":
                    # the settings in the annotation, the default as a plain Python default
                    params.append(f"{names[i]}: typing.Annotated[type(_D[{i}]), Param(description='d')] = _D[{i}]")
                else:
                    params.append(f"{names[i]}=Param(default_factory=lambda: copy.deepcopy(_D[{i}]))")
            exec("def fn(" + ", ".join(params) + "):\n    return dict(locals())\n", ns)
            w = utype.parse(ns["fn"])
            make = lambda: {k: v for k, v in w().items() if k in names}
        else:
            base = utype.Schema if case["kind"] == "Schema" else utype.DataClass
            body = {"__module__": "vmon_generated", "__qualname__": "P%d" % uid, "__annotations__": {}}
            for i, (d, how) in enumerate(case["defaults"]):
                body["__annotations__"][names[i]] = type(d)
                if how == "plain":
                    body[names[i]] = d
                elif how == "field":
                    body[names[i]] = Field(default=d)
                elif how == "annotated":
                    body["__annotations__"][names[i]] = typing.Annotated[type(d), Field(description="d")]
                    body[names[i]] = d
                else:
                    body[names[i]] = Field(default_factory=lambda d=d: copy.deepcopy(d))
            cls = type(base)("P%d" % uid, (base,), body)
            make = lambda: {n: getattr(cls(), n) for n in names} if False else _fields_of(cls(), names)
    except Exception as e:
        ctx.count("declaration_rejected:" + type(e).__name__)
        return
    o1, o2 = run(make), run(make)
    ctx.count("parses", 2)
    if not (o1.ok and o2.ok):
        ctx.count("p2_instance_failed")
        return
    a, b2 = o1.value, o2.value
    shape = ("P2", case["kind"], tuple((V.snapshot(d)[0], how) for d, how in case["defaults"]))
    wit = {"family": "P2", "kind": case["kind"], "defaults": [(short(p, 80), how) for p, (_, how) in zip(pristine, case["defaults"])]}
    ca, cb, cd = containers(a), containers(b2), containers(declared)
    for label, x, y in (("two-instances-share-a-container", ca, cb), ("instance-shares-the-declared-default", ca, cd)):
        common = set(x) & set(y)
        if common:
            obj = x[next(iter(common))]
            hows = "+".join(sorted({h for _, h in case["defaults"]}))
            ctx.violation(f"C19/P2-{label}/{case['kind']}/{type(obj).__name__}-inside-{_outer(declared, obj)}",
                          f"{case['kind']} defaults {wit['defaults']}: {label}: {short(obj, 60)}", wit, sig=shape)
            return
    mutate_all(a)
    o3 = run(make)
    ctx.count("parses")
    for label, got in (("other-instance-changed-by-mutation", b2), ("later-instance-changed-by-mutation", o3.value if o3.ok else None)):
        exp = dict(zip(names, pristine))
        if got is None or not V.approx_eq(got, exp):
            ctx.violation(f"C19/P2-{label}/{case['kind']}", f"{case['kind']} defaults {wit['defaults']}: after mutating instance 1, {label}: {short(got, 120)} != {short(exp, 120)}", wit, sig=shape)
            return
    if not V.approx_eq(declared, pristine):
        ctx.violation(f"C19/P2-declared-default-changed-by-mutation/{case['kind']}", f"declared defaults now {short(declared, 120)}", wit, sig=shape)
        return
    ctx.held(shape)
    if ctx.want_sample():
        ctx.sample(wit)


def _fields_of(inst, names):
    return {n: getattr(inst, n) for n in names}


def _outer(declared, obj):
    for d in declared:
        if d is obj:
            return "top"
        if id(obj) in containers(d):
            return type(d).__name__
    return "result"


# ---- P3 -------------------------------------------------------------------------------------------
def run_p3(case, ctx):
    uid = next(_S["uid"])
    mod = types.ModuleType("vmon_c19_decl_%d" % uid)
    sys.modules[mod.__name__] = mod
    try:
        try:
            exec(compile(case["source"], "<c19-declaration>", "exec"), mod.__dict__)
        except Exception as e:
            ctx.count("declaration_rejected:" + type(e).__name__)
            return
        hist_out = [H.perform(mod.__dict__, c) for c in case["history"]]
        after = H.perform(mod.__dict__, case["probe"])
        ctx.count("parses", len(hist_out) + 1)
        ans = fresh({"source": case["source"], "calls": [case["probe"]], "module": "vmon_c19_decl_fresh"})
        ctx.count("fresh_probes")
        if not ans.get("ok"):
            ctx.inconclusive_case("fresh-process declaration failed: " + str(ans.get("error"))[:80])
            return
        expect = ans["results"][0]
        got = json.loads(json.dumps(after))
        kinds = tuple(c[0] + ":" + c[1] + ":" + ho[0] for c, ho in zip(case["history"], hist_out))
        sig = ("P3", case["shape"], kinds, tuple(case["probe"][:2]))
        wit = {"family": "P3", "declaration": case["shape"], "history": [[c, ho] for c, ho in zip(case["history"], hist_out)][-6:], "probe": case["probe"],
               "after_history": got, "fresh_process": expect}
        if got != expect:
            firsts = [c for c, ho in zip(case["history"], hist_out) if ho[0] == "err"]
            ctx.violation(f"C19/P3-outcome-depends-on-earlier-parses/{case['probe'][0]}:{case['probe'][1]}/" + ("after-a-failed-parse" if firsts else "after-successful-parses"),
                          f"probe {case['probe']} after history {[c[:3] for c in case['history']][-4:]} -> {short(got, 100)}; in a fresh process -> {short(expect, 100)}", wit, sig=sig)
            return
        if any(ho[0] == "err" for ho in hist_out) or case["shape"][2]:
            ctx.held(sig)
            if ctx.want_sample():
                ctx.sample(wit)
        else:
            ctx.trivial("history without failures or late references")
    finally:
        sys.modules.pop(mod.__name__, None)
        try:
            from utype.parser import base as pbase
            for v in list(mod.__dict__.values()):
                pbase.__parsers__.pop(v, None) if isinstance(v, type) or callable(v) else None
        except Exception:
            pass


def run_p3x(case, ctx):
    uid = next(_S["uid"])
    ma, mb = types.ModuleType("vmon_c19_same_a%d" % uid), types.ModuleType("vmon_c19_same_b%d" % uid)
    for m, src in ((ma, SAME_NAME_A), (mb, SAME_NAME_B)):
        sys.modules[m.__name__] = m
        exec(compile(src, "<c19-same-name>", "exec"), m.__dict__)
    try:
        H.perform(ma.__dict__, ["from", "Node", {"a": 1, "child": {"a": 2}}, {}])      # history: module A is used
        probe = ["from", "Node", {"b": "x", "child": {"b": "y"}}, {}]
        after = json.loads(json.dumps(H.perform(mb.__dict__, probe)))
        ans = fresh({"source": SAME_NAME_B, "calls": [probe], "module": "vmon_c19_same_fresh"})
        ctx.count("parses", 2)
        ctx.count("fresh_probes")
        if not ans.get("ok"):
            ctx.inconclusive_case("fresh-process declaration failed")
            return
        sig = ("P3x", "same-name-two-modules")
        if after != ans["results"][0]:
            ctx.violation("C19/P3-same-named-class-of-another-module-is-captured-through-the-shared-typing-ForwardRef",
                          f"module B's Node.child after module A's Node was used -> {short(after, 120)}; in a fresh process -> {short(ans['results'][0], 120)}",
                          {"family": "P3x", "module_a": SAME_NAME_A, "module_b": SAME_NAME_B, "after_using_A": after, "fresh_process": ans["results"][0]}, sig=sig)
        else:
            ctx.held(sig)
    finally:
        sys.modules.pop(ma.__name__, None)
        sys.modules.pop(mb.__name__, None)


def run_case(case, ctx):
    if case["fam"] == "P3x":
        return run_p3x(case, ctx)
    if case["fam"] == "P1d":
        return run_p1d(case, ctx)
    if case["fam"] == "P1":
        return run_p1(case, ctx)
    if case["fam"] == "P2":
        return run_p2(case, ctx)
    return run_p3(case, ctx)


def conclusive(m, tier):
    c = m["counters"]
    if c.get("parses", 0) == 0:
        return "no parse executed"
    if c.get("fresh_probes", 0) == 0:
        return "no fresh-process probe was answered (P3 undecided)"
    return None
