"""C07 — data-class instances stay valid under every sequence of mutations.

History invariant monitor: init, then 1-12 public mutating operations with valid / convertible /
invalid / unknown-key arguments; after EVERY operation (quiescent point) the invariants I1-I7 are
evaluated from the driver on full snapshots of the three views (mapping, attributes, __dict__)."""
import copy
from decimal import Decimal

from .. import values as V
from ..execu import run
from ..runner import short

ID = "C07"
N = {"quick": 30000, "thorough": 150000}
TIME_BUDGET = {"quick": 45, "thorough": 480}
MIN_NONTRIVIAL = {"quick": 200, "thorough": 2000}
RULE = ("cases = a data class (Schema 3/4, DataClass 1/4) with 1-4 fields of type int / str / List[int] / Optional[int] that are "
        "required or defaulted, aliased, case-insensitive, no_output (True or value-dependent), immutable (Field(immutable=True) or Final[T] with/without an explicit Field), plus optionally a "
        "@property with dependencies on a field; class Options over addition None/True/False/int, collect_errors, immutable, "
        "ignore_delete_nonexistent; a valid initial input; then a history of 1-12 operations (update / |= also with another instance of the same class as argument) from {setattr, delattr, "
        "__setitem__, __delitem__, update(mapping|kwargs|pairs), pop (with/without default), popitem, setdefault, clear, |=, "
        "copy (operations continue on the copy AND the original)} with arguments valid / convertible / invalid / unknown key. "
        "Invariants after every operation: I1 every present field conforms (no unparsed data, no sentinel), I2 required fields "
        "present, I3 immutable fields keep their initial value, I4 mapping view and attribute view agree, I5 dependent properties "
        "recomputed, I6 a single-key operation that raised changed nothing, I7 copy and original are independent. Non-trivial = "
        "a history in which at least one operation succeeded and one raised; distinct = distinct states (hash of the three "
        "views) and distinct (declaration shape, operation kinds) histories.")
ASSUMPTIONS = [
    "DataClass (attribute-based) instances are driven through setattr / delattr only (they have no mapping interface)",
    "conformance of a present field = instance of the declared leaf type (element-wise for List[int]); values equal to a declared default are trusted",
    "multi-key operations (update / |= with several keys, clear) may stop half-way when one key is rejected: I6 is judged for single-key operations only, as the statement says",
    "deferred defaults and mode strings are not generated here (C05 covers them); no_output fields are attribute-only by documented design",
]
TYPES = {
    "int": (int, [5, 0, -3], ["6", 7.0], ["x", [1, 2], None]),
    "str": (str, ["ab", ""], [8, b"xy"], []),
    "listint": (None, [[1, 2], []], ["3,4", ("5",)], ["x,y", [None]]),
    "optint": (None, [9, None], ["10"], ["x", [1, 2]]),
    # values that compare equal but are distinguishable (a property may depend on the representation)
    "dec": (None, [Decimal("2.5"), Decimal("2.50"), Decimal("0"), Decimal("0.0"), Decimal("7")], ["2.5", "2.500", 7], ["x", [1]]),
    "numif": (None, [3, 3.0, 0.0, -0.0, 0], ["4"], ["x", [1]]),
    # a negation and an exclusive-or: their verdict is taken from errors recorded on the parse context
    "notneg": (None, [3, 0, 250], [], [-1, -20]),            # ~(int < 0), the input comes back unchanged
    "xorsmall": (None, [50, -5, 12], [], [3, 0, 7]),          # (int >= 0) ^ (int <= 10): 0..10 satisfy both
}
PROP = {"int": lambda v: v * 2, "str": lambda v: len(v), "listint": lambda v: len(v), "optint": lambda v: (v or 0) + 1,
        "dec": lambda v: str(v), "numif": lambda v: repr(v), "notneg": lambda v: repr(v), "xorsmall": lambda v: v + 1}
PROP_RET = {"dec": str, "numif": str, "notneg": str}
_uid = [0]


def n_cases(tier):
    return N[tier]


def conforms_leaf(t, v):
    if t == "int":
        return isinstance(v, int) and not isinstance(v, bool)
    if t == "str":
        return isinstance(v, str)
    if t == "listint":
        return isinstance(v, list) and all(isinstance(x, int) and not isinstance(x, bool) for x in v)
    if t == "optint":
        return v is None or (isinstance(v, int) and not isinstance(v, bool))
    if t == "dec":
        return isinstance(v, Decimal)
    if t == "numif":
        return isinstance(v, (int, float)) and not isinstance(v, bool)
    if t == "notneg":
        return not (isinstance(v, int) and not isinstance(v, bool) and v < 0)
    if t == "xorsmall":
        return isinstance(v, int) and not isinstance(v, bool) and ((v >= 0) != (v <= 10))
    return True


def make_case(i, rng, tier):
    base = rng.choice(["Schema", "Schema", "Schema", "DataClass"])
    n = rng.randint(1, 4)
    fields = []
    for j in range(n):
        t = rng.choice(["int", "int", "str", "listint", "optint", "dec", "numif", "notneg", "xorsmall"])
        f = {"name": "f%d" % j, "type": t, "required": rng.random() < 0.5, "default": None, "alias": None, "ci": False, "no_output": None,
             "immutable": rng.random() < 0.15}
        if not f["required"]:
            f["default"] = rng.choice([{"int": 1, "str": "d", "listint": [9], "optint": None, "dec": Decimal("1.0"), "numif": 1, "notneg": 4, "xorsmall": 40}[t], "<none>"])
        if rng.random() < 0.3:
            f["alias"] = "f%dAl" % j
        if rng.random() < 0.12:
            f["ci"] = True
        r = rng.random()
        if r < 0.15:
            f["no_output"] = True
        elif r < 0.25 and t == "optint":
            f["no_output"] = "none"
        f["final"] = False
        if f["required"] and rng.random() < 0.12:
            # Final[T] without a default: takes its value once at initialisation, immutable afterwards
            f["final"] = True
            f["immutable"] = True
            f["explicit_field"] = rng.random() < 0.6
        fields.append(f)
    prop = None
    if base == "Schema" and rng.random() < 0.45:
        dep = rng.choice(fields)
        # property names with capitals matter for case-insensitive classes (fields are indexed by folded name)
        prop = {"dep": dep["name"], "with_field": rng.random() < 0.8, "name": rng.choice(["prop", "prop", "propName", "Prop"])}
    opts = {}
    r = rng.random()
    if r < 0.25:
        opts["addition"] = True
    elif r < 0.4:
        opts["addition"] = False
    elif r < 0.55:
        opts["addition"] = "int"
    if rng.random() < 0.2:
        opts["collect_errors"] = True
    if rng.random() < 0.05:
        opts["immutable"] = True
    if rng.random() < 0.15:
        opts["ignore_delete_nonexistent"] = True
    if rng.random() < 0.15:
        opts["case_insensitive"] = True
    init = {}
    for f in fields:
        if f["required"] or rng.random() < 0.6:
            init[rng.choice([f["name"], f["alias"] or f["name"]])] = rng.choice(TYPES[f["type"]][1] + TYPES[f["type"]][2])
    ops = []
    for _ in range(rng.randint(1, 12)):
        ops.append(gen_op(rng, base, fields, prop))
    # the same declaration reached through inheritance: every field is declared on a base class whose own options differ
    # (immutable / ignore_delete_nonexistent / collect_errors flipped); the class under test only adds its options
    inherit = rng.random() < 0.2
    if rng.random() < 0.15 and "immutable" not in opts and inherit:
        opts["immutable"] = True
    return {"base": base, "fields": fields, "prop": prop, "opts": opts, "init": init, "ops": ops, "inherit": inherit}


def gen_value(rng, f):
    valid, conv, invalid = TYPES[f["type"]][1:]
    r = rng.random()
    if r < 0.45:
        return rng.choice(valid)
    if r < 0.7 or not invalid:
        return rng.choice(conv or valid)
    return rng.choice(invalid)


def gen_key(rng, fields, for_attr=False):
    r = rng.random()
    if r < 0.82 or for_attr:
        f = rng.choice(fields)
        if for_attr:
            return f["name"], f
        k = rng.choice([f["name"], f["name"], f["alias"] or f["name"]])
        if f["ci"] and rng.random() < 0.3:
            k = k.upper()
        return k, f
    return rng.choice(["extra", "zz", "y"]), None


def gen_op(rng, base, fields, prop):
    if base == "DataClass":
        kind = rng.choice(["setattr", "setattr", "setattr", "delattr"])
    else:
        kind = rng.choice(["setattr", "setattr", "delattr", "setitem", "setitem", "delitem", "update", "update", "pop", "pop", "popitem",
                           "setdefault", "setdefault", "clear", "ior", "ior", "copy"])
    if kind in ("setattr", "delattr"):
        k, f = gen_key(rng, fields, for_attr=True)
        return (kind, k, gen_value(rng, f) if kind == "setattr" else None)
    if kind in ("setitem", "setdefault"):
        k, f = gen_key(rng, fields)
        return (kind, k, gen_value(rng, f) if f else rng.choice([1, "6", "x", [1]]))
    if kind in ("delitem",):
        return (kind, gen_key(rng, fields)[0], None)
    if kind == "pop":
        return (kind, gen_key(rng, fields)[0], rng.choice(["<nodefault>", None, 0]))
    if kind in ("update", "ior"):
        m = {}
        for _ in range(rng.choice([1, 1, 1, 2, 3])):
            k, f = gen_key(rng, fields)
            m[k] = gen_value(rng, f) if f else rng.choice([1, "6", "x"])
        form = rng.choice(["mapping", "kwargs", "pairs", "instance"]) if kind == "update" else rng.choice(["mapping", "mapping", "instance"])
        # ("instance": the argument is another instance of the same class, built from the initial input overlaid with m)
        return (kind, form, m)
    if kind == "copy":
        return (kind, rng.choice(["continue-on-copy", "continue-on-original"]), None)
    return (kind, None, None)


def build(case):
    import utype
    from utype import Field, Options

    _uid[0] += 1
    name = "M%d" % _uid[0]
    basecls = utype.Schema if case["base"] == "Schema" else utype.DataClass
    o = dict(case["opts"])
    if o.get("addition") == "int":
        o["addition"] = int
    ns = {"__annotations__": {}, "__module__": "vmon_generated", "__qualname__": name, "__options__": Options(**o)}
    import typing
    from utype import Rule
    from utype.parser.rule import LogicalType
    ann = {"int": int, "str": str, "listint": typing.List[int], "optint": typing.Optional[int], "dec": Decimal, "numif": typing.Union[int, float],
           "notneg": LogicalType.not_of(Rule.annotate(int, constraints={"lt": 0})),
           "xorsmall": LogicalType.one_of(Rule.annotate(int, constraints={"ge": 0}), Rule.annotate(int, constraints={"le": 10}))}
    for f in case["fields"]:
        ns["__annotations__"][f["name"]] = typing.Final[ann[f["type"]]] if f.get("final") else ann[f["type"]]
        kw = {}
        if f.get("final") and f.get("explicit_field"):
            kw["description"] = "final field declared with an explicit Field()"
        if not f["required"]:
            kw["required"] = False
            if f["default"] != "<none>":
                kw["default"] = f["default"]
        if f["alias"]:
            kw["alias"] = f["alias"]
        if f["ci"]:
            kw["case_insensitive"] = True
        if f["no_output"] is True:
            kw["no_output"] = True
        elif f["no_output"] == "none":
            kw["no_output"] = _is_none
        if f["immutable"] and not f.get("final"):
            kw["immutable"] = True
        if kw:
            ns[f["name"]] = Field(**kw)
    if case["prop"]:
        dep = case["prop"]["dep"]
        t = next(f["type"] for f in case["fields"] if f["name"] == dep)
        fn = PROP[t]

        def getter(self, _dep=dep, _fn=fn):
            return _fn(getattr(self, _dep))

        getter.__annotations__ = {"return": PROP_RET.get(t, int)}
        getter.__name__ = case["prop"].get("name", "prop")
        ns[getter.__name__] = property(Field(dependencies=[dep])(getter) if case["prop"]["with_field"] else getter)
    if case.get("inherit"):
        bo = dict(o)
        for k in ("immutable", "ignore_delete_nonexistent", "collect_errors"):
            bo[k] = not bo.get(k, False)
        ns["__options__"] = Options(**bo)
        ns["__qualname__"] = name + "Base"
        parent = type(basecls)(name + "Base", (basecls,), ns)
        _BASES.append(parent)
        return type(basecls)(name, (parent,), {"__module__": "vmon_generated", "__qualname__": name, "__options__": Options(**o)})
    return type(basecls)(name, (basecls,), ns)


_BASES = []


def _is_none(v):
    return v is None


class Snap:
    def __init__(self, inst, case):
        self.kv = dict(dict.items(inst)) if isinstance(inst, dict) else None
        self.av = {}
        self.av_err = {}
        for f in case["fields"]:
            try:
                self.av[f["name"]] = getattr(inst, f["name"])
            except AttributeError:
                pass
            except Exception as e:
                self.av_err[f["name"]] = type(e).__name__
        self.d = {k: v for k, v in inst.__dict__.items() if not k.startswith("__")}
        self.prop = None
        if case["prop"]:
            try:
                self.prop = ("ok", getattr(inst, case["prop"].get("name", "prop")))
            except Exception as e:
                self.prop = ("err", type(e).__name__)

    def key(self):
        return (V.snapshot(self.kv), V.snapshot(self.av), V.snapshot(self.d))

    def same(self, other):
        return V.approx_eq(self.kv, other.kv) and V.approx_eq(self.av, other.av) and V.approx_eq(self.d, other.d)


def is_sentinel(v):
    return type(v).__name__ in ("Unprovided", "unprovided") or repr(v) == "<unprovided>"


def check_invariants(case, inst, snap, init_snap):
    """-> list of (invariant code, text)"""
    out = []
    fields = case["fields"]
    names = {}
    for f in fields:
        names[f["alias"] or f["name"]] = f
    add = case["opts"].get("addition")
    for f in fields:
        out_name = f["alias"] or f["name"]
        for view, present, val in (("mapping", snap.kv is not None and out_name in snap.kv, snap.kv.get(out_name) if snap.kv else None),
                                   ("attribute", f["name"] in snap.av, snap.av.get(f["name"])),
                                   ("__dict__", f["name"] in snap.d, snap.d.get(f["name"]))):
            if not present:
                continue
            if is_sentinel(val):
                out.append(("I1-sentinel-stored", f"{view} view holds the internal sentinel {val!r} for field {f['name']}"))
            elif not conforms_leaf(f["type"], val) and not (f["default"] not in (None, "<none>") and val == f["default"]):
                if f["default"] is None and val is None and not f["required"]:
                    continue  # declared default None is trusted
                out.append(("I1-unparsed-data", f"{view} view holds {val!r} ({type(val).__name__}) for field {f['name']}: {f['type']}"))
        if f["name"] in snap.av_err:
            out.append(("I4-attribute-access-raises", f"getattr({f['name']}) raised {snap.av_err[f['name']]}"))
        if f["required"] and f["name"] not in snap.av:
            out.append(("I2-required-missing", f"required field {f['name']} is gone"))
        if (f["immutable"] or case["opts"].get("immutable")) and not V.approx_eq(snap.av.get(f["name"], "<absent>"), init_snap.av.get(f["name"], "<absent>")):
            # (Options(immutable=True) on the class makes every field immutable)
            out.append(("I3-immutable-changed", f"immutable field {f['name']}: {init_snap.av.get(f['name'], '<absent>')!r} -> {snap.av.get(f['name'], '<absent>')!r}"))
        if snap.kv is not None:
            in_kv = out_name in snap.kv
            in_av = f["name"] in snap.av
            val = snap.av.get(f["name"])
            hidden = f["no_output"] is True or (f["no_output"] == "none" and in_av and val is None)
            if hidden:
                if in_kv:
                    out.append(("I4-no_output-in-mapping", f"no_output field {f['name']} appears in the mapping: {snap.kv[out_name]!r}"))
            else:
                if in_kv != in_av:
                    out.append(("I4-views-disagree", f"field {f['name']}: in mapping={in_kv}, readable as attribute={in_av} "
                                                     f"({snap.kv.get(out_name, snap.av.get(f['name']))!r})"))
                elif in_kv and not V.approx_eq(snap.kv[out_name], val):
                    out.append(("I4-views-disagree", f"field {f['name']}: mapping {snap.kv[out_name]!r} != attribute {val!r}"))
    if snap.kv is not None:
        for k, v in snap.kv.items():
            if k in names or (case["prop"] and k == case["prop"].get("name", "prop")):
                continue
            if is_sentinel(v):
                out.append(("I1-sentinel-stored", f"mapping holds the sentinel under extra key {k!r}"))
            elif add == "int" and not (isinstance(v, int) and not isinstance(v, bool)):
                out.append(("I1-unparsed-addition", f"extra key {k!r} holds {v!r} though addition=int"))
            elif add in (None, False):
                out.append(("I1-extra-key-stored", f"extra key {k!r} stored though addition={add}"))
    if case["prop"] and case["prop"]["with_field"]:
        dep = case["prop"]["dep"]
        pname = case["prop"].get("name", "prop")
        df = next(f for f in fields if f["name"] == dep)
        if dep in snap.av and conforms_leaf(df["type"], snap.av[dep]) and not (df["type"] == "optint" and False):
            try:
                exp = PROP[df["type"]](snap.av[dep])
            except Exception:
                exp = None
            if exp is not None:
                if snap.prop != ("ok", exp):
                    out.append(("I5-property-stale", f"prop attribute is {snap.prop}, getter on current state gives {exp!r} ({dep}={snap.av[dep]!r})"))
                elif snap.kv is not None and pname in snap.kv and snap.kv[pname] != exp:
                    out.append(("I5-property-stale", f"mapping[{pname!r}] is {snap.kv[pname]!r}, getter on current state gives {exp!r}"))
    return out


_CUR = {}


def apply(inst, op):
    kind, a, b = op
    if kind == "setattr":
        return setattr(inst, a, b)
    if kind == "delattr":
        return delattr(inst, a)
    if kind == "setitem":
        inst[a] = b
        return None
    if kind == "delitem":
        del inst[a]
        return None
    if kind == "pop":
        return inst.pop(a) if b == "<nodefault>" else inst.pop(a, b)
    if kind == "popitem":
        return inst.popitem()
    if kind == "setdefault":
        return inst.setdefault(a, b)
    if kind == "clear":
        return inst.clear()
    if kind in ("update", "ior") and a == "instance":
        try:
            src = type(inst).__from__(dict(_CUR.get("init", {}), **b))
        except Exception:
            src = dict(b)
        if kind == "update":
            return inst.update(src)
        inst |= src
        return None
    if kind == "update":
        if a == "mapping":
            return inst.update(dict(b))
        if a == "kwargs" and all(k.isidentifier() for k in b):
            return inst.update(**b)
        return inst.update(list(b.items()))
    if kind == "ior":
        inst |= dict(b)
        return None
    raise ValueError(kind)


SINGLE = {"setattr", "delattr", "setitem", "delitem", "pop", "popitem", "setdefault"}


def run_case(case, ctx):
    try:
        cls = build(case)
    except Exception as e:
        ctx.count("declaration_rejected:" + type(e).__name__)
        return
    try:
        o0 = run(lambda: cls.__from__(dict(case["init"])))
        if not o0.ok:
            ctx.count("init_rejected")
            return
        inst = o0.value
        _CUR["init"] = dict(case["init"])
        init_snap = Snap(inst, case)
        bad0 = check_invariants(case, inst, init_snap, init_snap)
        shape = (case["base"], tuple((f["type"], f["required"], bool(f["alias"]), f["ci"], f["no_output"], f["immutable"]) for f in case["fields"]),
                 bool(case["prop"]), tuple(sorted((k, str(v)) for k, v in case["opts"].items())), bool(case.get("inherit")))
        hist = []
        if bad0:
            code, text = bad0[0]
            ctx.violation(f"C07/{code}/after-init", f"after init {case['init']!r}: {text}", {"declaration": describe(case), "init": short(case["init"], 200)}, sig=(shape, "init"))
            return
        other = None       # (instance, snapshot) of the copy partner, for I7
        n_ok = n_err = 0
        ctx.state(init_snap.key())
        for op in case["ops"]:
            kind = op[0]
            before = Snap(inst, case)
            if kind == "copy":
                oc = run(lambda: inst.copy())
                ctx.count("ops")
                if not oc.ok:
                    n_err += 1
                    continue
                n_ok += 1
                cp = oc.value
                hist.append("copy(%s)" % op[1])
                if op[1] == "continue-on-copy":
                    other = (inst, before)
                    inst = cp
                else:
                    other = (cp, Snap(cp, case))
                continue
            out = run(lambda: apply(inst, op))
            ctx.count("ops")
            ctx.count("op:" + kind)
            after = Snap(inst, case)
            ctx.state(after.key())
            hist.append(f"{kind}({short(op[1], 30)}, {short(op[2], 40)}) -> " + ("ok" if out.ok else type(out.exc).__name__))
            wit = {"declaration": describe(case), "init": short(case["init"], 200), "history": list(hist), "mapping": short(after.kv, 200),
                   "attributes": short(after.av, 200), "__dict__": short(after.d, 200)}
            sig = (shape, tuple(h.split("(")[0] for h in hist))
            if out.ok:
                n_ok += 1
            else:
                n_err += 1
            arg_class = _arg_class(case, op)
            problems = check_invariants(case, inst, after, init_snap)
            if not out.ok and kind in SINGLE and not after.same(before):
                problems.insert(0, ("I6-failed-operation-changed-state", f"{kind} raised {type(out.exc).__name__} but the state changed: "
                                    f"mapping {short(before.kv, 80)} -> {short(after.kv, 80)}; attributes {short(before.av, 80)} -> {short(after.av, 80)}"))
            if other is not None:
                now = Snap(other[0], case)
                if not now.same(other[1]):
                    problems.insert(0, ("I7-copy-and-original-share-state", f"{kind} on one of (copy, original) changed the other: "
                                        f"{short(other[1].av, 80)} -> {short(now.av, 80)} / __dict__ {short(other[1].d, 60)} -> {short(now.d, 60)}"))
            if problems:
                code, text = problems[0]
                flag = "+collect_errors" if case["opts"].get("collect_errors") and code.startswith("I1-sentinel") else ""
                ctx.violation(f"C07/{code}/{kind}{flag}" + (f"/{arg_class}" if code.startswith("I1") or code.startswith("I4-views") else ""),
                              f"{describe(case)} init={short(case['init'], 80)} history={hist[-4:]}: {text}", wit, sig=sig)
                return
        if n_ok and n_err:
            ctx.held((shape, tuple(h.split("(")[0] for h in hist)))
            if ctx.want_sample() and len(hist) >= 4:
                ctx.sample({"declaration": describe(case), "init": short(case["init"], 200), "history": hist})
        else:
            ctx.trivial("all operations succeeded" if n_ok else "all operations raised")
    finally:
        try:
            from utype.parser import base as pbase
            pbase.__parsers__.pop(cls, None)
            while _BASES:
                pbase.__parsers__.pop(_BASES.pop(), None)
        except Exception:
            pass


def _arg_class(case, op):
    kind, a, b = op
    key = a if kind not in ("update", "ior") else None
    f = None
    if key is not None:
        for x in case["fields"]:
            if key in (x["name"], x["alias"]) or (x["ci"] and isinstance(key, str) and key.lower() in (x["name"].lower(), (x["alias"] or "").lower())):
                f = x
    if key is not None and f is None:
        return "unknown-key"
    if f is not None and f["alias"]:
        return "aliased-field"
    if f is not None and f["no_output"]:
        return "no_output-field"
    return "field"


def describe(case):
    fs = []
    for f in case["fields"]:
        s = f"{f['name']}: {f['type']}"
        s += " required" if f["required"] else (f" default={f['default']!r}" if f["default"] != "<none>" else " optional")
        for k in ("alias", "no_output"):
            if f[k]:
                s += f" {k}={f[k]!r}"
        for k in ("ci", "immutable"):
            if f[k]:
                s += " " + k
        fs.append(s)
    return {"base": case["base"], "options": case["opts"], "fields": fs, "property": case["prop"],
            "fields_inherited_from_a_base_with_other_options": bool(case.get("inherit"))}


def conclusive(m, tier):
    if m["counters"].get("ops", 0) == 0:
        return "no operation executed"
    return None
