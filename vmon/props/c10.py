"""C10 — collecting errors changes reporting only, never the verdict or the value.

Two-run relation + singleton probes: the same (declaration, input) parsed with collect_errors off
and on and with max_errors in {1,2,3}; the set of individually failing top-level items is obtained
from probes (a valid base input with exactly one item taken from the input under test)."""
from .. import declspec as D
from .. import values as V
from ..execu import run
from ..runner import short
from .c06 import views

ID = "C10"
N = {"quick": 15000, "thorough": 160000}
TIME_BUDGET = {"quick": 45, "thorough": 480}
MIN_NONTRIVIAL = {"quick": 300, "thorough": 3000}
RULE = ("cases = declaration (Schema / DataClass / @parse function, 2-5 fields; field types int, str, List[int], Optional[int], "
        "Dict[str,int], Union[int,List[int]], Tuple[int,str], (int>=0 & even), int>=0, Optional[nested Schema], Type[int], List[Type[int]]; required or "
        "defaulted; optional single alias; Options addition None/True/False, both lookup strategies) x 5 inputs in which every "
        "subset of <=4 fields is invalid (bad nested elements, several bad elements, unions where every branch fails, failing &), "
        "required fields are missing and 0-2 unknown keys are present. Each input is parsed fail-fast, with collect_errors, and "
        "with max_errors 1,2,3; per top-level item a singleton probe decides whether that item fails on its own. Non-trivial = "
        "at least one item fails (so reporting is exercised); distinct = (declaration shape, failing-item pattern, strategy). 1/8 of the cases: "
        "@parse functions with *args / **kwargs; 1/16: a Schema with typed @property getters whose results may fail their return annotation "
        "(fail-fast vs collect_errors with max_errors None/1/2).")
ASSUMPTIONS = [
    "failing item = a provided field whose value is rejected in an otherwise valid input, a missing required field, or an unknown key rejected by addition=False (probes run fail-fast on the library itself)",
    "items are matched by field identity (output name or attribute name both accepted)",
    "declarations here avoid no_input / mode / dependencies / duplicate spellings: their interplay with reporting belongs to C05/C06",
]
FTYPES = ["int", "int", "str", "listint", "optint", "dictint", "unionil", "tuple2", "andpos", "posint", "nested", "xorpos", "noteven", "typeint", "listtype"]


def n_cases(tier):
    return N[tier]


VAR_T = {"int": ([1, 0, -3, "5", 2.0], ["x", None, [1], 1.5, "1.5"]), "posint": ([1, "5", 7], ["x", -1, 0, None]),
         "str": (["a", "", 1], [None, [1], {"a": 1}])}
VAR_SRC = """
import utype
from utype import Options, Field, Rule
class PosInt(int, Rule):
    gt = 0
T = {"int": int, "posint": PosInt, "str": str}
def make(opts, ta, tr, tk, form=None):
    if form == "inherited":
        # the options live on an Options subclass and are INHERITED by the class that is instantiated
        Base = type(Options)("BaseOpts", (Options,), dict(opts))
        o = type(Options)("ApiOpts", (Base,), {"max_depth": 64})     # (given as the class, the documented form)
    else:
        o = Options(**opts)
    @utype.parse(options=o)
    def fn(a: T[ta], *rest: T[tr], **kw: T[tk]):
        return a, rest, kw
    return fn
"""


def make_varargs_case(rng):
    ta, tr, tk = (rng.choice(list(VAR_T)) for _ in range(3))
    opts = {}
    if rng.random() < 0.3:
        opts["invalid_values"] = rng.choice(["exclude", "preserve"])
    calls = []
    for _ in range(5):
        def pick(t, bad):
            return rng.choice(VAR_T[t][1] if bad else VAR_T[t][0])
        a = pick(ta, rng.random() < 0.25)
        rest = [pick(tr, rng.random() < 0.3) for _ in range(rng.randint(0, 4))]
        kw = {k: pick(tk, rng.random() < 0.3) for k in rng.sample(["k1", "k2", "k3"], rng.randint(0, 3))}
        calls.append((a, rest, kw))
    return {"varargs": True, "types": (ta, tr, tk), "opts": opts, "calls": calls, "form": rng.choice([None, None, "inherited"])}


def run_varargs(case, ctx):
    """@parse function with *args: T and **kwargs: T: collecting must not change the verdict, the arguments the body receives,
    nor report a different number of failing arguments than fail one by one"""
    from utype.utils import exceptions as exc
    ns = {}
    exec(VAR_SRC, ns)
    ta, tr, tk = case["types"]
    opts = case["opts"]
    try:
        f0 = ns["make"](dict(opts), ta, tr, tk, case.get("form"))
        f1 = ns["make"](dict(opts, collect_errors=True), ta, tr, tk, case.get("form"))
        if case.get("form"):
            ctx.count("functions_whose_options_are_inherited_class_attributes")
    except Exception as e:
        ctx.count("declaration_rejected:" + type(e).__name__)
        return
    va, vr, vk = VAR_T[ta][0][0], VAR_T[tr][0][0], VAR_T[tk][0][0]
    for a, rest, kw in case["calls"]:
        x = run(lambda: f0(a, *rest, **kw))
        y = run(lambda: f1(a, *rest, **kw))
        ctx.count("inputs")
        if x.kind not in ("ok", "parse") or y.kind not in ("ok", "parse"):
            ctx.count("escape_left_to_C04")
            continue
        failing = 0
        if not run(lambda: f0(a)).ok:
            failing += 1
        for r in rest:
            if not run(lambda: f0(va, r)).ok:
                failing += 1
        for k, v in kw.items():
            if not run(lambda: f0(va, **{k: v})).ok:
                failing += 1
        wit = {"function": f"fn(a: {ta}, *rest: {tr}, **kw: {tk}) options={opts}", "call": short((a, rest, kw), 200), "fail_fast": repr(x), "collect_errors": repr(y),
               "arguments_failing_alone": failing}
        sig = ("varargs", ta, tr, tk, tuple(sorted(opts.items())), failing, len(rest), len(kw), case.get("form"))
        if x.ok != y.ok:
            ctx.violation("C10/verdict-changes/" + ("collect-accepts-what-fail-fast-rejects" if y.ok else "collect-rejects-what-fail-fast-accepts"),
                          f"{wit['function']} call {wit['call']}: fail-fast -> {x!r}; collect_errors -> {y!r}", wit, sig=sig)
        elif x.ok != (failing == 0):
            ctx.violation("C10/verdict-vs-probes/" + ("accepted-though-an-item-fails-alone" if x.ok else "rejected-though-every-item-passes-alone"),
                          f"{wit['function']} call {wit['call']}: {x!r} but {failing} argument(s) fail alone", wit, sig=sig)
        elif x.ok:
            if not V.approx_eq(x.value, y.value):
                ctx.violation("C10/value-changes", f"{wit['function']} call {wit['call']}: fail-fast {short(x.value, 100)} != collect {short(y.value, 100)}", wit, sig=sig)
            else:
                ctx.trivial("accepted")
        elif not isinstance(y.exc, exc.CollectedParseError):
            ctx.violation("C10/report/not-one-CollectedParseError", f"{wit['function']} call {wit['call']}: collect_errors raised {y!r}", wit, sig=sig)
        elif len(y.exc.errors) != failing:
            ctx.violation("C10/report/failing-item-not-reported" if len(y.exc.errors) < failing else "C10/report/valid-item-reported",
                          f"{wit['function']} call {wit['call']}: {failing} argument(s) fail alone, {len(y.exc.errors)} reported: {y!r}", wit, sig=sig)
        else:
            ctx.held(sig)


PROP_SRC = """
import utype
from utype import Schema, Options, Field
class P(Schema):
    __options__ = Options(**OPTS)
    a: int
    b: str = ''
    @property
    def pr(self) -> int:          # the getter's result is converted to its annotation when the instance is built
        return self.b
    @property
    def qr(self) -> {qt}:
        return self.a
"""


def make_prop_case(rng):
    """a Schema whose typed @property getters return a field value: the output of a getter may fail its annotation"""
    opts = {}
    if rng.random() < 0.3:
        opts["data_first_search"] = rng.random() < 0.5
    inputs = []
    for _ in range(6):
        d = {"a": rng.choice([5, "6", 700, "x", None])}
        if rng.random() < 0.85:
            d["b"] = rng.choice(["12", "abc", "", "7", "1.5", "x y"])
        inputs.append(d)
    return {"prop": True, "opts": opts, "qt": rng.choice(["str", "int", "utype.types.NegativeInt", "utype.types.PositiveInt"]), "inputs": inputs,
            "extra": rng.choice([{"collect_errors": True}, {"collect_errors": True}, {"collect_errors": True, "max_errors": 1}, {"collect_errors": True, "max_errors": 2}])}


def run_prop(case, ctx):
    from utype import Options
    ns = {"OPTS": dict(case["opts"])}
    try:
        exec(PROP_SRC.format(qt=case["qt"]), ns)
    except Exception as e:
        ctx.count("declaration_rejected:" + type(e).__name__)
        return
    P = ns["P"]
    try:
        for d in case["inputs"]:
            x = run(lambda: dict(P.__from__(dict(d))))
            y = run(lambda: dict(P.__from__(dict(d), options=Options(**dict(case["opts"], **case["extra"])))))
            ctx.count("inputs")
            ctx.count("inputs_with_typed_property_getters")
            if x.kind not in ("ok", "parse") or y.kind not in ("ok", "parse"):
                ctx.count("escape_left_to_C04")
                continue
            wit = {"declaration": PROP_SRC.format(qt=case["qt"]), "class_options": case["opts"], "input": short(d, 120), "fail_fast": repr(x),
                   "collecting_options": case["extra"], "collect_errors": repr(y)}
            sig = ("prop", case["qt"], tuple(sorted(case["opts"].items())), tuple(sorted(case["extra"].items())), x.ok, y.ok, str(d.get("b")))
            if x.ok != y.ok:
                ctx.violation("C10/verdict-changes/" + ("collect-accepts-what-fail-fast-rejects" if y.ok else "collect-rejects-what-fail-fast-accepts"),
                              f"Schema with typed property getters, input {short(d, 100)}: fail-fast -> {x!r}; {case['extra']} -> {y!r}", wit, sig=sig)
            elif x.ok and not V.approx_eq(x.value, y.value):
                ctx.violation("C10/value-changes", f"Schema with typed property getters, input {short(d, 100)}: fail-fast {short(x.value, 100)} != collect {short(y.value, 100)}", wit, sig=sig)
            elif not x.ok:
                ctx.held(sig)
            else:
                ctx.trivial("accepted")
    finally:
        D.drop(P)


def make_case(i, rng, tier):
    if i % 8 == 7:
        return make_varargs_case(rng)
    if i % 16 == 3:
        return make_prop_case(rng)
    base = rng.choice(["Schema", "Schema", "DataClass", "function"])
    n = rng.randint(2, 5)
    fields = []
    for j in range(n):
        t = rng.choice(FTYPES)
        f = {"name": "f%d" % j, "type": t, "required": None, "default": D.NODEF, "factory": None, "defer_default": False, "alias": None,
             "alias_from": [], "case_insensitive": None, "no_input": None, "no_output": None, "mode": None, "readonly": False,
             "writeonly": False, "dependencies": [], "on_error": None, "immutable": False}
        if rng.random() < 0.4:
            f["default"] = D.DEFAULTS[t][0]
        if rng.random() < 0.25:
            f["alias"] = "f%dAl" % j
        fields.append(f)
    opts = {}
    r = rng.random()
    if r < 0.3:
        opts["addition"] = False
    elif r < 0.5:
        opts["addition"] = True
    r = rng.random()
    if r < 0.3:
        opts["data_first_search"] = True
    elif r < 0.6:
        opts["data_first_search"] = False
    # error policies decide what "fails" (the singleton probes run under the same options); collecting must still not change it
    if rng.random() < 0.3:
        opts["invalid_values"] = rng.choice(["exclude", "exclude", "preserve"])
    if rng.random() < 0.15:
        opts["invalid_items"] = rng.choice(["exclude", "preserve"])
    if rng.random() < 0.1:
        opts["invalid_keys"] = rng.choice(["exclude", "preserve"])
    if base != "function" and rng.random() < 0.25:
        for f in fields:
            if f["default"] is not D.NODEF and rng.random() < 0.5:
                f["on_error"] = rng.choice(["exclude", "preserve", "throw"])
    decl = {"base": base, "options": opts, "fields": fields}
    inputs = []
    for _ in range(5):
        nbad = rng.choice([0, 1, 1, 2, 2, 3, 4])
        bad = set(rng.sample(range(n), min(nbad, n)))
        pairs = []
        plan = {}
        for j, f in enumerate(fields):
            valid, conv, invalid = D.type_info(f["type"])[1:]
            key = f["alias"] if f["alias"] and rng.random() < 0.5 else f["name"]
            if j in bad and invalid:
                if f["default"] is D.NODEF and rng.random() < 0.35:
                    plan[f["name"]] = "missing"
                    continue
                pairs.append((key, rng.choice(invalid)))
                plan[f["name"]] = "invalid"
            elif rng.random() < 0.15 and f["default"] is not D.NODEF:
                plan[f["name"]] = "omitted"
            else:
                pairs.append((key, rng.choice(valid + conv)))
                plan[f["name"]] = "valid"
        for _k in range(rng.choice([0, 0, 1, 2])):
            pairs.append((rng.choice(["extra", "zz", "more"]), rng.choice([1, "x", None])))
        rng.shuffle(pairs)
        inputs.append((pairs, plan))
    return {"decl": decl, "inputs": inputs}


def parse(target, decl, data, extra):
    def thunk():
        if decl["base"] == "function":
            return views(target[tuple(sorted(extra.items()))](**data), decl)
        return views(target.__from__(data, options=D.make_options(decl["options"], **extra)), decl)
    return run(thunk)


def field_of(decl, item):
    for f in decl["fields"]:
        if item in (f["name"], f["alias"]):
            return f["name"]
    return None


def run_case(case, ctx):
    if case.get("varargs"):
        return run_varargs(case, ctx)
    if case.get("prop"):
        return run_prop(case, ctx)
    decl = case["decl"]
    built = []
    try:
        try:
            if decl["base"] == "function":
                target = {}
                for extra in ({}, {"collect_errors": True}, {"collect_errors": True, "max_errors": 1}, {"collect_errors": True, "max_errors": 2},
                              {"collect_errors": True, "max_errors": 3}):
                    target[tuple(sorted(extra.items()))] = D.build(decl, extra)
            else:
                target = D.build(decl)
                built.append(target)
        except Exception as e:
            ctx.count("declaration_rejected:" + type(e).__name__)
            return
        shp = D.shape(decl)
        base_valid = {f["name"]: D.type_info(f["type"])[1][0] for f in decl["fields"]}
        for pairs, plan in case["inputs"]:
            data = D.to_mapping(pairs)
            a = parse(target, decl, dict(data), {})
            b = parse(target, decl, dict(data), {"collect_errors": True})
            ctx.count("inputs")
            wit = {"declaration": D.describe(decl), "input": short(data, 300), "fail_fast": repr(a), "collect_errors": repr(b)}
            if a.kind not in ("ok", "parse") or b.kind not in ("ok", "parse"):
                ctx.count("escape_left_to_C04")
                continue
            # ---- singleton probes
            failing = set()
            for f in decl["fields"]:
                keys = [k for k in data if k in (f["name"], f["alias"])]
                probe = dict(base_valid)
                if keys:
                    probe[f["name"]] = data[keys[0]]
                else:
                    probe.pop(f["name"])
                p = parse(target, decl, probe, {})
                if not p.ok:
                    failing.add(("field", f["name"]))
            names = set()
            for f in decl["fields"]:
                names |= {f["name"], f["alias"]}
            for k in data:
                if k not in names:
                    probe = dict(base_valid)
                    probe[k] = data[k]
                    if not parse(target, decl, probe, {}).ok:
                        failing.add(("key", k))
            wit["individually_failing_items"] = sorted(failing)
            sig = (shp, tuple(sorted(failing)), a.ok)
            if a.ok != b.ok:
                ctx.violation("C10/verdict-changes/" + ("collect-accepts-what-fail-fast-rejects" if b.ok else "collect-rejects-what-fail-fast-accepts"),
                              f"{D.describe(decl)} input={short(data, 160)}: fail-fast -> {a!r}; collect_errors -> {b!r}", wit, sig=sig)
                continue
            if a.ok != (not failing):
                ctx.violation("C10/verdict-vs-probes/" + ("accepted-though-an-item-fails-alone" if a.ok else "rejected-though-every-item-passes-alone"),
                              f"{D.describe(decl)} input={short(data, 160)}: {a!r} but individually failing items = {sorted(failing)}", wit, sig=sig)
                continue
            if a.ok:
                if not (V.approx_eq(a.value[0], b.value[0]) and V.approx_eq(a.value[1], b.value[1])):
                    ctx.violation("C10/value-changes", f"{D.describe(decl)} input={short(data, 160)}: fail-fast {short(a.value, 100)} != collect {short(b.value, 100)}", wit, sig=sig)
                else:
                    ctx.trivial("accepted")
                continue
            # rejected: reporting
            from utype.utils import exceptions as exc

            def reported(o):
                e = o.exc
                if not isinstance(e, exc.CollectedParseError):
                    return None
                out = []
                for x in e.errors:
                    item = getattr(x, "item", None)
                    fn = field_of(decl, item)
                    out.append(("field", fn) if fn else ("key", str(item)))
                return out

            rep = reported(b)
            if rep is None:
                ctx.violation("C10/report/not-one-CollectedParseError", f"{D.describe(decl)} input={short(data, 160)}: collect_errors raised {b!r}", wit, sig=sig)
                continue
            wit["reported_items"] = rep
            dup = [x for x in set(rep) if rep.count(x) > 1]
            if dup:
                ctx.violation("C10/report/item-reported-more-than-once", f"{D.describe(decl)} input={short(data, 160)}: {dup} reported {rep.count(dup[0])}x: {b!r}", wit, sig=sig)
                continue
            if set(rep) - failing:
                ctx.violation("C10/report/valid-item-reported", f"{D.describe(decl)} input={short(data, 160)}: reported {sorted(set(rep) - failing)} which pass on their own", wit, sig=sig)
                continue
            if failing - set(rep):
                ctx.violation("C10/report/failing-item-not-reported", f"{D.describe(decl)} input={short(data, 160)}: {sorted(failing - set(rep))} fail on their own but are not in {rep}", wit, sig=sig)
                continue
            bad_cap = None
            for m in (1, 2, 3):
                c = parse(target, decl, dict(data), {"collect_errors": True, "max_errors": m})
                rc = reported(c) if not c.ok else None
                if c.ok or rc is None:
                    bad_cap = (m, "verdict/exception changed: %r" % c)
                    break
                if len(rc) != min(m, len(failing)) or set(rc) - failing or len(set(rc)) != len(rc):
                    bad_cap = (m, f"reported {rc}, expected {min(m, len(failing))} distinct items of {sorted(failing)}")
                    break
            if bad_cap:
                ctx.violation("C10/max_errors/cap-not-respected", f"{D.describe(decl)} input={short(data, 160)} max_errors={bad_cap[0]}: {bad_cap[1]}", wit, sig=sig)
                continue
            ctx.held(sig)
            if ctx.want_sample() and len(failing) > 1:
                ctx.sample(wit)
    finally:
        for t in built:
            D.drop(t)


def conclusive(m, tier):
    if m["counters"].get("inputs", 0) == 0:
        return "no input parsed"
    return None
