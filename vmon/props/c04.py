"""C04 — invalid input raises ParseError and nothing else; parsing always terminates.

Deciding monitors: (1) exception-class monitor at the API boundary; (2) sys.monitoring logical
step budget (LINE events inside utype/) with loop-signature confirmation; (3) body-entered /
__validate__-entered flags of generated functions and data classes."""
import typing

from .. import typespec as TS
from .. import values as V
from ..execu import raised_in_harness_object, run, root_cause, tb_site
from ..monitors import steps as ST
from ..routes import Absent, make_entry
from ..runner import short

ID = "C04"
N = {"quick": 32000, "thorough": 1000000}
TIME_BUDGET = {"quick": 45, "thorough": 660}
# the 10x confirmation of an exhausted step budget takes ~35 s of LINE callbacks (more on a loaded machine): the
# wall-clock watchdog must not cut it (a cut confirmation used to end as a silent 'inconclusive case' and exit 0)
CASE_WALL = {"quick": 240, "thorough": 240}
MIN_NONTRIVIAL = {"quick": 300, "thorough": 3000}
STEP_LIMIT = 3_000_000
RULE = ("cases = random TypeSpec (as C01, incl. abstract origins, data classes, logical trees) entered through every route "
        "(bare builtins wrapped in an unconstrained Rule so they are in the statement's scope) under option sets "
        "{collect_errors, invalid_* policies, no_data_loss, no_explicit_cast}; 12 inputs per case: 50% aimed at the "
        "spec, 50% drawn from the hostile pool (inf/nan in every spelling, huge ints, malformed bracket strings, "
        "undecodable bytes, sets/iterators/generators/dict views, deep(60)/wide(1000) containers, date extremes, "
        "arbitrary objects, objects whose dunders raise Exception). Every call runs under a 3e6 logical-step budget "
        "(sys.monitoring LINE events in utype/). Non-trivial = the call was rejected or hit the budget (the clauses "
        "of C04 talk about failures); distinct = (spec shape, route, option set, input class, outcome class). 4% of the cases: a "
        "union of data classes selected by Field(discriminator=...) with any value under the discriminator key; 3%: one of the "
        "ready-made constrained classes of utype.types (Timestamp, EmailStr, Year ...; several carry pre_validate / post_validate "
        "hooks) called directly with hostile values and temporal extremes (datetime.min / max, timedelta.max ...); 3%: temporal targets "
        "given huge finite Decimals while the ambient decimal context does not trap Overflow (decimal.ExtendedContext); 3%: one field or "
        "parameter given under two of its spellings with two hostile values (the alias-conflict report); 1.5%: Type[T] called directly "
        "with classes, typing aliases (List[int], Optional[int], Any, TypeVar ...) and other objects.")
ASSUMPTIONS = [
    "top-level data-class inputs whose keys are not strings are outside the statement (TypeError 'keywords must be strings' is exempt unless cast_keyword_str)",
    "a step budget separates 'loops' from 'long': exhaustion is confirmed at 10x budget and requires a <=12-line loop signature in the last 1e5 events",
    "non-termination inside one C-level call emits no LINE events; only the wall-clock net (inconclusive) would see it",
    "exceptions raised by harness-supplied BaseException are not the library's; hostile dunders raise ordinary Exception",
]

OPTS = [
    {}, {}, {"collect_errors": True}, {"collect_errors": True}, {"no_data_loss": True}, {"no_explicit_cast": True},
    {"invalid_items": "exclude"}, {"invalid_items": "preserve"}, {"invalid_keys": "exclude", "invalid_values": "exclude"},
    {"invalid_keys": "preserve", "invalid_values": "preserve"}, {"collect_errors": True, "invalid_items": "exclude"},
    {"collect_errors": True, "max_errors": 2}, {"no_data_loss": True, "no_explicit_cast": True, "collect_errors": True},
    {"addition": False}, {"addition": True}, {"unresolved_types": "init"}, {"max_depth": 2},
]
_state = {}


def setup(ctx):
    m = ST.get()
    _state["steps"] = m if m.install() else None
    from utype.utils import exceptions as exc

    assert issubclass(exc.ParseError, TypeError) and issubclass(exc.ParseError, ValueError)


def n_cases(tier):
    return N[tier]


DISC_SRC = """
import typing
from typing import Literal, Union, Optional, List
import utype
from utype import Schema, DataClass, Field, Options
class A({base}):
    kind: Literal[{ta}]
    x: int
class B({base}):
    kind: Literal[{tb}]
    y: str = ''
class H({base}):
    __options__ = Options(**OPTS)
    item: Union[A, B] = Field(discriminator='kind')
    members: List[Union[A, B]] = Field(default_factory=list)
    opt: Optional[Union[A, B]] = Field(discriminator='kind', default=None)
"""


def make_disc_case(rng):
    """a union of data classes selected by a discriminator key: any value whatsoever under that key (and any value in place of the
    member mapping) is input"""
    inputs = []
    for _ in range(12):
        kv = V.pick(rng, None)[1] if rng.random() < 0.7 else (lambda v=rng.choice(["a", "b", 2, "c", None, "A"]): v)
        body = rng.choice([{"x": 1}, {"x": "1", "y": 2}, {"y": "s"}, {}])
        shape = rng.randrange(5)

        def mk(kv=kv, body=body, shape=shape):
            k = kv()
            member = dict(body, kind=k)
            if shape == 0:
                return {"item": member}
            if shape == 1:
                return {"item": {"kind": "a", "x": 1}, "opt": member}
            if shape == 2:
                return {"item": {"kind": "a", "x": 1}, "members": [member, {"kind": "b"}]}
            if shape == 3:
                return {"item": k}            # the member itself is the hostile value
            return {"item": body}             # discriminator key missing
        inputs.append(mk)
    return {"fam": "disc", "base": rng.choice(["Schema", "DataClass"]), "opts": dict(rng.choice(OPTS)), "inputs": inputs, "rng": rng,
            "spec": ("leaf", "int"), "route": "disc",
            # the tags of one union may be of different types (str / int / bool are all allowed)
            "tags": rng.choice([("'a'", "'b'"), ("'a'", "'b'"), ("1", "'v2'"), ("'a'", "2"), ("True", "'b'")])}


def _stock_types():
    """the ready-made constrained types the library ships in utype.types (several carry pre_validate / post_validate hooks)"""
    if "stock" not in _state:
        import inspect
        from utype import types, Rule
        _state["stock"] = sorted(n for n, t in vars(types).items() if inspect.isclass(t) and issubclass(t, Rule) and t is not Rule
                                 and not n.startswith("_") and getattr(t, "__module__", "") == "utype.types")
    return _state["stock"]


def make_stock_case(rng):
    """a stock utype.types class called directly with anything whatsoever (temporal extremes included)"""
    import datetime as dt
    name = rng.choice(_stock_types())
    extremes = [dt.datetime.min, dt.datetime.max, dt.date.min, dt.date.max, dt.timedelta.max, dt.timedelta.min,
                dt.datetime(1, 1, 1, 12), dt.time.max, dt.datetime(9999, 12, 31, 23, 59, 59, tzinfo=dt.timezone.utc)]
    inputs = []
    for _ in range(12):
        if rng.random() < 0.25:
            inputs.append(lambda v=rng.choice(extremes): v)
        else:
            inputs.append(V.pick(rng, None)[1])
    return {"fam": "stock", "name": name, "opts": {}, "inputs": inputs, "rng": rng, "spec": ("leaf", "int"), "route": "stock"}


ALIAS_SRC = """
import typing
import utype
from utype import Schema, DataClass, Field, Options
class AC({base}):
    __options__ = Options(**OPTS)
    a: typing.Any = Field(alias_from=['b', 'c'], default=None)
    n: int = Field(alias_from=['m'], default=0)
@utype.parse(options=Options(**OPTS))
def fa(a=utype.Param(None, alias_from=['b']), n: int = utype.Param(0, alias_from=['m']), **kw):
    return a, n
"""


def _deep(n):
    x = []
    for _ in range(n):
        x = [x]
    return x


def make_alias_case(rng):
    """one field given under two of its spellings with any two values whatsoever (the report of the conflict handles both values)"""
    inputs = []
    for _ in range(12):
        v1, v2 = V.pick(rng, None)[1], V.pick(rng, None)[1]
        if rng.random() < 0.35:
            # values whose repr() / str() itself fails: an int beyond the interpreter's digit limit, a very deep nesting
            v2 = rng.choice([lambda: 10 ** 5000, lambda: [10 ** 5000], lambda: {"k": -(10 ** 6000)}, lambda: _deep(3000), lambda: (_deep(3000), 1)])
            if rng.random() < 0.5:
                v1, v2 = v2, v1
        k1, k2 = rng.choice([("a", "b"), ("b", "a"), ("b", "c"), ("n", "m"), ("m", "n")])
        inputs.append(lambda v1=v1, v2=v2, k1=k1, k2=k2: {k1: v1(), k2: v2()})
    return {"fam": "alias", "base": rng.choice(["Schema", "DataClass", "function"]), "opts": dict(rng.choice(OPTS)), "inputs": inputs, "rng": rng,
            "spec": ("leaf", "int"), "route": "alias-conflict"}


def make_typeof_case(rng):
    """Type[T] (a class-valued annotation) called directly: classes, typing aliases and other objects as input"""
    import collections.abc as cabc
    pool = [int, bool, str, float, list, dict, type, object, type(None), typing.List[int], typing.Dict[str, int], typing.Optional[int], typing.Any,
            typing.Union[int, str], list[int], typing.Tuple[int, ...], cabc.Mapping, typing.Sequence, typing.TypeVar("TV"), "int", "builtins.int", 5, None,
            typing.Callable, typing.Literal[1], typing.Type[int], typing.Generic, typing.Protocol]
    inputs = []
    for _ in range(12):
        if rng.random() < 0.75:
            inputs.append(lambda v=rng.choice(pool): v)
        else:
            inputs.append(V.pick(rng, None)[1])
    return {"fam": "typeof", "base": rng.choice(["int", "str", "object", "Mapping", "Exception"]), "opts": {}, "inputs": inputs, "rng": rng,
            "spec": ("leaf", "int"), "route": "typeof"}


def make_ambient_case(rng):
    """temporal targets parsed while the caller's decimal context does not trap Overflow (the stdlib's stock ExtendedContext):
    arithmetic on a huge finite Decimal then yields Infinity instead of raising"""
    from decimal import Decimal
    leaf = ("leaf", rng.choice(["datetime", "datetime", "date", "timedelta", "time"]))
    spec = rng.choice([leaf, leaf, ("opt", leaf), ("gen", "list", (leaf,))])
    huge = [Decimal("1E+1000003"), Decimal("-1E+1000003"), Decimal("9.9E+999999"), Decimal("1E-1000003"), Decimal("1E+400"), Decimal("12345678901234567890.5")]
    inputs = []
    for _ in range(12):
        if rng.random() < 0.5:
            inputs.append(lambda v=rng.choice(huge): v)
        else:
            inputs.append(V.pick(rng, leaf[1])[1])
    return {"spec": spec, "opts": dict(rng.choice(OPTS)), "route": rng.choice(["tt", "call", "field", "param", "dcfield"]), "inputs": inputs, "rng": rng,
            "ambient": True}


def make_case(i, rng, tier):
    if rng.random() < 0.04:
        return make_disc_case(rng)
    if rng.random() < 0.03:
        return make_ambient_case(rng)
    if rng.random() < 0.03:
        return make_alias_case(rng)
    if rng.random() < 0.015:
        return make_typeof_case(rng)
    if rng.random() < 0.03:
        return make_stock_case(rng)
    depth = rng.choice([0, 1, 2, 2, 3]) if tier == "quick" else rng.choice([0, 1, 2, 2, 3, 3, 4])
    spec = TS.gen_spec(rng, depth, allow_lax=rng.random() < 0.2, abstract=rng.random() < 0.3,
                       dc=lambda r, d: TS.gen_dc(r, max(0, min(d, 1))))
    if rng.random() < 0.12:
        spec = TS.gen_dc(rng, 1)
    opts = dict(rng.choice(OPTS))
    route = rng.choice(["tt", "call", "call", "field", "field", "param", "return", "args", "kwargs", "dcfield"])
    inputs = []
    for _ in range(12):
        if rng.random() < 0.5:
            inputs.append(TS.gen_input(rng, spec))
        else:
            inputs.append(V.pick(rng, None)[1])
    return {"spec": spec, "opts": opts, "route": route, "inputs": inputs, "rng": rng}


def _nonstr_top(x):
    try:
        import collections.abc as cabc
        if isinstance(x, cabc.Mapping):
            return any(not isinstance(k, str) for k in x)
    except Exception:
        pass
    return False


def run_case(case, ctx):
    steps = _state["steps"]
    if steps is None:
        ctx.inconclusive_case("sys.monitoring unavailable")
        return
    spec, opts, route = case["spec"], case["opts"], case["route"]
    b = TS.Builder(case["rng"])
    try:
        try:
            if case.get("fam") == "disc":
                ctx.count("discriminated_union_cases")
                from ..routes import Entry
                ns = {"OPTS": {k: v for k, v in opts.items() if k != "max_errors" or opts.get("collect_errors")}}
                exec(DISC_SRC.format(base=case["base"], ta=case.get("tags", ("'a'", "'b'"))[0], tb=case.get("tags", ("'a'", "'b'"))[1]), ns)
                Hcls = ns["H"]
                for c in (ns["A"], ns["B"], Hcls):
                    b.created.append(c)
                entry = Entry(lambda x: Hcls.__from__(x), judged=True)
                spec = ("dc-with-discriminated-union", case["base"])
            elif case.get("fam") == "alias":
                ctx.count("alias_conflict_cases")
                from ..routes import Entry
                ns = {"OPTS": {k: v for k, v in opts.items() if k != "max_errors" or opts.get("collect_errors")}}
                exec(ALIAS_SRC.format(base="Schema" if case["base"] == "function" else case["base"]), ns)
                b.created.append(ns["AC"])
                if case["base"] == "function":
                    entry = Entry(lambda x: ns["fa"](**x), judged=True)
                else:
                    entry = Entry(lambda x: ns["AC"].__from__(x), judged=True)
                spec = ("field-with-several-spellings", case["base"])
            elif case.get("fam") == "typeof":
                ctx.count("type_of_class_cases")
                import collections.abc as cabc
                from ..routes import Entry
                from utype import Rule
                Tbase = {"int": int, "str": str, "object": object, "Mapping": cabc.Mapping, "Exception": Exception}[case["base"]]
                Ttype = Rule.parse_annotation(typing.Type[Tbase])
                entry = Entry(lambda x: Ttype(x), judged=True)
                spec = ("class-valued", "Type[%s]" % case["base"])
            elif case.get("fam") == "stock":
                ctx.count("stock_type_cases")
                from ..routes import Entry
                from utype import types as _types
                Tstock = getattr(_types, case["name"])
                entry = Entry(lambda x: Tstock(x), judged=True)
                spec = ("stock-type", "utype.types." + case["name"])
            else:
                ann = b.annotation(spec)
                from utype import Rule

                T = Rule.parse_annotation(ann)
                entry = make_entry(route, ann, T, opts, wrap_bare=True)
        except Exception as e:
            if case.get("fam") in ("disc", "stock", "alias", "typeof"):
                raise  # a fixed, legal declaration: failing to build it is a harness error, not a rejected declaration
            ctx.count("declaration_rejected:" + type(e).__name__)
            return
        if entry.cls is not None:
            b.created.append(entry.cls)
        if not entry.judged:
            ctx.count("unjudged_bare_builtin")
            return
        shape = TS.spec_shape(spec)
        okey = tuple(sorted(opts.items()))
        top_dc = spec[0] == "dc" and route in ("tt", "call")
        for mk in case["inputs"]:
            try:
                x = mk()
            except Exception:
                ctx.count("input_factory_failed")
                continue
            xr = short(x, 120)
            xc = TS.value_class(x)
            if case.get("ambient"):
                import decimal
                ctx.count("calls_under_a_non_trapping_decimal_context")

                def call(v):
                    with decimal.localcontext(decimal.ExtendedContext):
                        return entry(v)
            else:
                call = entry
            out = run(lambda: call(x), steps=steps, limit=STEP_LIMIT)
            ctx.count("calls")
            if out.kind != "steps" and steps.count > ctx.counters.get("max:steps", 0):
                ctx.counters["max:steps"] = steps.count
            sig = (shape, route, okey, xc, out.cls())
            wit = {"spec": TS.describe(spec), "route": route, "options": opts, "input": xr, "outcome": repr(out)}
            if out.kind == "ok":
                ctx.trivial("accepted")
                continue
            if out.kind == "escape" and isinstance(out.exc, Absent):
                ctx.trivial("excluded")
                continue
            if out.kind == "steps":
                # confirm at 10x with a tail recorder
                try:
                    x2 = mk()
                except Exception:
                    x2 = x
                out2 = run(lambda: call(x2), steps=steps, limit=STEP_LIMIT * 10, tail=100_000)
                if out2.kind == "steps":
                    loop = steps.loop_signature()
                    if len(loop) <= 12:
                        site = ",".join(f"{f}:{l}" for f, l in loop[:4])
                        ctx.violation(f"C04/non-termination/{loop[0][0] if loop else '?'}",
                                      f"{route} {TS.describe(spec)[:160]} input={xr}: no result within {STEP_LIMIT * 10} steps; "
                                      f"last 1e5 events touch only {len(loop)} lines: {site}",
                                      dict(wit, loop_lines=[f"{f}:{l}" for f, l in loop]), sig=sig)
                    else:
                        ctx.count("cost_blowup_routed_to_C18")
                        ctx.inconclusive_case("step budget exhausted without loop signature")
                else:
                    ctx.count("slow_but_terminating")
                    ctx.held(sig)
                continue
            if out.kind == "recursion":
                ctx.violation("C04/escape/RecursionError", f"{route} {TS.describe(spec)[:160]} input={xr}: RecursionError", wit, sig=sig)
                continue
            # failure clauses
            if entry.flags.get("body_entered") and route in ("param", "args", "kwargs"):
                ctx.violation("C04/body-entered-on-failure/" + route,
                              f"{route} {TS.describe(spec)[:160]} input={xr}: call failed ({out!r}) but the body had run", wit, sig=sig)
                continue
            if entry.flags.get("validate_entered"):
                ctx.violation("C04/instance-created-on-failure",
                              f"{route} {TS.describe(spec)[:160]} input={xr}: parse failed ({out!r}) after __validate__ ran on an instance", wit, sig=sig)
                continue
            if out.kind == "parse":
                ctx.held(sig)
                if ctx.want_sample() and spec[0] not in ("leaf",):
                    ctx.sample(dict(wit, verdict="ParseError"))
                continue
            # escape
            e = out.exc
            if top_dc and isinstance(e, TypeError) and "keywords must be strings" in str(e) and not opts.get("cast_keyword_str"):
                ctx.count("exempt:nonstr_top_level_keys")
                continue
            site = tb_site(e)
            if site is None:
                # raised entirely outside utype (e.g. inside a hostile dunder called from harness code)
                ctx.count("escape_outside_utype:" + type(e).__name__)
                continue
            key = f"C04/escape/{type(e).__name__}/{site[0]}:{site[1]}"
            if raised_in_harness_object(e):
                key = f"C04/input-object-dunder-raises-outside-try/{site[0]}:{site[1]}"
            ctx.violation(key, f"{route} {TS.describe(spec)[:160]} opts={opts} input={xr}: {type(e).__name__}: {short(str(e), 120)} "
                               f"escaped from {site[0]}:{site[1]}", wit, sig=sig)
    finally:
        b.cleanup()


def conclusive(m, tier):
    if m["counters"].get("calls", 0) == 0:
        return "no call executed under the step monitor"
    return None


def extra_coverage(m, tier):
    return {"step_budget": STEP_LIMIT, "max_steps_seen_in_a_terminating_call": m["counters"].get("max:steps", 0)}
