"""C15 — types built from a JSON Schema never crash nor emit what the schema forbids.

Events: schema document -> JsonSchemaParser(doc)() (build outcome); instance ->
type_transform(instance, T, Options(no_explicit_cast=True, no_data_loss=True)) outcome.
Oracle: building succeeds for every document of the supported fragment; every value the built
type RETURNS, JSON-encoded, validates against the source document (jsonschema package).
Being stricter than the schema is allowed and only counted."""
import json

from .. import values as V
from ..execu import run
from ..runner import short

ID = "C15"
N = {"quick": 24000, "thorough": 120000}
TIME_BUDGET = {"quick": 50, "thorough": 540}
MIN_NONTRIVIAL = {"quick": 300, "thorough": 3000}
RULE = ("cases = a schema document composed from exactly the keywords the property lists (type, format, minimum / maximum / "
        "exclusive* / multipleOf, minLength / maxLength / pattern, enum / const, items / prefixItems / min-maxItems / uniqueItems, "
        "properties / required / additionalProperties (bool or schema) / dependentRequired / min-maxProperties, anyOf / oneOf / "
        "allOf), nested to depth 3, with and without an explicit type; property names include non-identifiers, Python keywords, "
        "names starting with '_' or a digit, the empty string, dict method names (items, keys, update, pop, copy, get, values) and "
        "names that collide after sanitising ('a-b' / 'a_b' / 'a b'). 14 instances per schema: generated from the schema (valid, "
        "boundary, one keyword violated) + JSON values from the hostile pool, parsed under no_explicit_cast + no_data_loss. "
        "Non-trivial = the type was built and at least one instance was accepted and validated (or the build failed); distinct = "
        "(schema keyword shape, instance class, outcome).")
ASSUMPTIONS = [
    "the jsonschema package (Draft 2020-12, no format assertion) decides validity; 'type' given as an array is outside the listed fragment and not generated",
    "accepted values are JSON-encoded with the library's JSONEncoder before validation (as they would be published)",
    "rejecting a valid instance (being stricter, e.g. anchored pattern) is allowed by the statement and only counted",
    "multipleOf is generated with integer values (float remainders differ between validator and parser for reasons outside the property)",
]
PROP_NAMES = ["a", "b", "name", "class", "def", "_x", "__y", "1abc", "", "items", "keys", "update", "pop", "copy", "get", "values", "a-b", "a_b", "a b",
              "x.y", "x/y", "$id", "@id", "é", "type", "self", "Name", "name ", "0"]
_S = {}


def setup(ctx):
    from jsonschema import Draft202012Validator

    _S["V"] = Draft202012Validator


def n_cases(tier):
    return N[tier]


def gen_schema(rng, depth=2, typed=None):
    typed = rng.random() < 0.75 if typed is None else typed
    r = rng.random()
    if depth > 0 and r < 0.12:
        op = rng.choice(["anyOf", "oneOf", "allOf"])
        if op == "allOf":
            base = rng.choice(["integer", "string"])
            return {op: [gen_leaf(rng, base, True), gen_leaf(rng, base, rng.random() < 0.7)]}
        return {op: [gen_schema(rng, depth - 1) for _ in range(rng.choice([2, 2, 3]))]}
    t = rng.choice(["null", "boolean", "integer", "integer", "number", "string", "string", "array", "object", "object"])
    if depth <= 0 and t in ("array", "object"):
        t = rng.choice(["integer", "string"])
    if t == "array":
        s = {"type": "array"} if typed or rng.random() < 0.8 else {}
        r = rng.random()
        if r < 0.55:
            s["items"] = gen_schema(rng, depth - 1)
        elif r < 0.8:
            s["prefixItems"] = [gen_schema(rng, depth - 1) for _ in range(rng.choice([1, 2, 3]))]
            q = rng.random()
            if q < 0.3:
                s["items"] = False
            elif q < 0.5:
                s["items"] = gen_schema(rng, 0)
        if rng.random() < 0.3:
            s["minItems"] = rng.choice([0, 1, 2])
        if rng.random() < 0.3:
            s["maxItems"] = max(s.get("minItems", 0), rng.choice([1, 2, 3]))   # satisfiable bounds only
        if rng.random() < 0.2:
            s["uniqueItems"] = True
        return s
    if t == "object":
        s = {"type": "object"} if typed or rng.random() < 0.8 else {}
        n = rng.choice([0, 1, 2, 2, 3, 4])
        names = rng.sample(PROP_NAMES, n)
        if n:
            s["properties"] = {k: gen_schema(rng, depth - 1) for k in names}
            if depth > 0 and rng.random() < 0.2:
                # one schema OBJECT used at several positions (what inlining a $ref / sharing a component in code produces):
                # as a property, as the items of a sibling array, and as a branch of a sibling anyOf
                shared = s["properties"][names[0]]
                if isinstance(shared, dict) and shared.get("type") in ("integer", "number", "string"):
                    s["properties"]["sharedList"] = {"type": "array", "items": shared}
                    s["properties"]["sharedAlt"] = {"anyOf": [shared, {"type": "null"}]}
            if rng.random() < 0.6:
                s["required"] = rng.sample(names, rng.randint(1, n))
            if n > 1 and rng.random() < 0.2:
                a, b = rng.sample(names, 2)
                s["dependentRequired"] = {a: [b]}
        r = rng.random()
        if r < 0.25:
            s["additionalProperties"] = False
        elif r < 0.4:
            s["additionalProperties"] = True
        elif r < 0.55:
            s["additionalProperties"] = gen_schema(rng, 0)
        if rng.random() < 0.2 and not (s.get("additionalProperties") is False and not n):
            s["minProperties"] = rng.choice([1, 2])
        if rng.random() < 0.2:
            s["maxProperties"] = max(s.get("minProperties", 0), rng.choice([1, 2, 3]))
        return s
    return gen_leaf(rng, t, typed)


def gen_leaf(rng, t, typed=True):
    s = {"type": t} if typed else {}
    if t in ("integer", "number"):
        r = rng.random()
        if r < 0.5:
            lo = rng.choice([-5, 0, 1, 3, 10])
            # (for numbers also bounds that are no binary fractions: 0.1, 3.3 ... - they differ from their own decimal text as floats)
            s[rng.choice(["minimum", "exclusiveMinimum"])] = lo if t == "integer" else rng.choice([lo, lo + 0.5, lo + 0.1, lo + 0.3])
            if rng.random() < 0.6:
                hk = rng.choice(["maximum", "exclusiveMaximum"])
                gap = rng.choice([1, 2, 5, 100])
                if t == "integer" and "exclusiveMinimum" in s and hk == "exclusiveMaximum":
                    gap = max(gap, 2)   # an integer strictly between the bounds must exist (satisfiable schemas only)
                s[hk] = lo + gap
                if rng.random() < 0.25:
                    # bounds of mixed numeric spelling are legal for any numeric type (an integer between them exists)
                    if rng.random() < 0.5:
                        s[hk] = lo + gap + 0.5
                    else:
                        k0 = "minimum" if "minimum" in s else "exclusiveMinimum"
                        s[k0] = s[k0] - 0.5
            elif rng.random() < 0.3:
                # upper bound only / bounds around zero
                k0 = "minimum" if "minimum" in s else "exclusiveMinimum"
                v0 = s.pop(k0)
                s[rng.choice(["maximum", "exclusiveMaximum"])] = rng.choice([0, v0, -v0])
                if rng.random() < 0.5:
                    s[k0] = min(-10.5, s.get("maximum", s.get("exclusiveMaximum")) - 3.5) if rng.random() < 0.5 else -20
        elif r < 0.65:
            s["multipleOf"] = rng.choice([2, 3, 5, 10])
        elif r < 0.8:
            s["enum"] = rng.sample([0, 1, 2, 3, 5, 10, -1], rng.choice([1, 2, 3]))
        elif r < 0.9:
            s["const"] = rng.choice([0, 1, 7])
        if t == "number" and typed and rng.random() < 0.3:
            s["format"] = rng.choice(["float", "decimal", "decimal"])
    elif t == "string":
        r = rng.random()
        if r < 0.3:
            if rng.random() < 0.7:
                s["minLength"] = rng.choice([0, 1, 2])
            if rng.random() < 0.7:
                s["maxLength"] = rng.choice([2, 3, 5])   # always >= the generated minLength
        elif r < 0.45:
            s["pattern"] = rng.choice([r"^\d+$", r"[a-z]+", r"^ab", r"c$", r"\d{4}-\d{2}-\d{2}", r"a|bc", r"^a[a-z]*@"])
            if rng.random() < 0.4:
                # an annotation-only format next to the pattern, written after or before it
                f = rng.choice(["email", "email", "hostname", "uri", "idn-email", "regex"])
                if rng.random() < 0.7:
                    s["format"] = f
                else:
                    s = {k: v for k, v in list(s.items())[:1]} | {"format": f} | {k: v for k, v in list(s.items())[1:]}
        elif r < 0.6:
            s["enum"] = rng.sample(["a", "ab", "abc", "", "1", "true"], rng.choice([1, 2, 3]))
        elif r < 0.68:
            s["const"] = rng.choice(["a", "", "x y"])
        elif r < 0.9 and typed:
            s["format"] = rng.choice(["date", "date-time", "time", "duration", "uuid", "binary", "ipv4"])
    elif t == "boolean" and rng.random() < 0.2:
        s["const"] = rng.random() < 0.5
    elif not typed:
        s[rng.choice(["const", "enum"])] = rng.choice([[None], [True], [1, "a"]]) if False else None
        s.clear()
        if rng.random() < 0.5:
            s["const"] = rng.choice([None, True, 1, "a", 1.5])
        else:
            s["enum"] = rng.sample([None, True, 1, "a", 1.5, "b"], rng.choice([1, 2, 3]))
    return s


SCALARS = [None, True, False, 0, 1, -1, 2, 3, 5, 7, 10, 11, 100, 1.5, 3.0, 10.5, -0.5, "", "a", "ab", "abc", "abcdef", "1", "12", "true", "null", "x y",
           "2020-01-02", "2020-01-02T03:04:05", "03:04:05", "P1DT2H", "12345678-1234-5678-1234-567812345678", "127.0.0.1", "bc", "cab",
           "bob@example.com", "ab@c.de", "example.com", "http://a.b/c"]


def gen_instance(rng, s, depth=0):
    """an instance aimed at schema s: mostly valid, sometimes violating one keyword, sometimes arbitrary"""
    if rng.random() < 0.15 or depth > 5:
        return rng.choice(SCALARS + [[], {}, [1, "a"], {"a": 1}])
    for op in ("anyOf", "oneOf", "allOf"):
        if op in s:
            return gen_instance(rng, rng.choice(s[op]), depth + 1)
    if "const" in s and rng.random() < 0.7:
        return s["const"]
    if "enum" in s and rng.random() < 0.7:
        return rng.choice(s["enum"])
    t = s.get("type")
    if t is None:
        if "properties" in s or "additionalProperties" in s:
            t = "object"
        elif "items" in s or "prefixItems" in s:
            t = "array"
        elif any(k in s for k in ("minimum", "maximum", "exclusiveMinimum", "exclusiveMaximum", "multipleOf")):
            t = "integer"
        elif any(k in s for k in ("minLength", "maxLength", "pattern")):
            t = "string"
        else:
            return rng.choice(SCALARS)
    if t == "null":
        return None
    if t == "boolean":
        return rng.random() < 0.5
    if t in ("integer", "number"):
        cands = []
        for k in ("minimum", "exclusiveMinimum", "maximum", "exclusiveMaximum"):
            if k in s:
                b = s[k]
                cands += [b, b + 1, b - 1] + ([b + 0.5] if t == "number" else [])
        if "multipleOf" in s:
            m = s["multipleOf"]
            cands += [m, 2 * m, m + 1, 0, -m]
        cands = cands or [0, 1, 2, 5, 10, -3]
        v = rng.choice(cands)
        return v if t == "number" or isinstance(v, int) else int(v)
    if t == "string":
        f = s.get("format")
        if f:
            return rng.choice({"date": ["2020-01-02", "2020-13-45", "x"], "date-time": ["2020-01-02T03:04:05", "2020-01-02T03:04:05+08:00", "x"],
                               "time": ["03:04:05", "25:00:00"], "duration": ["P1DT2H", "PT0S", "x"], "uuid": ["12345678-1234-5678-1234-567812345678", "zz"],
                               "binary": ["abc", "é"], "ipv4": ["127.0.0.1", "999.1.1.1"]}.get(f, ["a"]))
        if "pattern" in s:
            return rng.choice(["123", "abc", "ab", "c", "abc123", "2020-01-02", "a", "bc", "", "xabcx"])
        n = rng.choice([s.get("minLength", 0), s.get("maxLength", 3), s.get("maxLength", 3) + 1, max(0, s.get("minLength", 1) - 1)])
        return "abcdefghij"[:n]
    if t == "array":
        if "prefixItems" in s:
            items = [gen_instance(rng, p, depth + 1) for p in s["prefixItems"]]
            r = rng.random()
            if r < 0.2 and items:
                items = items[:-1]
            elif r < 0.45:
                extra = s.get("items")
                items.append(gen_instance(rng, extra, depth + 1) if isinstance(extra, dict) else rng.choice(SCALARS))
            return items
        n = rng.choice([0, 1, 2, 3, s.get("minItems", 1), s.get("maxItems", 2) + 1])
        it = s.get("items") if isinstance(s.get("items"), dict) else {}
        items = [gen_instance(rng, it, depth + 1) for _ in range(n)]
        if s.get("uniqueItems") and items and rng.random() < 0.4:
            items.append(items[0])
        return items
    if t == "object":
        props = s.get("properties", {})
        req = s.get("required", [])
        d = {}
        for k, ps in props.items():
            if k in req and rng.random() < 0.9 or rng.random() < 0.6:
                d[k] = gen_instance(rng, ps, depth + 1)
        if rng.random() < 0.3:
            ap = s.get("additionalProperties")
            d[rng.choice(["extra", "zz", "a-b", "items"])] = gen_instance(rng, ap, depth + 1) if isinstance(ap, dict) else rng.choice(SCALARS)
        return d
    return rng.choice(SCALARS)


def shape(s, depth=0):
    """keyword shape of a schema document (for distinct counting and mechanism keys)"""
    if not isinstance(s, dict):
        return repr(s)
    out = []
    for k in sorted(s):
        v = s[k]
        if k in ("properties",):
            out.append((k, tuple(sorted((("odd" if not str(n).isidentifier() or n in ("items", "keys", "update", "pop", "copy", "get", "values", "class", "def") else "id"), shape(x, depth + 1))
                                        for n, x in v.items()))))
        elif k in ("items", "additionalProperties") and isinstance(v, dict):
            out.append((k, shape(v, depth + 1)))
        elif k in ("prefixItems", "anyOf", "oneOf", "allOf"):
            out.append((k, tuple(shape(x, depth + 1) for x in v)))
        elif k in ("type", "format"):
            out.append((k, v))
        else:
            out.append((k,))
    return tuple(out)


def make_case(i, rng, tier):
    doc = gen_schema(rng, rng.choice([1, 2, 2, 3]))
    insts = [gen_instance(rng, doc) for _ in range(11)] + [rng.choice(SCALARS) for _ in range(3)]
    return {"doc": doc, "instances": insts}


def _odd_names(doc, acc=None):
    acc = [] if acc is None else acc
    if isinstance(doc, dict):
        for k, v in doc.items():
            if k == "properties" and isinstance(v, dict):
                acc += list(v)
            if isinstance(v, dict):
                _odd_names(v, acc)
            elif isinstance(v, list):
                for x in v:
                    _odd_names(x, acc)
    return acc


def build_key(doc, e):
    """mechanism key for a failed build: which keyword situation the document is in"""
    names = _odd_names(doc)
    if "" in names and "''" in str(e):
        return "empty-property-name"
    methods = [n for n in names if hasattr(dict, n)]
    if methods and any(repr(n) in str(e) for n in methods):
        return "property-named-like-a-dict-method"
    if any((not str(n).isidentifier()) or n == "" for n in names):
        return "property-name-not-an-identifier/" + type(e).__name__
    flat = json.dumps(doc)
    if ('"const"' in flat or '"enum"' in flat) and "'NoneType' object is not callable" in str(e):
        return "const-or-enum-without-type"
    return type(e).__name__


def run_case(case, ctx):
    from utype import Options, type_transform
    from utype.specs.json_schema.parser import JsonSchemaParser
    from utype.utils.encode import JSONEncoder

    doc = case["doc"]
    shp = shape(doc)
    wit = {"schema": short(doc, 500)}
    try:
        _S["V"].check_schema(doc)
    except Exception as e:
        ctx.harness_errors.append({"index": ctx.case_index, "tb": "generated an invalid schema: " + str(e)[:300]})
        return
    import copy
    # (a private copy that keeps the sharing structure of the document: one schema object may sit at several positions)
    b = run(lambda: JsonSchemaParser(copy.deepcopy(doc))())
    ctx.count("builds")
    if not b.ok:
        ctx.violation("C15/build-failed/" + build_key(doc, b.exc), f"JsonSchemaParser({short(doc, 200)})() raised {b.exc!r:.200}", dict(wit, error=repr(b.exc)[:300]), sig=(shp, "build"))
        return
    T = b.value
    accepted = 0
    opts = Options(no_explicit_cast=True, no_data_loss=True)
    for inst in case["instances"]:
        o = run(lambda: type_transform(json.loads(json.dumps(inst)), T, options=opts))
        ctx.count("parses")
        valid_in = _S["V"](doc).is_valid(inst)
        if not o.ok:
            if o.kind == "escape":
                ctx.count("escape_left_to_C04")
            if valid_in:
                ctx.count("stricter_than_schema(valid instance rejected)")
            continue
        accepted += 1
        try:
            enc = json.loads(json.dumps(o.value, cls=JSONEncoder))
        except Exception:
            ctx.skip("result not JSON-encodable")
            continue
        ctx.count("results_validated")
        errs = sorted(_S["V"](doc).iter_errors(enc), key=lambda e: len(list(e.absolute_path)))
        sig = (shp, V.snapshot(inst)[0], "accepted")
        if errs:
            e = errs[0]
            typed_here = _typed_at(doc, list(e.absolute_path))
            key = f"C15/result-violates-schema/{e.validator}/" + ("typeless-schema-loses-its-constraints" if not typed_here and e.validator not in ("type",) else
                                                                  ("input-was-valid" if valid_in else "input-was-invalid"))
            known = _known_mechanism(doc, e, enc, inst)
            if known:
                key = "C15/result-violates-schema/" + known
            ctx.violation(key, f"schema {short(doc, 160)}: instance {short(inst, 80)} -> {short(enc, 80)} fails '{e.validator}' at /{'/'.join(str(p) for p in e.absolute_path)}: "
                               f"{str(e.message)[:120]}", dict(wit, instance=short(inst, 200), result=short(enc, 200)), sig=sig)
            return
    if accepted:
        ctx.held((shp, "accepted"))
        if ctx.want_sample() and len(json.dumps(doc)) > 60:
            ctx.sample(dict(wit, accepted_instances=accepted))
    else:
        ctx.trivial("built; every instance rejected")


def _walk_errors(e, depth=0):
    yield e
    if depth < 6:
        for c in (e.context or []):
            yield from _walk_errors(c, depth + 1)


def _has_kw(doc, pred, depth=0):
    if isinstance(doc, dict):
        if pred(doc):
            return True
        return any(_has_kw(v, pred, depth + 1) for v in doc.values())
    if isinstance(doc, list):
        return any(_has_kw(v, pred, depth + 1) for v in doc)
    return False


def _reserved_extra_key(inst, d=0):
    if isinstance(inst, dict):
        return any((isinstance(k, str) and (hasattr(dict, k) or k.startswith("_"))) or _reserved_extra_key(v, d + 1) for k, v in inst.items())
    if isinstance(inst, list) and d < 5:
        return any(_reserved_extra_key(v, d + 1) for v in inst)
    return False


def _known_mechanism(doc, e, enc, inst=None):
    """structural recognition of the listed findings (document shape + failing keyword), else None"""
    if any(x.validator == "minProperties" for x in _walk_errors(e)) and _reserved_extra_key(inst) and not _reserved_extra_key(enc):
        return "minProperties/additional-property-with-a-reserved-name-is-dropped"
    if any(x.validator == "uniqueItems" for x in _walk_errors(e)) and _has_kw(doc, lambda d: d.get("format") == "binary"):
        return "uniqueItems/bytes-and-str-items-are-distinct-for-the-parser-but-equal-when-published"
    for x in _walk_errors(e):
        if x.validator == "oneOf" and "is valid under each of" in str(x.message):
            return "oneOf/several-branches-accept-the-result"
    if "" in _odd_names(doc) and any(x.validator in ("required", "type", "additionalProperties", "minProperties", "maxProperties", "dependentRequired")
                                     or "" in [str(p) for p in x.absolute_path] for x in _walk_errors(e)):
        return "empty-property-name"
    mixes = lambda d: isinstance(d.get("enum"), list) and any(isinstance(v, bool) for v in d["enum"]) and any(isinstance(v, (int, float)) and not isinstance(v, bool) for v in d["enum"])
    if any(x.validator in ("enum", "const") for x in _walk_errors(e)) and _has_kw(doc, mixes):
        return "enum/enum-mixes-bool-and-number"
    unlisted = lambda d: "minProperties" in d and "properties" in d and "additionalProperties" not in d
    if any(x.validator == "minProperties" for x in _walk_errors(e)) and _has_kw(doc, unlisted):
        return "minProperties/unlisted-properties-are-dropped"
    lens = []
    _has_kw(doc, lambda d: bool("prefixItems" in d and "items" in d and lens.append(len(d["prefixItems"]))))
    if lens and any(x.validator == "items" or any(isinstance(p, int) and p >= min(lens) for p in x.absolute_path) for x in _walk_errors(e)):
        # the failing position is an EXTRA item (beyond the prefix) of an array that constrains its extra items
        return "items/extra-items-of-a-prefixItems-array-follow-the-enclosing-options"
    fmt_allof = lambda d: isinstance(d.get("allOf"), list) and any(isinstance(a, dict) and "format" in a for a in d["allOf"])
    if any(x.validator in ("minLength", "maxLength", "pattern", "enum", "const") for x in _walk_errors(e)) and _has_kw(doc, fmt_allof):
        return "allOf/an-arm-with-a-format-re-encodes-the-string"
    return None


def _typed_at(doc, path):
    """does the subschema that governs the failing location carry an explicit 'type'?"""
    s = doc
    for p in path:
        if not isinstance(s, dict):
            return True
        if isinstance(p, int):
            if "prefixItems" in s and p < len(s["prefixItems"]):
                s = s["prefixItems"][p]
            else:
                s = s.get("items", {})
        else:
            props = s.get("properties", {})
            s = props[p] if p in props else s.get("additionalProperties", {})
    return not isinstance(s, dict) or "type" in s or any(k in s for k in ("anyOf", "oneOf", "allOf"))


def conclusive(m, tier):
    c = m["counters"]
    if c.get("builds", 0) == 0:
        return "no schema was built"
    if c.get("results_validated", 0) == 0:
        return "no accepted result was validated"
    return None
