"""Fresh-state probe server for C19/P3.

Imports utype once, then for every request line {"source": ..., "calls": [...]} forks a child that
executes the declaration source in a new module and performs ONLY the probe calls; the child's
answer is what 'a process that never ran the history' observes.  One JSON answer line per request."""
import json
import os
import sys
import types


def outcome(thunk):
    import warnings

    try:
        with warnings.catch_warnings():
            warnings.simplefilter("ignore")
            v = thunk()
        return ["ok", norm(v)]
    except BaseException as e:  # noqa
        if (type(e).__module__ or "").startswith("vmon."):
            raise  # the harness's own signals (case watchdog, scheduler timeouts) are never outcomes of the library
        errs = getattr(e, "errors", None)
        kinds = sorted((type(x).__name__, str(getattr(x, "item", None))) for x in errs) if errs else None
        return ["err", type(e).__name__, kinds]


def norm(v):
    import re

    if isinstance(v, dict):
        return {str(k): norm(x) for k, x in v.items()}
    if isinstance(v, (list, tuple)):
        return [norm(x) for x in v]
    if isinstance(v, (set, frozenset)):
        return sorted(repr(norm(x)) for x in v)
    if isinstance(v, (int, float, str, bool)) or v is None:
        return v
    if hasattr(type(v), "__parser__") and hasattr(v, "__dict__"):
        return {"__class__": type(v).__name__, **{k: norm(x) for k, x in v.__dict__.items() if not k.startswith("__")}}
    return re.sub(r"0x[0-9a-f]+", "0x", repr(v))


def perform(ns, call):
    """call = [kind, target, payload, options]"""
    from utype import Options

    kind, target, payload, opts = call
    obj = ns[target]
    if kind == "from":
        return outcome(lambda: dict_or_obj(obj.__from__(payload, options=Options(**opts)) if opts else obj.__from__(payload)))
    if kind == "init":
        return outcome(lambda: dict_or_obj(obj(**payload)))
    if kind == "call":
        return outcome(lambda: obj(*payload.get("args", []), **payload.get("kwargs", {})))
    if kind == "gen":
        return outcome(lambda: list(obj(*payload.get("args", []), **payload.get("kwargs", {}))))
    if kind == "type":
        from utype import type_transform
        return outcome(lambda: type_transform(payload, obj, options=Options(**opts) if opts else None))
    raise ValueError(kind)


def dict_or_obj(inst):
    return dict(inst) if isinstance(inst, dict) else inst


def run_request(req):
    mod = types.ModuleType(req.get("module", "vmon_c19_decl"))
    sys.modules[mod.__name__] = mod
    exec(compile(req["source"], "<c19-declaration>", "exec"), mod.__dict__)
    return [perform(mod.__dict__, c) for c in req["calls"]]


def main():
    import utype  # noqa: imported before forking, as any user process would have

    for line in sys.stdin:
        line = line.strip()
        if not line:
            continue
        req = json.loads(line)
        r, w = os.pipe()
        pid = os.fork()
        if pid == 0:
            os.close(r)
            try:
                ans = json.dumps({"ok": True, "results": run_request(req)})
            except BaseException as e:  # noqa
                ans = json.dumps({"ok": False, "error": f"{type(e).__name__}: {e}"})
            os.write(w, ans.encode())
            os._exit(0)
        os.close(w)
        chunks = []
        while True:
            b = os.read(r, 65536)
            if not b:
                break
            chunks.append(b)
        os.close(r)
        os.waitpid(pid, 0)
        sys.stdout.write(b"".join(chunks).decode() + "\n")
        sys.stdout.flush()


if __name__ == "__main__":
    main()
