"""C09 — logical type combinators mean what they say.

Events: outcome of a combinator node on x, and the outcome of each of its arguments on the
ORIGINAL x evaluated independently (fresh context), per union stage where relevant.
Oracle: argument-relative semantics of | ^ ~ &, permutation invariance of ^, and the construction
algebra checked structurally on the built types."""
import itertools
import typing

from .. import typespec as TS
from .. import values as V
from ..execu import run
from ..runner import short

ID = "C09"
N = {"quick": 15000, "thorough": 160000}
TIME_BUDGET = {"quick": 40, "thorough": 480}
MIN_NONTRIVIAL = {"quick": 200, "thorough": 2000}
RULE = ("cases = one combinator node (| ^ & ~) over 1-4 argument types drawn from a curated list of DISAGREEING leaves "
        "(int ge=10 / str max_length=2 / int / float / bool / Decimal / List[int] / Literal / data classes with overlapping "
        "fields / nested combinators) plus random TypeSpecs (depth<=2), built through LogicalType.any_of/one_of/all_of/not_of "
        "or the Python operators, under Options in {{}}, no_data_loss, no_explicit_cast, both, collect_errors; 12 inputs per case "
        "(aimed at the arguments + spellings where one argument converts and another accepts only the unconverted form). "
        "For ^ every permutation of <=4 arguments is built and run. 10% of cases are structural algebra cases (~~T, duplicate / "
        "Any absorption, same-kind flattening, operators with data classes on either side). Non-trivial = the arguments disagree on "
        "the input (some accept, some reject) or an algebra identity over >=2 distinct arguments; distinct = (op, argument shapes, "
        "options, input class, verdict).")
ASSUMPTIONS = [
    "argument verdicts are obtained by calling the library on each argument with a fresh context (relation between runs); an argument-level defect that shifts both runs is C01/C02/C12's business",
    "union: accept <=> some argument accepts under one of the three staged option sets (strict, no-loss, as given); the result must equal the output of an accepting (stage, argument) pair",
    "reject = any exception from an argument evaluated alone; the combinator itself must reject with ParseError (C04 covers the class)",
    "max_depth / force_error are not exercised here",
    "one-shot inputs (iterators, generators, file objects) are consumed by the first argument that touches them, so argument-relative semantics are undefined for them: skipped and counted",
]

OPTS = [{}, {}, {}, {"no_data_loss": True}, {"no_explicit_cast": True}, {"no_data_loss": True, "no_explicit_cast": True},
        {"collect_errors": True}, {"collect_errors": True}]

DC_A = ("dc", "Schema", (("a", ("leaf", "int"), True, None),), "c09A")
DC_B = ("dc", "Schema", (("a", ("leaf", "int"), True, None), ("b", ("leaf", "str"), False, None)), "c09B")
DC_C = ("dc", "DataClass", (("a", ("leaf", "str"), True, None),), "c09C")
CURATED = [
    ("con", "int", (("ge", 10),), (), ()), ("con", "str", (("max_length", 2),), (), ()), ("leaf", "int"), ("leaf", "float"),
    ("leaf", "bool"), ("leaf", "Decimal"), ("leaf", "str"), ("leaf", "bytes"), ("leaf", "NoneType"), ("gen", "list", (("leaf", "int"),)),
    ("lit", (1, "a")), ("lit", (True,)), DC_A, DC_B, DC_C, ("con", "float", (("gt", 0),), (), ()), ("con", "int", (("multiple_of", 2),), (), ()),
    ("con", "int", (("lt", 0),), (), ()), ("leaf", "date"), ("leaf", "datetime"), ("gen", "dict", (("leaf", "str"), ("leaf", "int"))),
    ("gen", "tuple_fix", (("leaf", "int"), ("leaf", "str"))), ("con", "str", (("regex", r"\d+"),), (), ()), ("leaf", "Num"),
    ("con", "Decimal", (("decimal_places", 2),), (), ()), ("gen", "set", (("leaf", "int"),)), ("leaf", "UUID"), ("leaf", "timedelta"),
    ("or", (("leaf", "int"), ("leaf", "NoneType"))), ("not", ("con", "int", (("lt", 0),), (), ())), ("con", "int", (("ge", 0),), (), ()),
    ("or", (("leaf", "str"), ("gen", "list", (("leaf", "str"),)))), ("xor", (("leaf", "int"), ("leaf", "str"))),
    # bare builtin containers (their converters read bracketed text as JSON / a Python literal)
    ("leaf", "list"), ("leaf", "tuple"), ("leaf", "dict"), ("leaf", "set"), ("not", ("leaf", "list")), ("not", ("leaf", "dict")),
    # hook-only rules (see _hook_rules)
    ("leaf", "EvenHook"), ("leaf", "EvenHook"), ("leaf", "ShortHook"),
]
DICT_CONS = [("con", "dict", (("min_length", 2),), (), ()), ("con", "dict", (("max_length", 1),), (), ()),
             ("gen", "dict", (("leaf", "str"), ("leaf", "int")))]
DCS = [DC_A, DC_B, DC_C]
CUR_INPUTS = [10.0, "10", b"7", True, 5, 5.0, "5", None, "null", 3.5, -3, "-3", "ab", "abc", [1], ["1"], [1, 2], {"a": "1"}, {"a": 1, "b": 2},
              {"a": "x"}, "a", 1, 0, "1.5", "2020-01-02", 12, "12", 11, (1, "x"), [3, "y"], "3.14", b"ab", 1.0, False, "true", "", 100, "100",
              # bracketed text that is neither JSON nor a Python literal
              "[1,,2]", "{a:}", "(1 2)", "[1, 2", "{'a': }", "[1, 2]", "(1, 2)", '{"a": 1}']

_state = {}


def _hook_rules():
    """constrained types whose whole condition lives in their pre_validate / post_validate hooks (no origin, no keyword constraint)"""
    if "EvenHook" in TS.ORIGINS:
        return
    from utype import Rule

    class EvenHook(Rule):
        @classmethod
        def post_validate(cls, value, options=None):
            if isinstance(value, bool) or not isinstance(value, int) or value % 2:
                raise ValueError("not an even int")
            return value

    class ShortHook(Rule):
        @classmethod
        def pre_validate(cls, value, options=None):
            if isinstance(value, (str, bytes, list, tuple, dict)) and len(value) > 2:
                raise ValueError("too long")
            return value

    TS.ORIGINS["EvenHook"] = EvenHook
    TS.ORIGINS["ShortHook"] = ShortHook


def setup(ctx):
    import os
    from utype.parser.rule import LogicalType
    _hook_rules()

    counts = {}
    raw = LogicalType.logical_parse

    def counted(cls, value, context=None, **kw):
        k = "online:logical_parse:" + str(cls.combinator)
        counts[k] = counts.get(k, 0) + 1
        return raw(cls, value, context, **kw)

    if os.environ.get("UTYPE_VERIF_MONITORS"):
        LogicalType.logical_parse = counted
    _state["counts"] = counts


def finish(ctx):
    for k, v in _state.get("counts", {}).items():
        ctx.count(k, v)


def n_cases(tier):
    return N[tier]


def gen_arg(rng, tier):
    if rng.random() < 0.65:
        return rng.choice(CURATED)
    return TS.gen_spec(rng, rng.choice([0, 1, 1, 2]), logic=rng.random() < 0.3, dc=lambda r, d: TS.gen_dc(r, 0))


LATE_SRC = """
import typing
from typing import Union, Optional, List
import utype
from utype import Schema, DataClass, Field
class Leaf{u}({base}):
    name: str
class Holder{u}(Schema):
    item: {ann} = None
    many: List[{ann}] = Field(default_factory=list)
class Group{u}({base}):
    name: str
    members: list = Field(default_factory=list)
"""


def run_late(case, ctx):
    """a union one of whose arguments is named by a string and declared LATER: a value of exactly that argument type
    comes back unchanged, like for any other argument"""
    import sys
    import types
    u = next(_hid)
    L, G = f"Leaf{u}", f"Group{u}"
    ann = {"late-second": f"Union[{L}, '{G}']", "late-first": f"Union['{G}', {L}]", "optional": f"Optional[Union[{L}, '{G}']]",
           "whole-string": f"'Union[{L}, {G}]'", "three": f"Union[int, {L}, '{G}']"}[case["ann"]]
    src = LATE_SRC.format(u=u, base=case["base"], ann=ann)
    mod = types.ModuleType("vmon_c09_late%d" % u)
    sys.modules[mod.__name__] = mod
    try:
        o = run(lambda: exec(compile(src, "<c09-late>", "exec"), mod.__dict__))
        ctx.count("calls")
        ctx.count("late_argument_scenarios")
        sig = ("late", case["ann"], case["base"], case["first"])
        if not o.ok:
            ctx.count("declaration_rejected:" + type(o.exc).__name__)
            return
        ns = mod.__dict__
        H, Lc, Gc = ns[f"Holder{u}"], ns[L], ns[G]
        g = Gc(name="g", members=[1, 2])
        lf = Lc(name="l")
        steps = [("item", g), ("item", lf), ("many", [g, lf, g])]
        if case["first"] == "leaf":
            steps = [steps[1], steps[0], steps[2]]
        for key, val in steps:
            r = run(lambda: getattr(H(**{key: val}), key))
            ctx.count("calls")
            got = r.value if r.ok else None
            same = r.ok and (got is val if key == "item" else (isinstance(got, list) and len(got) == len(val) and all(a is b for a, b in zip(got, val))))
            if not same:
                ctx.violation("C09/or/exact-type-value-not-returned-unchanged/argument-declared-later",
                              f"{ann} (Group declared after the union): {key}={short(val, 60)} -> {r!r}; a value of exactly one argument type must come back unchanged",
                              {"source": src, "field": key, "given": short(val, 100), "observed": repr(r)}, sig=sig)
                return
        ctx.held(sig)
    finally:
        sys.modules.pop(mod.__name__, None)
        try:
            from utype.parser import base as pbase
            for v in list(mod.__dict__.values()):
                if isinstance(v, type):
                    pbase.__parsers__.pop(v, None)
        except Exception:
            pass


def make_case(i, rng, tier):
    if rng.random() < 0.02:
        return {"kind": "late", "ann": rng.choice(["late-second", "late-second", "late-first", "optional", "whole-string", "three"]),
                "base": rng.choice(["Schema", "DataClass"]), "first": rng.choice(["group", "leaf"])}
    if rng.random() < 0.1:
        n = rng.randint(2, 4)
        args = [gen_arg(rng, tier) for _ in range(n)]
        if rng.random() < 0.35:
            # a data class on either side of a constrained / combined type (LogicalMeta operators)
            args[0], args[1] = rng.choice(DCS), rng.choice(DICT_CONS + [a for a in CURATED if a[0] in ("con", "or", "xor", "not")])
            if rng.random() < 0.5:
                args[0], args[1] = args[1], args[0]
        return {"kind": "algebra", "args": args, "rng": rng}
    op = rng.choice(["or", "or", "xor", "xor", "and", "and", "not"])
    n = 1 if op == "not" else rng.choice([2, 2, 3, 3, 4])
    args = []
    for _ in range(n * 3):
        a = gen_arg(rng, tier)
        if a not in args:
            args.append(a)
        if len(args) == n:
            break
    if op == "and" and rng.random() < 0.25:
        pair = [rng.choice(DCS[:2]), rng.choice(DICT_CONS)]
        rng.shuffle(pair)
        args = pair + args[2:n]
    elif op == "and":
        # make the fold meaningful: later arms constrain the origin of the first, or negate
        first = args[0]
        if first[0] in ("leaf", "con") and first[1] in ("int", "float", "str", "Decimal") and rng.random() < 0.7:
            o = first[1]
            extra = TS.gen_scalar(rng, 1.0, False, [o])
            args = [first, ("not", extra) if rng.random() < 0.4 else extra] + args[2:n]
    opts = dict(rng.choice(OPTS))
    inputs = []
    for _ in range(12):
        r = rng.random()
        if r < 0.45:
            v = rng.choice(CUR_INPUTS)
            inputs.append(lambda v=v: (list(v) if isinstance(v, list) else dict(v) if isinstance(v, dict) else v))
        elif r < 0.9:
            inputs.append(TS.gen_input(rng, rng.choice(args)))
        else:
            inputs.append(V.pick(rng, None)[1])
    return {"kind": "sem", "op": op, "args": args, "opts": opts, "inputs": inputs, "route": rng.choice(["ctor", "operator"]), "rng": rng}


def _combine(op, Ts, route):
    from utype.parser.rule import LogicalType

    if op == "not":
        if route == "operator" and isinstance(Ts[0], LogicalType) or hasattr(type(Ts[0]), "__logical_type__"):
            return ~Ts[0]
        return LogicalType.not_of(Ts[0])
    ctor = {"or": LogicalType.any_of, "xor": LogicalType.one_of, "and": LogicalType.all_of}[op]
    if route == "operator":
        import operator as O

        f = {"or": O.or_, "xor": O.xor, "and": O.and_}[op]
        try:
            acc = Ts[0]
            for t in Ts[1:]:
                acc = f(acc, t)
            return acc
        except TypeError:
            pass
    return ctor(*Ts)


_hid = itertools.count()


def _stages(opts):
    ndl, ncast = bool(opts.get("no_data_loss")), bool(opts.get("no_explicit_cast"))
    st = []
    if not (ndl and ncast):
        st.append(dict(opts, no_data_loss=True, no_explicit_cast=True))
    if not ndl and not ncast:
        st.append(dict(opts, no_data_loss=True))
    st.append(dict(opts))
    return st


def _widens(spec, T=None, d=0):
    """does the type contain a negation or an exclusive-or?"""
    from utype.parser.rule import LogicalType
    if T is not None and isinstance(T, LogicalType) and d < 8:
        if T.combinator in ("~", "^"):
            return True
        if T.combinator:
            return any(_widens(None, a, d + 1) for a in T.args)
        o = getattr(T, "__origin__", None)
        return o is not T and _widens(None, o, d + 1)
    return False


def _plain_exact(x, Ts):
    return any(isinstance(T, type) and type(x) == T for T in Ts)


def run_case(case, ctx):
    if case.get("kind") == "late":
        return run_late(case, ctx)
    return _run_case(case, ctx)


def _run_case(case, ctx):
    if case["kind"] == "algebra":
        return run_algebra(case, ctx)
    from utype import Options, Rule, type_transform
    from utype.parser.rule import LogicalType

    op, specs, opts = case["op"], case["args"], case["opts"]
    b = TS.Builder(case["rng"])
    try:
        try:
            Ts = [Rule.parse_annotation(b.annotation(s)) for s in specs]
            T = _combine(op, Ts, case["route"])
            if not (isinstance(T, LogicalType) and T.combinator):
                ctx.count("combine_collapsed")
                return
            if list(T.args) != Ts:
                # duplicates absorbed / same-kind nesting flattened at construction: the node's own
                # argument list is what the semantics are relative to
                ctx.count("combine_deduplicated_or_flattened")
                Ts = list(T.args)
            perms = []
            if op == "xor" and len(Ts) <= 4:
                for p in itertools.permutations(range(len(Ts))):
                    if p != tuple(range(len(Ts))):
                        perms.append((p, LogicalType.one_of(*[Ts[j] for j in p])))
        except Exception as e:
            ctx.count("declaration_rejected:" + type(e).__name__)
            return
        shapes = tuple(TS.spec_shape(s) for s in specs)
        okey = tuple(sorted(opts.items()))
        comb = T.combinator
        # secondary entry point: the same combinator as the type of a data-class field that is ASSIGNED on an existing instance
        # (attribute / item assignment parse in a context of their own, unlike the constructor and type_transform)
        holders = []
        if case.get("assign", case["rng"].random() < 0.35):
            try:
                import utype
                from utype import Field
                for basecls in (utype.Schema, utype.DataClass):
                    ns = {"__annotations__": {"f": T}, "f": Field(required=False), "__module__": "vmon_generated", "__qualname__": "H%d" % next(_hid),
                          "__options__": Options(**opts)}
                    H = type(basecls)(ns["__qualname__"], (basecls,), ns)
                    holders.append(H)
                    b.created.append(H)
            except Exception as e:
                ctx.count("holder_declaration_rejected:" + type(e).__name__)
                holders = []

        def call(Tx, x, od):
            return run(lambda: type_transform(x, Tx, options=Options(**od)))

        for mk in case["inputs"]:
            try:
                x = mk()
                consumable = V.is_consumable(x)
            except Exception:
                ctx.count("input_factory_failed")
                continue
            if consumable:
                ctx.skip("one-shot input (consumed by the first attempt)")
                continue
            fresh = lambda: x
            xr = short(x, 100)
            xc = TS.value_class(x)
            out = call(T, fresh(), opts)
            ctx.count("calls")
            wit = {"op": comb, "args": [TS.describe(s)[:120] for s in specs], "type": short(T, 200), "options": opts, "input": xr,
                   "outcome": repr(out)}
            if out.kind == "escape" and comb == "~":
                # a negation must ACCEPT what its argument rejects, whatever the argument raised: when the argument alone
                # fails on this input (with any exception) and the negation lets an exception out, the verdict is wrong
                o = call(Ts[0], fresh(), opts)
                if not o.ok:
                    ctx.violation("C09/not/verdict", f"{short(T, 120)}({xr}): {out!r} while the argument alone gives {o!r} (rejected: the negation must accept)",
                                  wit, sig=(comb, shapes, okey, xc, out.kind))
                continue
            if out.kind not in ("ok", "parse"):
                if out.kind == "escape":
                    ctx.count("combinator_escape_left_to_C04")
                continue
            sig = (comb, shapes, okey, xc, out.kind)
            if comb == "|":
                if _plain_exact(x, Ts) and not consumable:
                    if out.ok and out.value is x:
                        ctx.held(sig + ("exact",))
                    else:
                        ctx.violation("C09/or/exact-type-value-not-returned-unchanged",
                                      f"{short(T, 120)}({xr}): input type is exactly an argument type but result is {out!r}", wit, sig=sig)
                    continue
                acc = []
                stages = _stages(opts)
                for st in stages:
                    for j, Tj in enumerate(Ts):
                        if st is not stages[-1] and _widens(specs[j] if j < len(specs) else None, Tj):
                            # a negation / exclusive-or accepts MORE under stricter options: it "accepts" only under the
                            # options as given (the preliminary stages do not ask it)
                            continue
                        o = call(Tj, fresh(), st)
                        if o.ok:
                            acc.append((j, o.value))
                wit["accepting_arguments"] = sorted({j for j, _ in acc})
                nontriv = 0 < len({j for j, _ in acc}) < len(Ts)
                if out.ok != bool(acc):
                    ctx.violation("C09/or/verdict/" + ("accepts-though-no-argument-accepts" if out.ok else "rejects-though-an-argument-accepts"),
                                  f"{short(T, 120)}({xr}) opts={opts}: {out!r} but accepting arguments = {wit['accepting_arguments']}", wit, sig=sig)
                elif out.ok and not consumable and not any(V.same_value(out.value, v) for _, v in acc):
                    ctx.violation("C09/or/result-is-no-accepting-arguments-output",
                                  f"{short(T, 120)}({xr}) opts={opts}: result {short(out.value, 60)} is not the output of any accepting argument", wit, sig=sig)
                elif nontriv:
                    ctx.held(sig)
                else:
                    ctx.trivial("arguments agree")
            elif comb == "^":
                outs = [call(Tj, fresh(), opts) for Tj in Ts]
                acc = [j for j, o in enumerate(outs) if o.ok]
                wit["accepting_arguments"] = acc
                exact = _plain_exact(x, Ts) and not consumable
                exp_ok = len(acc) == 1
                if exact and len(acc) > 1 and out.ok and out.value is x:
                    ctx.violation("C09/xor/exact-type-shortcut-skips-exclusivity",
                                  f"{short(T, 120)}({xr}): {len(acc)} arguments accept the input but it is returned because its type is exactly one argument", wit, sig=sig)
                elif out.ok != exp_ok:
                    ctx.violation("C09/xor/verdict/" + ("accepts-with-%s-accepting" % ("no" if not acc else "several") if out.ok else "rejects-single-acceptor"),
                                  f"{short(T, 120)}({xr}) opts={opts}: {out!r} but accepting arguments = {acc}", wit, sig=sig)
                elif out.ok and not consumable and not V.same_value(out.value, outs[acc[0]].value):
                    ctx.violation("C09/xor/result-differs-from-the-single-acceptors-output",
                                  f"{short(T, 120)}({xr}): {short(out.value, 60)} != {short(outs[acc[0]].value, 60)}", wit, sig=sig)
                elif 0 < len(acc) < len(Ts) or len(acc) > 1:
                    ctx.held(sig)
                else:
                    ctx.trivial("arguments agree")
                for p, Tp in perms:
                    op_ = call(Tp, fresh(), opts)
                    ctx.count("xor_permutations_run")
                    if op_.kind not in ("ok", "parse"):
                        continue
                    if op_.ok != out.ok or (out.ok and not consumable and not V.same_value(op_.value, out.value)):
                        if exact and len(acc) > 1:
                            continue  # same known mechanism as above
                        ctx.violation("C09/xor/order-dependent",
                                      f"{short(T, 120)}({xr}) -> {out!r} but argument order {p} -> {op_!r}", dict(wit, permutation=list(p), permuted=repr(op_)), sig=sig)
                        break
            elif comb == "~":
                o = call(Ts[0], fresh(), opts)
                if out.ok == o.ok:
                    ctx.violation("C09/not/verdict", f"{short(T, 120)}({xr}): {out!r} while the argument alone gives {o!r}", wit, sig=sig)
                elif out.ok and not consumable and out.value is not x:
                    ctx.violation("C09/not/input-not-returned-unchanged", f"{short(T, 120)}({xr}) returned {short(out.value, 60)} (not the input object)", wit, sig=sig)
                else:
                    ctx.held(sig)
            elif comb == "&":
                if consumable:
                    ctx.skip("consumable input under &")
                    continue
                val, failed = x, None
                for j, Tj in enumerate(Ts):
                    o = call(Tj, val, opts)
                    if not o.ok:
                        failed = j
                        break
                    val = o.value
                wit["fold"] = "fails at argument %s" % failed if failed is not None else short(val, 80)
                if out.ok != (failed is None):
                    ctx.violation("C09/and/verdict/" + ("accepts-though-a-stage-rejects" if out.ok else "rejects-though-every-stage-accepts"),
                                  f"{short(T, 120)}({xr}) opts={opts}: {out!r} but the left fold {wit['fold']}", wit, sig=sig)
                elif out.ok and not V.same_value(out.value, val):
                    ctx.violation("C09/and/result-differs-from-left-fold", f"{short(T, 120)}({xr}): {short(out.value, 60)} != fold {short(val, 60)}", wit, sig=sig)
                elif failed is not None and failed > 0 or (failed is None and not V.same_value(val, x)):
                    ctx.held(sig)
                else:
                    ctx.trivial("fold trivial")
            if holders and x is not None and not consumable:
                for H in holders:
                    for how in ("attribute", "item") if isinstance(H, type) and issubclass(H, dict) else ("attribute",):
                        def assign(H=H, how=how):
                            inst = H()
                            if how == "attribute":
                                inst.f = fresh()
                            else:
                                inst["f"] = fresh()
                            return inst.f
                        a = run(assign)
                        ctx.count("assignments")
                        if a.kind not in ("ok", "parse"):
                            continue
                        if a.ok != out.ok or (a.ok and not V.same_value(a.value, out.value)):
                            ctx.violation(f"C09/assignment-differs-from-direct-parse/{comb}",
                                          f"{short(T, 120)} as the type of field f of a {H.__mro__[1].__name__}: {how} assignment of {xr} -> {a!r}, "
                                          f"type_transform -> {out!r}", dict(wit, holder=H.__mro__[1].__name__, how=how, assignment=repr(a)), sig=sig + ("assign",))
                            break
            if ctx.want_sample() and len(specs) > 1:
                ctx.sample(wit)
    finally:
        b.cleanup()


def _flat(T, comb):
    from utype.parser.rule import LogicalType

    if isinstance(T, LogicalType) and T.combinator == comb:
        return list(T.args)
    return [T]


def _dedupe(xs):
    out = []
    for x in xs:
        if x not in out:
            out.append(x)
    return out


def run_algebra(case, ctx):
    import operator as O
    from utype import Rule
    from utype.parser.rule import LogicalType

    b = TS.Builder(case["rng"])
    rng = case["rng"]
    try:
        try:
            Ts = _dedupe([Rule.parse_annotation(b.annotation(s)) for s in case["args"]])
        except Exception as e:
            ctx.count("declaration_rejected:" + type(e).__name__)
            return
        if len(Ts) < 2:
            ctx.trivial("algebra: <2 distinct args")
            return
        shapes = tuple(TS.spec_shape(s) for s in case["args"])
        A, B = Ts[0], Ts[1]
        C = Ts[2] if len(Ts) > 2 else None

        def chk(name, cond, text):
            sig = ("algebra", name, shapes)
            if cond:
                ctx.held(sig)
            else:
                ctx.violation("C09/algebra/" + name, text, {"args": [TS.describe(s)[:100] for s in case["args"]], "built": [short(t, 80) for t in Ts]}, sig=sig)

        for nm, ctor, comb in (("or", LogicalType.any_of, "|"), ("xor", LogicalType.one_of, "^"), ("and", LogicalType.all_of, "&")):
            AB = ctor(A, B)
            chk(f"duplicates-absorbed/{nm}", _flat(ctor(A, B, A), comb) == _flat(AB, comb) and ctor(A, A) is A,
                f"{nm}(A,B,A) args {_flat(ctor(A, B, A), comb)} != {nm}(A,B) args {_flat(AB, comb)} or {nm}(A,A) is not A")
            if C is not None:
                left = ctor(ctor(A, B), C)
                right = ctor(A, ctor(B, C))
                # the operator form is the one documented to flatten
                f = {"|": O.or_, "^": O.xor, "&": O.and_}[comb]
                La, Lb = _to_logical(A), _to_logical(B)
                try:
                    l2 = f(f(La, B), C)
                    r2 = f(La, f(Lb, C))
                except TypeError:
                    l2 = r2 = None
                exp = _dedupe(_flat(La, comb) + _flat(B, comb) + _flat(C, comb))
                exp_r = _dedupe(_flat(La, comb) + _flat(Lb, comb) + _flat(C, comb))
                if l2 is not None:
                    chk(f"same-kind-nesting-flattens/{nm}", _flat(l2, comb) == exp and _flat(r2, comb) == exp_r,
                        f"(A{comb}B){comb}C args {[short(t, 30) for t in _flat(l2, comb)]}, A{comb}(B{comb}C) args {[short(t, 30) for t in _flat(r2, comb)]}, "
                        f"expected {[short(t, 30) for t in exp]}")
        La = _to_logical(A)
        if isinstance(La, LogicalType) or hasattr(type(La), "__logical_type__"):
            try:
                nn = ~(~La)
                same_not = isinstance(nn, LogicalType) and isinstance(La, LogicalType) and nn.combinator == "~" == La.combinator \
                    and list(nn.args) == list(La.args)
                chk("double-negation-cancels", nn is La or same_not, f"~~A is {short(nn, 60)}, not A {short(La, 60)}")
            except TypeError:
                pass
        chk("any-absorbed/or", LogicalType.any_of(A, typing.Any) is Rule and LogicalType.one_of(typing.Any, A) is Rule,
            f"A|Any is {short(LogicalType.any_of(A, typing.Any), 60)} (expected the accept-everything Rule)")
        chk("any-absorbed/and", LogicalType.all_of(A, typing.Any) is A and LogicalType.all_of(typing.Any, A, typing.Any) is A,
            f"A&Any is {short(LogicalType.all_of(A, typing.Any), 60)} (expected A)")
        # operators with data classes / logical types on either side keep the written order
        for comb, f in (("|", O.or_), ("^", O.xor), ("&", O.and_)):
            for X, Y in ((A, B), (B, A)):
                try:
                    Z = f(X, Y)
                except TypeError:
                    ctx.count("operator_unsupported_for_plain_pair")
                    continue
                if not isinstance(Z, LogicalType):
                    ctx.count("operator_gave_typing_union")
                    continue
                exp = _dedupe(_flat(X, comb) + _flat(Y, comb))
                chk(f"operator-keeps-written-order/{comb}", _flat(Z, comb) == exp,
                    f"X{comb}Y with X={short(X, 40)}, Y={short(Y, 40)} has args {[short(t, 30) for t in _flat(Z, comb)]}, expected {[short(t, 30) for t in exp]}")
        if ctx.want_sample():
            ctx.sample({"algebra_args": [short(t, 80) for t in Ts]})
    finally:
        b.cleanup()


def _to_logical(T):
    """a LogicalType-or-dataclass operand so that Python dispatches the operator to the library"""
    from utype import Rule
    from utype.parser.rule import LogicalType

    if isinstance(T, LogicalType) or hasattr(type(T), "__logical_type__"):
        return T
    return Rule.annotate(T)


def conclusive(m, tier):
    c = m["counters"]
    if c.get("calls", 0) == 0:
        return "no combinator call executed"
    if not any(k.startswith("online:logical_parse") for k in c):
        return "LogicalType.logical_parse was never observed (hook missing)"
    return None
