"""C13 — the generated JSON Schema is valid and describes what the parser does.

(1) every generated document is JSON and passes Draft202012Validator.check_schema;
(2) every value the parser produces, JSON-encoded with the library encoder, validates against the
    OUTPUT document (independent validator: the jsonschema package);
(3) for data classes the INPUT document's properties / required / additionalProperties are compared
    with probes of the real parser in that mode (mode given by class Options and by the generator's
    own mode= argument)."""
import json

from .. import declspec as D
from .. import typespec as TS
from .. import values as V
from ..execu import run
from ..runner import short

ID = "C13"
N = {"quick": 20000, "thorough": 160000}
TIME_BUDGET = {"quick": 50, "thorough": 540}
MIN_NONTRIVIAL = {"quick": 300, "thorough": 3000}
RULE = ("family T (55%): random TypeSpec in the JSON-expressible negation-free fragment (origins int/float/str/bool/None/Decimal/"
        "date/datetime/time/timedelta/UUID/bytes/enums; constraint sets; List/Set/FrozenSet/Deque/Tuple[T,...]/Tuple[T1,T2]/"
        "Dict[K,V]; | and ^ unions, Optional, Literal; nested data classes) x input and output view, with and without $defs x 8 "
        "inputs; family D (45%): generated data class (declspec: aliases, alias_from, case_insensitive, no_input / no_output as "
        "bool / mode string / callable, mode / readonly / writeonly, required mode strings, defaults, dependencies, addition "
        "None/True/False/int) x mode in {None,r,w,a} given through class Options AND through the generator's mode argument x "
        "{input, output} view x 5 inputs + structural probes (feed each property name, omit each field, add an unknown key). "
        "Non-trivial = a document was generated and at least one accepted output was validated or one structural probe compared; "
        "distinct = (family, declaration shape, mode, view).")
ASSUMPTIONS = [
    "the jsonschema package (Draft 2020-12, no format assertion) is the trusted validator; custom keywords (decimalPlaces, maxDigits, x-*, aliases) are ignored by it",
    "multiple_of is generated with integer bounds only (float remainders make the validator and the parser disagree for reasons outside the property)",
    "outputs are JSON-encoded with the library's JSONEncoder and re-read with json.loads before validation",
    "negation (~) and '&' are outside the stated fragment",
]
MODES = [None, "r", "w", "a"]
_S = {}


def setup(ctx):
    import jsonschema  # noqa: F401  (installed by setup.sh into /verif/.deps)
    from jsonschema import Draft202012Validator

    _S["V"] = Draft202012Validator


def n_cases(tier):
    return N[tier]


def _json_ok_spec(spec):
    """restrict a TypeSpec to the fragment of the statement"""
    k = spec[0]
    if k in ("not", "and"):
        return False
    if k == "leaf":
        return spec[1] not in ("Mixed",)
    if k == "con":
        if spec[3]:
            return False
        for c, b in spec[2]:
            if c == "multiple_of" and not isinstance(b, int):
                return False
        return all(_json_ok_spec(a) for a in spec[4])
    if k == "gen":
        if spec[1] in ("Sequence", "Iterable", "Iterator", "Mapping"):
            return False
        return all(_json_ok_spec(a) for a in spec[2])
    if k == "opt":
        return _json_ok_spec(spec[1])
    if k in ("or", "xor"):
        return all(_json_ok_spec(a) for a in spec[1])
    if k == "dc":
        return all(_json_ok_spec(f[1]) for f in spec[2])
    return True


def make_case(i, rng, tier):
    if rng.random() < 0.01:
        return {"fam": "bytesfmt", "origin": rng.choice([bytes, bytes, bytearray]), "format": rng.choice(["byte", "binary", "base64", "hex"]),
                "min": rng.choice([None, 3, 4, 5]), "max": rng.choice([None, 6, 8]), "as": rng.choice(["type", "field"]),
                "inputs": ["éé", "ééé", "日本", "abcd", b"abcde", "a\u00e9b\u00e9", "xyz\U0001F600", bytearray(b"abcd")]}
    if rng.random() < 0.55:
        for _ in range(20):
            TS.ENABLE_BARE_CONTAINERS = False  # elements of an untyped container are arbitrary Python objects, not JSON instances
            spec = TS.gen_spec(rng, rng.choice([1, 2, 2, 3]), allow_lax=False, logic=True, dc=lambda r, d: TS.gen_dc(r, max(0, min(d, 1))))
            if rng.random() < 0.2:
                spec = TS.gen_dc(rng, 1, base="Schema")
            if _json_ok_spec(spec):
                break
        else:
            spec = ("leaf", "int")
        # a top-level data class may carry Options(addition=True): unknown keys - and, through the options the fields inherit,
        # surplus items of fixed-size tuples - are kept in what the parser produces
        dc_opts = {"addition": True} if (spec[0] == "dc" and rng.random() < 0.4) else None
        return {"fam": "T", "spec": spec, "defs": rng.random() < 0.4, "inputs": [TS.gen_input(rng, spec) for _ in range(8)], "rng": rng, "dc_opts": dc_opts}
    decl = D.gen_decl(rng, base="Schema")
    decl["options"].pop("mode", None)
    decl["options"].pop("force_default", None)   # a forced default need not conform to the field type (trusted by the library)
    if decl["options"].get("invalid_values") == "preserve":   # 'preserve' is the documented unsafe option: outputs may hold raw data
        decl["options"].pop("invalid_values")
    for f in decl["fields"]:
        if f["on_error"] == "preserve":
            f["on_error"] = None
    return {"fam": "D", "decl": decl, "mode": rng.choice(MODES), "mode_via": rng.choice(["class", "generator"]),
            "inputs": [D.gen_input(rng, decl, p_absent=0.15, p_extra=0.3, value_mix=(0.7, 0.25, 0.05)) for _ in range(5)]}


def gen_doc(T, mode=None, output=False, defs=False):
    from utype.specs.json_schema import JsonSchemaGenerator
    from utype.utils.encode import JSONEncoder

    if defs:
        d = {}
        g = JsonSchemaGenerator(T, defs=d, mode=mode, output=output)
        doc = g()
        doc = dict(doc)
        doc["$defs"] = g.get_defs()
    else:
        doc = JsonSchemaGenerator(T, mode=mode, output=output)()
    text = json.dumps(doc, cls=JSONEncoder)
    return json.loads(text)


def check_doc(ctx, doc, what, wit, sig):
    try:
        _S["V"].check_schema(doc)
        return True
    except Exception as e:
        path = "/".join(str(p) for p in getattr(e, "absolute_path", []) or [])
        kw = str(getattr(e, "validator", "?"))
        where = [p for p in (getattr(e, "absolute_path", []) or []) if isinstance(p, str)]
        ctx.violation(f"C13/invalid-schema/{what}/{where[-1] if where else kw}",
                      f"generated {what} document is not a valid draft 2020-12 schema at /{path}: {str(getattr(e, 'message', e))[:160]}",
                      dict(wit, document=short(doc, 400)), sig=sig)
        return False


def encoded(value):
    from utype.utils.encode import JSONEncoder

    return json.loads(json.dumps(value, cls=JSONEncoder))


def first_error(doc, inst):
    v = _S["V"](doc)
    errs = sorted(v.iter_errors(inst), key=lambda e: len(list(e.absolute_path)))
    if not errs:
        return None
    e = errs[0]

    def brief(m):
        # the message starts with the instance (which may be hundreds of digits long): keep the diagnostic part
        m = str(m)
        if len(m) <= 160:
            return m
        if "is valid under each of" in m:
            return m[:40] + " ... is valid under each of ... " + m[-70:]
        return m[:60] + " ... " + m[-95:]

    msg = brief(e.message)

    def walk(x, depth=0):
        # an inner oneOf that is satisfied by SEVERAL branches (reported through an enclosing anyOf/prefixItems/...)
        if x.validator == "oneOf" and "is valid under each of" in str(x.message):
            return x
        if depth < 6:
            for c in (x.context or []):
                r = walk(c, depth + 1)
                if r is not None:
                    return r
        return None

    inner = walk(e)
    if inner is not None and inner is not e:
        return "oneOf", "/".join(str(p) for p in inner.absolute_path), brief(inner.message)
    return str(e.validator), "/".join(str(p) for p in e.absolute_path), msg


def run_bytesfmt(case, ctx):
    """a constrained bytes type that declares a `format` of its own: lengths are counted in bytes by the parser and in characters
    by a JSON Schema validator, so they must not be published for text that may hold multi-byte characters"""
    from utype import Rule, Schema, Field, type_transform
    from utype.parser.rule import LogicalType
    cd = {"format": case["format"]}
    if case["min"] is not None:
        cd["min_length"] = case["min"]
    if case["max"] is not None:
        cd["max_length"] = case["max"]
    try:
        B = LogicalType("B13", (case["origin"], Rule), dict(cd))
        T = B if case["as"] == "type" else type(Schema)("S13b", (Schema,), {"__annotations__": {"f": B}, "__module__": "vmon_generated", "__qualname__": "S13b"})
    except Exception as e:
        ctx.count("declaration_rejected:" + type(e).__name__)
        return
    ctx.count("bytes_rules_with_own_format")
    wit = {"family": "bytes-rule-with-own-format", "constraints": cd, "origin": case["origin"].__name__, "as": case["as"]}
    for view in ("input", "output"):
        o = run(lambda: gen_doc(T, output=(view == "output")))
        ctx.count("documents")
        if not o.ok:
            ctx.violation("C13/generation-failed/bytes-rule", f"JsonSchemaGenerator(bytes rule {cd}) raised {o!r}", wit, sig=("bytesfmt", "gen"))
            return
        doc = o.value
        for x in case["inputs"]:
            out = run(lambda: type_transform(x, T) if case["as"] == "type" else T(f=x))
            if not out.ok:
                continue
            try:
                inst = encoded(out.value)
            except Exception:
                continue
            ctx.count("outputs_validated")
            err = first_error(doc, inst)
            sig = ("bytesfmt", case["format"], case["min"], case["max"], case["as"], view)
            if err:
                ctx.violation(f"C13/output-violates-{view}-schema/{err[0]}/bytes-rule-with-own-format",
                              f"bytes rule {cd} ({case['as']}): accepted {x!r} is published as {short(inst, 60)} which fails the {view} schema: {err[2][:160]}",
                              dict(wit, input=repr(x), schema=short(doc, 300)), sig=sig)
                return
            ctx.held(sig)


def run_T(case, ctx):
    from utype import Rule, type_transform

    spec = case["spec"]
    b = TS.Builder(case["rng"])
    try:
        try:
            if case.get("dc_opts"):
                from utype import Options
                T = b.dataclass(spec, options=Options(**case["dc_opts"]))
                ctx.count("data_classes_with_addition_true")
            else:
                T = Rule.parse_annotation(b.annotation(spec))
        except Exception as e:
            ctx.count("declaration_rejected:" + type(e).__name__)
            return
        shape = TS.spec_shape(spec) if not case.get("dc_opts") else (TS.spec_shape(spec), "addition=True")
        wit = {"family": "T", "spec": TS.describe(spec)[:300], "with_defs": case["defs"]}
        docs = {}
        for view in ("input", "output"):
            sig = ("T", shape, view, case["defs"])
            o = run(lambda: gen_doc(T, output=(view == "output"), defs=case["defs"]))
            ctx.count("documents")
            if not o.ok:
                ctx.violation(f"C13/generation-failed/{TS.node_tag(spec)}", f"JsonSchemaGenerator({TS.describe(spec)[:160]}, output={view == 'output'}) raised {o!r}", wit, sig=sig)
                return
            docs[view] = o.value
            if not check_doc(ctx, o.value, view, wit, sig):
                return
        validated = 0
        for mk in case["inputs"]:
            try:
                x = mk()
            except Exception:
                continue
            out = run(lambda: type_transform(x, T))
            if not out.ok:
                continue
            try:
                inst = encoded(out.value)
            except Exception:
                ctx.skip("output not JSON-encodable (C14)")
                continue
            if _has_nan(out.value):
                ctx.skip("output holds NaN, which is not a JSON value")
                continue
            ctx.count("outputs_validated")
            validated += 1
            err = first_error(docs["output"], inst)
            sig = ("T", shape, "output", TS.value_class(x))
            if err and err[0] in ("type", "anyOf", "oneOf") and _has_unsafe_decimal(out.value):
                ctx.violation("C13/output-violates-output-schema/type/Decimal-outside-the-JSON-number-range-is-encoded-as-a-string",
                              f"{TS.describe(spec)[:120]}: output {short(out.value, 60)} encodes to {short(inst, 60)}: {err[2]}", dict(wit, input=short(x, 120)), sig=sig)
                return
            if err and err[0] == "oneOf" and "is valid under each of" in err[2]:
                ctx.violation("C13/output-violates-output-schema/oneOf/arguments-are-indistinguishable-after-JSON-encoding",
                              f"{TS.describe(spec)[:120]}: output {short(out.value, 60)} encodes to {short(inst, 60)}: {err[2]}", dict(wit, input=short(x, 120)), sig=sig)
                return
            if err and err[0] in ("minLength", "maxLength", "anyOf", "oneOf") and _multibyte_bytes(out.value):
                ctx.violation("C13/output-violates-output-schema/length/bytes-length-is-counted-in-bytes-but-published-as-string-length",
                              f"{TS.describe(spec)[:120]}: output {short(out.value, 60)} encodes to {short(inst, 60)}: {err[2]}", dict(wit, input=short(x, 120)), sig=sig)
                return
            if err and err[0] in ("enum", "const", "anyOf", "oneOf") and _bool_number_literal(spec, out.value):
                ctx.violation("C13/output-violates-output-schema/enum/literal-mixes-bool-and-number",
                              f"{TS.describe(spec)[:120]}: output {short(out.value, 60)} encodes to {short(inst, 60)}: {err[2]}", dict(wit, input=short(x, 120)), sig=sig)
                return
            if err:
                ctx.violation(f"C13/output-violates-output-schema/{err[0]}/{_node_at(spec, err[1])}",
                              f"{TS.describe(spec)[:160]}: parser output {short(out.value, 80)} encodes to {short(inst, 80)} which fails '{err[0]}' at /{err[1]}: {err[2]}",
                              dict(wit, input=short(x, 120), output=short(out.value, 200), encoded=short(inst, 200), document=short(docs["output"], 400)), sig=sig)
                return
        if validated:
            ctx.held(("T", shape, case["defs"]))
            if ctx.want_sample() and spec[0] != "leaf":
                ctx.sample(dict(wit, output_document=short(docs["output"], 300), outputs_validated=validated))
        else:
            ctx.trivial("documents valid, no accepted input")
    finally:
        b.cleanup()


def _has_nan(v, d=0):
    from decimal import Decimal

    if isinstance(v, float):
        return v != v
    if isinstance(v, Decimal):
        return v.is_nan()
    if d > 6:
        return False
    if isinstance(v, dict):
        return any(_has_nan(x, d + 1) for x in v.values()) or any(_has_nan(x, d + 1) for x in v)
    if isinstance(v, (list, tuple, set, frozenset)) or type(v).__name__ == "deque":
        return any(_has_nan(x, d + 1) for x in v)
    return False


def _has_unsafe_decimal(v, d=0):
    from decimal import Decimal

    if isinstance(v, Decimal):
        return (not v.is_finite()) or abs(v) > 9007199254740991
    if d > 6:
        return False
    if isinstance(v, dict):
        return any(_has_unsafe_decimal(x, d + 1) for x in v.values()) or any(_has_unsafe_decimal(x, d + 1) for x in v)
    if isinstance(v, (list, tuple, set, frozenset)) or type(v).__name__ == "deque":
        return any(_has_unsafe_decimal(x, d + 1) for x in v)
    return False


def _multibyte_bytes(value):
    for v in _scalars(value, []):
        if isinstance(v, (bytes, bytearray)):
            try:
                if len(bytes(v).decode("utf-8", errors="replace")) != len(v):
                    return True
            except Exception:
                return True
    return False


def _lits(spec, acc):
    k = spec[0]
    if k == "lit":
        acc.append(spec[1])
    elif k == "con":
        for c, b in spec[2]:
            if c == "enum":
                acc.append(tuple(b))
            if c == "const":
                acc.append((b,))
        for a in spec[4]:
            _lits(a, acc)
    elif k == "gen":
        for a in spec[2]:
            _lits(a, acc)
    elif k in ("opt",):
        _lits(spec[1], acc)
    elif k in ("or", "xor"):
        for a in spec[1]:
            _lits(a, acc)
    elif k == "dc":
        for f in spec[2]:
            _lits(f[1], acc)
    return acc


def _scalars(v, acc, d=0):
    if isinstance(v, dict):
        for x in v.values():
            _scalars(x, acc, d + 1)
    elif isinstance(v, (list, tuple, set, frozenset)) or type(v).__name__ == "deque":
        for x in v:
            _scalars(x, acc, d + 1)
    else:
        acc.append(v)
    return acc


def _bool_number_literal(spec, value):
    """a literal set holds a bool and the output holds a number equal to it (or the other way round):
    Python equality (True == 1 == 1.0) admits it, JSON Schema enum/const does not"""
    for lits in _lits(spec, []):
        for v in _scalars(value, []):
            for l in lits:
                try:
                    if isinstance(l, bool) != isinstance(v, bool) and isinstance(l, (bool, int, float)) and isinstance(v, (bool, int, float)) and l == v:
                        return True
                except Exception:
                    pass
    return False


def _node_at(spec, path):
    """constraint-bearing node kind for the key (structural)"""
    return TS.node_tag(spec)


def run_D(case, ctx):
    from utype import Options

    decl, mode = case["decl"], case["mode"]
    built = []
    try:
        try:
            base_cls = D.build(decl)
            built.append(base_cls)
            if mode and case["mode_via"] == "class":
                cls = Options(mode=mode)(base_cls) if False else D.build(dict(decl, options=dict(decl["options"], mode=mode)))
                built.append(cls)
                gen_mode = None
            else:
                cls = base_cls
                gen_mode = mode
        except Exception as e:
            ctx.count("declaration_rejected:" + type(e).__name__)
            return
        shp = D.shape(decl)
        wit = {"family": "D", "declaration": D.describe(decl), "mode": mode, "mode_given_through": case["mode_via"] if mode else None}
        docs = {}
        for view in ("input", "output"):
            sig = ("D", shp, mode, case["mode_via"], view)
            o = run(lambda: gen_doc(cls, mode=gen_mode, output=(view == "output")))
            ctx.count("documents")
            if not o.ok:
                ctx.violation("C13/generation-failed/dataclass", f"JsonSchemaGenerator({D.describe(decl)}, mode={gen_mode}, output={view == 'output'}) raised {o!r}", wit, sig=sig)
                return
            docs[view] = o.value
            if not check_doc(ctx, o.value, view, wit, sig):
                return
        run_opts = dict(decl["options"])
        if mode:
            run_opts["mode"] = mode

        def parse(data):
            return run(lambda: cls.__from__(dict(data), options=D.make_options(run_opts)))

        # (2) outputs validate against the output document
        for pairs, plan in case["inputs"]:
            data = D.to_mapping(pairs)
            out = parse(data)
            if not out.ok:
                continue
            try:
                inst = encoded(out.value)
            except Exception:
                ctx.skip("output not JSON-encodable (C14)")
                continue
            ctx.count("outputs_validated")
            err = first_error(docs["output"], inst)
            if err:
                prop = err[1].split("/")[0] if err[1] else (err[2].split("'")[1] if "'" in err[2] else "?")
                feat = _field_features(decl, prop)
                fobj = next((x for x in decl["fields"] if prop in (x["name"], x["alias"])), None)
                if err[0] == "required" and fobj is not None and isinstance(fobj["no_input"], str) and fobj["no_input"] in D.CALLABLES:
                    ctx.violation("C13/output-violates-output-schema/required/required-field-whose-given-value-is-not-taken-as-input",
                                  f"{D.describe(decl)} mode={mode}: output {short(inst, 120)} lacks required '{prop}' (its value was ignored by a callable no_input)",
                                  dict(wit, input=short(data, 200)), sig=("D", shp, mode, "output"))
                    return
                ctx.violation(f"C13/output-violates-output-schema/{err[0]}/{feat}",
                              f"{D.describe(decl)} mode={mode}: output {short(inst, 120)} fails '{err[0]}' at /{err[1]}: {err[2]}",
                              dict(wit, input=short(data, 200), encoded_output=short(inst, 300), output_document=short(docs["output"], 500)), sig=("D", shp, mode, "output"))
                return
        # (3) structure of the input document vs probes
        doc = docs["input"]
        props = doc.get("properties", {})
        req = set(doc.get("required", []))
        valid = {f["name"]: D.type_info(f["type"])[1][0] for f in decl["fields"]}
        canon = {}      # document property name -> field
        for f in decl["fields"]:
            canon[f["alias"] or f["name"]] = f
        if set(props) - set(canon) - {k.lower() for k in canon}:
            ctx.skip("property names the harness cannot map to a field")
            return
        ctx.count("structure_probes")
        for pname, f in canon.items():
            listed = pname in props or pname.lower() in props
            # does a value given under the property name feed the field in this mode?
            probe = {(x["alias"] or x["name"]): valid[x["name"]] for x in decl["fields"]}
            marker = {"int": 41, "str": "mk", "listint": [4, 1], "optint": 41}[f["type"]]
            probe[pname] = marker
            o = parse(probe)
            if not o.ok:
                continue  # other rules (dependencies, params) reject the probe: undecided
            got = _attr(o.value, f["name"])
            fed = V.approx_eq(got, marker)
            feat = _field_features(decl, pname)
            sig = ("D", shp, mode, case["mode_via"], "properties")
            if fed != listed:
                ctx.violation(f"C13/properties/" + ("accepted-input-not-listed" if fed else "listed-but-not-taken-as-input") + f"/{feat}",
                              f"{D.describe(decl)} mode={mode} (via {case['mode_via']}): property '{pname}' listed={listed} but a value given under it "
                              f"{'feeds' if fed else 'does not feed'} field {f['name']} (got {got!r})", dict(wit, input_document=short(doc, 500), probe=short(probe, 200)), sig=sig)
                return
            # omission
            probe2 = {(x["alias"] or x["name"]): valid[x["name"]] for x in decl["fields"] if x is not f and not (f["name"] in x["dependencies"])}
            o2 = parse(probe2)
            absent_err = (not o2.ok) and type(o2.exc).__name__ == "AbsenceError" and str(getattr(o2.exc, "item", "")) in (f["name"], f["alias"] or f["name"], pname.lower())
            if not o2.ok and not absent_err:
                continue  # something else is missing / rejected in this probe: undecided for this field
            in_req = pname in req or pname.lower() in req
            if absent_err != in_req:
                ctx.violation(f"C13/required/" + ("omission-is-an-error-but-not-required" if absent_err else "required-but-omission-is-accepted") + f"/{feat}",
                              f"{D.describe(decl)} mode={mode} (via {case['mode_via']}): omitting '{pname}' -> {o2!r}; required={sorted(req)}",
                              dict(wit, input_document=short(doc, 500), probe=short(probe2, 200)), sig=("D", shp, mode, case["mode_via"], "required"))
                return
        # additionalProperties
        probe = {(x["alias"] or x["name"]): valid[x["name"]] for x in decl["fields"]}
        probe["zzUnknownKey"] = "5"
        o = parse(probe)
        ap = doc.get("additionalProperties", "<absent>")
        if o.ok or type(o.exc).__name__ == "ExceedError":
            if not o.ok:
                behaviour = "rejected"
            else:
                kv = dict(o.value)
                behaviour = "dropped" if "zzUnknownKey" not in kv else ("kept" if kv["zzUnknownKey"] == "5" else "converted")
            expect = {"rejected": ap is False, "kept": ap is True, "converted": isinstance(ap, dict), "dropped": ap == "<absent>"}[behaviour]
            if not expect:
                ctx.violation(f"C13/additionalProperties/{behaviour}-but-document-says-{'schema' if isinstance(ap, dict) else ap}",
                              f"{D.describe(decl)} mode={mode}: unknown key is {behaviour} but additionalProperties={ap!r}",
                              dict(wit, input_document=short(doc, 500)), sig=("D", shp, mode, "additionalProperties"))
                return
        ctx.held(("D", shp, mode, case["mode_via"]))
        if ctx.want_sample() and len(decl["fields"]) > 1:
            ctx.sample(dict(wit, input_document=short(doc, 400)))
    finally:
        for t in built:
            D.drop(t)


def _attr(inst, name):
    try:
        return getattr(inst, name)
    except Exception:
        return "<absent>"


def _field_features(decl, pname):
    f = next((x for x in decl["fields"] if pname in (x["name"], x["alias"]) or pname.lower() in (x["name"].lower(), (x["alias"] or "").lower())), None)
    if f is None:
        return "unknown-property"
    feats = [n for n in ("no_input", "no_output", "mode", "readonly", "writeonly", "defer_default", "case_insensitive") if f[n] not in (None, False)]
    if isinstance(f["required"], str):
        feats.append("required-mode-string")
    return "+".join(feats[:2]) or ("defaulted-field" if (f["default"] is not D.NODEF or f["factory"]) else "plain-field")


def run_case(case, ctx):
    if case["fam"] == "bytesfmt":
        return run_bytesfmt(case, ctx)
    return run_T(case, ctx) if case["fam"] == "T" else run_D(case, ctx)


def conclusive(m, tier):
    c = m["counters"]
    if c.get("documents", 0) == 0:
        return "no document generated"
    if c.get("outputs_validated", 0) == 0 or c.get("structure_probes", 0) == 0:
        return "no output validated or no structural probe compared"
    return None
