"""C01 — parsed results always conform to the declared type and constraints.

Deciding oracle: typespec.conforms on the value returned at the API boundary, for generated
declarations entered through every public route.  Auxiliary online monitor: icontract
postcondition on Rule.parse (records, never raises) — reach evidence + nested positions."""
import typing

from .. import typespec as TS
from .. import values as V
from ..execu import run
from ..routes import Absent, make_entry
from ..runner import short

ID = "C01"
N = {"quick": 48000, "thorough": 1600000}
TIME_BUDGET = {"quick": 40, "thorough": 600}
MIN_NONTRIVIAL = {"quick": 300, "thorough": 3000}
RULE = ("cases = random TypeSpec (origins x constraint sets x generics depth<=3 x | ^ & ~ Optional Literal x data classes) "
        "built through a random public declaration route, entered through a random route (type_transform / T(x) / "
        "Schema field / @parse param / return / *args / **kwargs) under a random non-waiving Options set, x 10 inputs "
        "aimed at the spec's converters (+12% arbitrary hostile pool values). Non-trivial = the library ACCEPTED the "
        "input and the independent conforms() predicate judged the returned value; distinct = distinct "
        "(spec shape, route, option set, input class).")
ASSUMPTIONS = [
    "conforms() (vmon/typespec.py) + constraints_ref.py are the trusted reference; written from the documentation",
    "declared defaults are trusted (property text); lax constraints are not judged here (C03)",
    "waiving options ('preserve', ignore_constraints, unresolved_types='ignore') are executed but never judged",
    "int/float and int/Decimal const tolerance is undocumented library behaviour: not judged (counted as skipped)",
]

NONWAIVING = [
    {}, {}, {}, {"no_explicit_cast": True}, {"no_data_loss": True}, {"no_explicit_cast": True, "no_data_loss": True},
    {"collect_errors": True}, {"invalid_items": "exclude"}, {"invalid_keys": "exclude", "invalid_values": "exclude"},
    {"invalid_items": "exclude", "invalid_keys": "exclude", "invalid_values": "exclude", "collect_errors": True},
    {"allow_subclasses": False}, {"collect_errors": True, "no_data_loss": True}, {"unresolved_types": "init"},
]
WAIVING = [{"invalid_items": "preserve"}, {"invalid_values": "preserve"}, {"invalid_keys": "preserve"},
           {"ignore_constraints": True}, {"unresolved_types": "ignore"}]
ROUTES = ["tt", "tt", "call", "field", "field", "param", "return", "args", "kwargs", "dcfield"]

_state = {}


def setup(ctx):
    from ..monitors import attach

    _state["mon"] = attach.attach_rule_parse_monitor()


def n_cases(tier):
    return N[tier]


def make_case(i, rng, tier):
    if rng.random() < 0.01:
        base = rng.choice(["Month", "Month", "Ratio", "Amount", "Num"])
        lo, hi = (1, 12) if base != "Num" else (1, 2)
        which = rng.choice(["both", "lo", "hi"])
        return {"fam": "numsub", "base": base, "lo": lo if which != "hi" else None, "hi": hi if which != "lo" else None, "lax": rng.random() < 0.6,
                "how": rng.choice(["class", "annotate", "field"]), "inputs": [rng.choice([0, 1, 5, 12, 13, 15, -3, "7", "15", 2, 3, 1.0, 40.0, "0"]) for _ in range(8)]}
    depth = rng.choice([1, 2, 2, 3]) if tier == "quick" else rng.choice([1, 2, 2, 3, 3, 4])
    TS.ENABLE_CONTAINS = True
    TS.ENABLE_REGEX_BEFORE_DECIMAL_PLACES = True
    spec = TS.gen_spec(rng, depth, allow_lax=rng.random() < 0.15, abstract=rng.random() < 0.2,
                       dc=lambda r, d: TS.gen_dc(r, max(0, min(d, 1))))
    waive = rng.random() < 0.06
    opts = dict(rng.choice(WAIVING if waive else NONWAIVING))
    route = rng.choice(ROUTES)
    n_in = 10
    inputs = [TS.gen_input(rng, spec) for _ in range(n_in)]
    return {"spec": spec, "opts": opts, "waive": waive, "route": route, "inputs": inputs, "rng": rng}


class _Month(int):
    def label(self):
        return "M%d" % self


class _Ratio(float):
    pass


class _Amount(__import__("decimal").Decimal):
    pass


def run_numsub(case, ctx):
    """rules whose origin is a USER SUBCLASS of a number type (or an IntEnum) with strict / lax bounds: a result conforms only
    if it is an instance of that subclass (its methods included) and inside the bounds"""
    import utype
    from utype import Rule, Lax, Schema, Field
    from utype.parser.rule import LogicalType
    base = {"Month": _Month, "Ratio": _Ratio, "Amount": _Amount, "Num": V.Num}[case["base"]]
    lo, hi = case["lo"], case["hi"]
    cd = {}
    if lo is not None:
        cd["ge"] = Lax(lo) if case["lax"] else lo
    if hi is not None:
        cd["le"] = Lax(hi) if case["lax"] else hi
    try:
        T = LogicalType("NS", (base, Rule), dict(cd)) if case["how"] == "class" else Rule.annotate(base, constraints=dict(cd))
        if case["how"] == "field":
            S = type(Schema)("NSS", (Schema,), {"__annotations__": {"f": T}, "__module__": "vmon_generated", "__qualname__": "NSS"})
    except Exception as e:
        ctx.count("declaration_rejected:" + type(e).__name__)
        return
    for x in case["inputs"]:
        out = run((lambda: S(f=x).f) if case["how"] == "field" else (lambda: T(x)))
        ctx.count("calls")
        ctx.count("number_subclass_origin_calls")
        sig = ("numsub", case["base"], case["how"], case["lax"], lo is not None, hi is not None, type(x).__name__, out.kind)
        if out.kind not in ("ok", "parse"):
            ctx.count("escape_left_to_C04")
            continue
        if not out.ok:
            ctx.trivial("rejected")
            continue
        v = out.value
        ok = isinstance(v, base) and (lo is None or v >= lo) and (hi is None or v <= hi)
        if not ok:
            ctx.violation("C01/not-instance:" + case["base"] + ("/lax-bound" if case["lax"] else ""),
                          f"rule over {base.__name__} (a subclass of {base.__mro__[1].__name__}) with {cd}: {x!r} -> {v!r} of type {type(v).__name__}",
                          {"origin": base.__name__, "constraints": repr(cd), "declared_as": case["how"], "input": repr(x), "output": repr(v), "output_type": type(v).__name__}, sig=sig)
            return
        ctx.held(sig)


def run_case(case, ctx):
    if case.get("fam") == "numsub":
        return run_numsub(case, ctx)
    spec, opts, route = case["spec"], case["opts"], case["route"]
    b = TS.Builder(case["rng"])
    try:
        try:
            ann = b.annotation(spec)
            from utype import Rule

            T = Rule.parse_annotation(ann)
            entry = make_entry(route, ann, T, opts)
        except Exception as e:
            ctx.count("declaration_rejected:" + type(e).__name__)
            return
        if entry.cls is not None:
            b.created.append(entry.cls)
        shape = TS.spec_shape(spec)
        okey = tuple(sorted(opts.items()))
        accepted = 0
        for mk in case["inputs"]:
            try:
                x = mk()
            except Exception:
                ctx.count("input_factory_failed")
                continue
            xr = short(x, 120)
            xc = TS.value_class(x)
            out = run(lambda: entry(x))
            ctx.count("calls")
            if not out.ok:
                if out.kind == "escape" and isinstance(out.exc, Absent):
                    ctx.trivial("excluded")
                else:
                    ctx.trivial("rejected")
                continue
            if case["waive"]:
                ctx.count("waived_not_judged")
                continue
            accepted += 1
            try:
                r = TS.conforms(out.value, spec, b.dc_map.get)
            except TS.Unjudged as u:
                ctx.skip("unjudged:" + str(u)[:30])
                continue
            except Exception as e:
                ctx.skip("oracle_error:" + type(e).__name__)
                continue
            sig = (shape, route, okey, xc)
            if r is None:
                ctx.held(sig)
                if ctx.want_sample() and spec[0] != "leaf":
                    ctx.sample({"spec": TS.describe(spec), "route": route, "options": opts, "input": xr,
                                "result": short(out.value, 120), "verdict": "conforms"})
            else:
                code, text, trail = r
                top = spec[0] if spec[0] != "con" else "con:" + spec[1]
                key = classify(code, trail, opts)
                ctx.violation(key, f"{route} {TS.describe(spec)[:200]} opts={opts} input={xr} -> {short(out.value, 100)}: {text}",
                              {"spec": TS.describe(spec), "route": route, "options": opts, "input": xr,
                               "result": short(out.value, 200), "reason": text, "top": top}, sig=sig)
        ctx.count("accepted", accepted)
    finally:
        b.cleanup()


def classify(code, trail, opts):
    """mechanism key: failing oracle clause + the declaration-shape class it sits in"""
    if "not-instance:Iterator" in code:
        return "C01/iterator-origin-returns-non-iterator"
    for t in ("gen:Sequence", "gen:Iterable"):
        if t in trail[:-1] or (t in trail and code.startswith("no-arg")):
            return "C01/elements-under-abstract-origin-not-converted/" + t[4:]
    if code.startswith("no-arg:"):
        # a union whose producing arm shows the listed strict-then-lax mechanism, every other arm failing on type only
        parts = code[len("no-arg:"):].split("+")
        stl = [p for p in parts if p.startswith("strict-then-lax:")]
        if len(stl) == 1 and all(p.startswith("not-instance:") or p == "literal" for p in parts if p not in stl):
            return "C01/" + stl[0]
    if "and" in trail and opts.get("collect_errors"):
        return "C01/and-combinator+collect_errors/" + code.split(":")[0]
    return "C01/" + code


def finish(ctx):
    m = _state.get("mon")
    if m:
        for k, v in m.counters.items():
            ctx.count("online:" + k, v)
        for key, what, detail in m.violations[:50]:
            ctx.violation(key, what, detail)
    if ctx.shard == 0:
        suite_under_monitor(ctx)


def suite_under_monitor(ctx):
    """the repository's own tests as one more workload of the online Rule.parse monitor (DESIGN 3.6)"""
    import json
    import os
    import subprocess
    import sys
    import tempfile

    import utype

    repo = os.path.dirname(os.path.dirname(os.path.realpath(utype.__file__)))
    fd, out = tempfile.mkstemp(prefix="vmon-suite-", suffix=".json")
    os.close(fd)
    try:
        p = subprocess.run([sys.executable, "-m", "pytest", "-q", "-x", "-p", "no:cacheprovider", "-p", "vmon.pytest_plugin", "tests"], cwd=repo,
                           env=dict(os.environ, VMON_PLUGIN_OUT=out, UTYPE_VERIF_MONITORS="1"), capture_output=True, text=True, timeout=600)
        try:
            with open(out) as f:
                r = json.load(f)
        except Exception:
            ctx.count("suite:not-run")
            return
        ctx.count("suite:tests", r["tests_collected"])
        ctx.count("suite:tests_failed", r["tests_failed"])
        for k, v in r["counters"].items():
            ctx.count("suite:online:" + k, v)
        if r["tests_failed"] == 0:  # a failing suite is somebody else's alarm; the monitor's verdicts on it are not used
            for key, what, detail in r["violations"][:50]:
                ctx.violation(key.replace("C01/online/", "C01/online-in-test-suite/"), what, dict(detail, workload="repository test suite"))
    except subprocess.TimeoutExpired:
        ctx.count("suite:timeout")
    finally:
        try:
            os.unlink(out)
        except OSError:
            pass


def conclusive(m, tier):
    c = m["counters"]
    calls = c.get("calls", 0)
    if calls and c.get("accepted", 0) < 0.15 * calls:
        return f"generator drift: only {c.get('accepted', 0)}/{calls} calls accepted"
    if c.get("online:rule_parse_post", 0) == 0:
        return "online Rule.parse monitor was never evaluated (hook missing?)"
    return None
