"""C17 — forward references and declaration order do not change behaviour.

A generated SYSTEM of 2-4 mutually referencing data classes (+ one decorated function) is
materialised as source text in fresh modules under several VARIANTS: spelling of every reference
(direct / 'Name' / 'Name' inside a generic / whole-annotation string / postponed evaluation /
classes local to a function), definition order and first-use order.  Every variant must produce
the outcome that the system's SHAPE alone determines, from the first call on and again later."""
import itertools
import sys
import types

from .. import values as V
from ..execu import run
from ..runner import short

ID = "C17"
N = {"quick": 5000, "thorough": 60000}
TIME_BUDGET = {"quick": 50, "thorough": 540}
MIN_NONTRIVIAL = {"quick": 200, "thorough": 2000}
RULE = ("cases = a system shape: 2-4 classes, each with an int leaf and 1-3 reference fields (target = itself or another class; "
        "wrapper plain / Optional / List / Dict[str,.] / Union[int,.] / Tuple[.,int]; optional Field(ge=0) on the leaf, "
        "Field(max_length=2) on a reference list, a Field(ge=1, le=100) reference by name to a late- or early-defined plain int subclass) + a @parse function taking and returning classes of the system; x 6 variants (a spelling per "
        "reference among direct / 'Name' / 'Name' inside the generic / the whole annotation as a string / from __future__ import "
        "annotations / all classes local to a function; a definition order; a first-use order) x a script of 6 parses (valid nested "
        "inputs with string leaves, and inputs with an invalid leaf at depth 2) run twice. Expected outcome is computed from the "
        "shape. Non-trivial = the variant uses at least one non-direct spelling or a late-defined name; distinct = (shape, variant).")
ASSUMPTIONS = [
    "class names are unique per variant module (typing caches Optional['Name'] objects process-wide; the cross-module capture of a same-named class is recorded under C19 and exercised here by a dedicated scenario)",
    "expected values: an int leaf given as '5' parses to 5; a reference parses to an instance of the target class; anything else in the generated inputs is an invalid leaf -> ParseError",
    "direct spelling is only possible for a class that is already defined at that point; the generator falls back to a string there",
]
WRAPPERS = ["plain", "opt", "list", "dict", "union", "tuple", "oplist", "opdict"]
SPELLINGS = ["direct", "name", "inner", "whole"]
_uid = itertools.count()


def n_cases(tier):
    return N[tier]


def gen_shape(rng):
    n = rng.choice([2, 2, 3, 3, 4])
    classes = []
    for i in range(n):
        refs = []
        for j in range(rng.choice([1, 1, 2, 3])):
            w = rng.choice(WRAPPERS)
            refs.append({"name": "r%d" % j, "target": rng.randrange(n), "wrapper": w, "maxlen2": w == "list" and rng.random() < 0.4})
        # peer: a @property field whose getter return annotation AND setter parameter annotation name a (late or early) helper class
        classes.append({"refs": refs, "leaf_ge0": rng.random() < 0.4, "amt": rng.random() < 0.35, "peer": rng.random() < 0.2,
                        # lt: Optional['LateTop'] where LateTop is a MODULE-level class defined after everything else (also after a local scope)
                        "lt": rng.random() < 0.25,
                        # amt2: the SAME late name as amt in a second annotation with other constraints (ge=200)
                        "amt2": rng.random() < 0.5})
    return {"classes": classes, "fn": {"arg": rng.randrange(n), "ret": rng.randrange(n), "star": rng.choice([None, rng.randrange(n)])},
            # a subclass of one class of the system (inherits its late references), possibly used before its base
            "sub_of": rng.randrange(n) if rng.random() < 0.3 else None}


def gen_variant(rng, shape):
    n = len(shape["classes"])
    order = list(range(n))
    rng.shuffle(order)
    style = rng.choice(["module", "module", "module", "future", "local"])
    spell = {}
    for i, c in enumerate(shape["classes"]):
        for r in c["refs"]:
            spell[(i, r["name"])] = rng.choice(SPELLINGS)
    use = list(range(n)) + ["fn"]
    rng.shuffle(use)
    return {"order": order, "style": style, "spell": spell, "use": use, "amt_late": rng.random() < 0.7, "fn_first": rng.random() < 0.4,
            "peer_late": rng.random() < 0.7, "peer_spell": rng.choice(["name", "name", "direct"]),
            "sub_first": rng.random() < 0.6, "gen_spell": rng.choice(["direct", "inner", "whole", "whole"])}


def ann_src(wrapper, target_expr_direct, target_name, spelling):
    """source text of the annotation for a reference"""
    wrap = {"plain": "{}", "opt": "Optional[{}]", "list": "List[{}]", "dict": "Dict[str, {}]", "union": "Union[int, {}]", "tuple": "Tuple[{}, int]",
            # operator-spelled unions nested inside a generic
            "oplist": "List[utypes.NegativeInt | {}]", "opdict": "Dict[str, utypes.NegativeInt | {}]"}[wrapper]
    if spelling == "direct":
        return wrap.format(target_expr_direct)
    if spelling == "name" or (spelling == "inner" and wrapper == "plain"):
        return wrap.format(repr(target_name)) if wrapper != "plain" else repr(target_name)
    if spelling == "inner":
        return wrap.format(repr(target_name))
    return repr(wrap.format(target_name))   # the whole annotation as one string


def source(shape, variant, uid):
    names = ["K%d_%d" % (uid, i) for i in range(len(shape["classes"]))]
    lines = []
    if variant["style"] == "future":
        lines.append("from __future__ import annotations")
    lines += ["import typing", "from typing import Optional, List, Dict, Union, Tuple", "import utype", "from utype import Schema, Field, parse", "from utype import types as utypes", ""]
    ind = "    " if variant["style"] == "local" else ""
    if variant["style"] == "local":
        lines.append("def make():")
    defined = set()
    late = False
    nondirect = False
    amt = "Amt%d" % uid
    amt_src = [f"{ind}class {amt}(int):", f"{ind}    pass", ""]
    any_amt = any(c["amt"] for c in shape["classes"])
    if any_amt and (not variant["amt_late"] or variant["style"] == "local"):
        lines += amt_src
    peer = "Peer%d" % uid
    peer_src = [f"{ind}class {peer}(Schema):", f"{ind}    m: int", ""]
    any_peer = any(c.get("peer") for c in shape["classes"])
    peer_early = not variant.get("peer_late") or variant["style"] == "local"
    if any_peer and peer_early:
        lines += peer_src
    for i in variant["order"]:
        c = shape["classes"][i]
        lines.append(f"{ind}class {names[i]}(Schema):")
        lines.append(f"{ind}    v: int" + (" = Field(ge=0)" if c["leaf_ge0"] else ""))
        for r in c["refs"]:
            sp = variant["spell"][(i, r["name"])]
            t = r["target"]
            if variant["style"] == "local" and t != i:
                # Python itself cannot see a function's locals from a string annotation: inside a function only
                # self-references may be strings (tests/test_cls.py::test_local_forward_ref); other classes are
                # referenced directly, which needs them to be defined already
                if t not in defined:
                    return None, names, (False, False)
                sp = "direct"
            if sp == "direct" and t not in defined:
                sp = "name"
            if sp == "direct" and t == i:
                sp = "name"
            if sp != "direct":
                nondirect = True
            if t not in defined and t != i:
                late = True
            default = {"plain": "None", "opt": "None", "list": "Field(default_factory=list" + (", max_length=2)" if r.get("maxlen2") else ")"),
                       "dict": "Field(default_factory=dict)", "union": "None", "tuple": "None", "oplist": "Field(default_factory=list)",
                       "opdict": "Field(default_factory=dict)"}[r["wrapper"]]
            lines.append(f"{ind}    {r['name']}: {ann_src(r['wrapper'], names[t], names[t], sp)} = {default}")
        if c["amt"]:
            # a constrained reference to a plain class: by name (late or early), or direct in a local scope
            a = amt if variant["style"] == "local" else repr(amt)
            lines.append(f"{ind}    amt: {a} = Field(ge=1, le=100, default=5)")
            if c.get("amt2"):
                lines.append(f"{ind}    amt2: {a} = Field(ge=200, default=300)")
            if variant["amt_late"] and variant["style"] != "local":
                late = True
            nondirect = True
        if c.get("lt"):
            lines.append(f"{ind}    lt: Optional['LateTop{uid}'] = None")
            late = True
            nondirect = True
        if c.get("peer"):
            pa = peer if (peer_early and variant.get("peer_spell") == "direct") or variant["style"] == "local" else repr(peer)
            lines += [f"{ind}    @property", f"{ind}    def peer(self) -> {pa}:", f"{ind}        return self._peer",
                      f"{ind}    @peer.setter", f"{ind}    def peer(self, value: {pa}):", f"{ind}        self._peer = value"]
            if not peer_early:
                late = True
            if pa != peer:
                nondirect = True
        lines.append("")
        defined.add(i)
    if any_amt and variant["amt_late"] and variant["style"] != "local":
        lines += amt_src
    if any_peer and not peer_early:
        lines += peer_src
    f = shape["fn"]
    q = "" if variant["style"] == "local" else "'"
    star = f", *rest: {q}{names[f['star']]}{q}" if f["star"] is not None else ""
    fn_lines = [f"{ind}@parse", f"{ind}def fn(x: {q}{names[f['arg']]}{q}{star}) -> {q}{names[f['ret']]}{q}:",
                (f"{ind}    return dict(v='7', peer=dict(m=1))" if shape["classes"][f["ret"]].get("peer") else f"{ind}    return dict(v='7')")
                if f["ret"] != f["arg"] else f"{ind}    return x", "",
                # a function whose parameters are NOT parsed: only its return annotation (a late reference) is used
                f"{ind}@parse(ignore_params=True)", f"{ind}def fn2(x) -> {q}{names[f['ret']]}{q}:",
                (f"{ind}    return dict(v='8', peer=dict(m=1))" if shape["classes"][f["ret"]].get("peer") else f"{ind}    return dict(v='8')"), ""]
    if variant.get("fn_first") and variant["style"] != "local":
        # the function is declared BEFORE the classes it names: parameters, *args and return type are late references
        at = next(k for k, l in enumerate(lines) if l.startswith("class ") or l.startswith(f"class {amt}"))
        lines[at:at] = fn_lines
        late = True
    else:
        lines += fn_lines
    extra_names = ["fn", "fn2", "gen"]
    if shape.get("sub_of") is not None:
        b_ = names[shape["sub_of"]]
        lines += [f"{ind}class {b_}Sub({b_}):", f"{ind}    extra: int = 0", ""]
        extra_names.append(b_ + "Sub")
    r_ = f["ret"]
    gsp = variant.get("gen_spell", "inner")
    if variant["style"] == "local":
        gann = f"typing.Iterator[{names[r_]}]"
    elif gsp == "whole":
        gann = repr(f"typing.Iterator[{names[r_]}]")
        nondirect = True
    elif gsp == "direct":
        gann = f"typing.Iterator[{names[r_]}]"
    else:
        gann = f"typing.Iterator[{names[r_]!r}]"
        nondirect = True
    ypeer = ", peer=dict(m=1)" if shape["classes"][r_].get("peer") else ""
    gen_lines = [f"{ind}@parse", f"{ind}def gen(k: int) -> {gann}:", f"{ind}    for i in range(k):", f"{ind}        yield dict(v=str(i){ypeer})", ""]
    if any(c.get("lt") for c in shape["classes"]):
        # extra keyword arguments typed by the late MODULE-level class (a string also when the function is local)
        gen_lines += [f"{ind}@parse", f"{ind}def fk(n: int = 0, **extra: 'LateTop{uid}'):",
                      f"{ind}    return sorted((k, type(x).__name__, x.m) for k, x in extra.items())", ""]
        extra_names.append("fk")
        nondirect = True
    if variant.get("fn_first") and variant["style"] != "local" and gsp != "direct":
        # declared before the classes exist: the return annotation is a late reference
        at = next(k for k, l in enumerate(lines) if l.startswith("@parse") or l.startswith("class "))
        lines[at:at] = gen_lines
    else:
        lines += gen_lines
    if variant["style"] == "local":
        lines.append("    return {" + ", ".join(f"{nm!r}: {nm}" for nm in names) + ", " + ", ".join(f"{nm!r}: {nm}" for nm in extra_names) + "}")
        lines.append("")
        lines.append("globals().update(make())")
    if any(c.get("lt") for c in shape["classes"]):
        lines += ["", f"class LateTop{uid}(Schema):", "    m: int", ""]
    if variant["style"] == "module":
        # a string that names a class which ALREADY exists means that class, like the direct reference - also when the
        # module binds the name to something else before the function is first used
        lines += ["", f"class Reb{uid}(Schema):", "    m: int", "", "@parse", f"def fr(*xs: 'Reb{uid}', **kw: 'Reb{uid}') -> 'Reb{uid}':",
                  "    return dict(m='9')", "", f"RebFirst = Reb{uid}", f"class Reb{uid}(Schema):", "    other: str = 'rebound'", ""]
    return "\n".join(lines), names, (late or variant["style"] in ("future",), nondirect or variant["style"] != "module")


# ---- inputs and expected values ------------------------------------------------------------------
def gen_data(rng, shape, i, depth, bad_at=None, path=()):
    """-> (input dict for class i, expected normalised dict or ('bad',))"""
    c = shape["classes"][i]
    leaf_bad = bad_at is not None and len(path) == bad_at
    v_in = "x" if leaf_bad else rng.choice(["5", 3, "0", 12])
    data = {"v": v_in}
    exp = {"v": None if leaf_bad else int(v_in)}
    bad = leaf_bad
    if c["leaf_ge0"] and not leaf_bad and rng.random() < 0.1:
        data["v"], bad = -4, True
    if c["amt"]:
        a = rng.choice([None, None, "7", 100, 0, 101, 1000])
        if a is not None:
            data["amt"] = a
            if not (1 <= int(a) <= 100):
                bad = True
            exp["amt"] = int(a)
        else:
            exp["amt"] = 5
        if c.get("amt2"):
            a2 = rng.choice([None, None, "250", 200, 50, 1000])
            if a2 is not None:
                data["amt2"] = a2
                if int(a2) < 200:
                    bad = True
                exp["amt2"] = int(a2)
            else:
                exp["amt2"] = 300
    if c.get("lt"):
        if rng.random() < 0.6:
            m = rng.choice(["3", 4, "x"] if rng.random() < 0.15 else ["3", 4])
            data["lt"] = {"m": m}
            if m == "x":
                bad = True
            else:
                exp["lt"] = {"m": int(m)}
        else:
            exp["lt"] = None
    if c.get("peer"):
        # a property with a setter and no default is a required field
        m = rng.choice(["3", 4, "0", "x"] if rng.random() < 0.15 else ["3", 4, "0"])
        data["peer"] = {"m": m}
        if m == "x":
            bad = True
        else:
            exp["peer"] = {"m": int(m)}
    for r in c["refs"]:
        if depth <= 0 or rng.random() < 0.35:
            continue
        child, cexp = gen_data(rng, shape, r["target"], depth - 1, bad_at, path + (r["name"],))
        if cexp == ("bad",):
            bad = True
        w = r["wrapper"]
        if w in ("plain", "opt", "union"):
            data[r["name"]], e = child, cexp
        elif w == "list":
            k3 = r.get("maxlen2") and rng.random() < 0.3
            data[r["name"]], e = ([child] * 3, [cexp] * 3) if k3 else ([child], [cexp])
            if k3:
                bad = True
        elif w == "oplist":
            data[r["name"]], e = [child, -2], [cexp, -2]
        elif w == "opdict":
            data[r["name"]], e = {"k": child, "n": "-3"}, {"k": cexp, "n": -3}
        elif w == "dict":
            data[r["name"]], e = {"k": child}, {"k": cexp}
        else:
            data[r["name"]], e = [child, "4"], [cexp, 4]
        exp[r["name"]] = e
    if bad:
        return data, ("bad",)
    for r in c["refs"]:
        if r["name"] not in exp:
            exp[r["name"]] = {"plain": None, "opt": None, "list": [], "dict": {}, "union": None, "tuple": None, "oplist": [], "opdict": {}}[r["wrapper"]]
    return data, exp


def norm(v):
    if isinstance(v, dict):
        return {str(k): norm(x) for k, x in v.items()}
    if isinstance(v, (list, tuple)):
        return [norm(x) for x in v]
    return v


def make_case(i, rng, tier):
    if rng.random() < 0.02:
        return {"fam": "same-name"}
    if rng.random() < 0.08:
        return gen_join(rng)
    if rng.random() < 0.04:
        return {"fam": "shadow", "spelling": rng.choice(["Optional['{N}']", "'{N}'", "List['{N}']", "'Optional[{N}]'"]), "kind": rng.choice(["local", "nested", "redefined"])}
    shape = gen_shape(rng)
    variants = [gen_variant(rng, shape) for _ in range(6)]
    n = len(shape["classes"])
    script = []
    for _ in range(6):
        ci = rng.randrange(n)
        bad_at = rng.choice([None, None, None, 1, 2])
        script.append((ci,) + gen_data(rng, shape, ci, rng.choice([1, 2, 3]), bad_at))
    return {"fam": "system", "shape": shape, "variants": variants, "script": script}


def shape_key(shape):
    return (tuple(tuple((r["target"], r["wrapper"]) for r in c["refs"]) for c in shape["classes"]), tuple(sorted((k, str(v)) for k, v in shape["fn"].items())))


SHADOW = {
    "local": """
from typing import Optional, List
from utype import Schema, Field
class {N}(Schema):
    a: int
def make():
    class {N}(Schema):
        b: str
        child: {ANN} = None
    return {N}
Target = make()
""",
    "nested": """
from typing import Optional, List
from utype import Schema, Field
class {N}(Schema):
    a: int
class Outer:
    class {N}(Schema):
        b: str
        child: {ANN} = None
Target = Outer.{N}
""",
    "redefined": """
from typing import Optional, List
from utype import Schema, Field
class {N}(Schema):
    a: int
class {N}(Schema):
    b: str
    child: {ANN} = None
Target = {N}
""",
}


def run_shadow(case, ctx):
    """a class whose simple name is also bound to ANOTHER class in the module: its string self-reference
    must mean the class itself, exactly like typing.Self / a direct reference would"""
    uid = next(_uid)
    N_ = "Sh%d" % uid
    ann = case["spelling"].replace("{N}", N_)
    src = SHADOW[case["kind"]].replace("{ANN}", ann).replace("{N}", N_)
    mod = types.ModuleType("vmon_c17_sh%d" % uid)
    sys.modules[mod.__name__] = mod
    try:
        o = run(lambda: exec(compile(src, "<c17-shadow>", "exec"), mod.__dict__))
        ctx.count("variants")
        sig = ("shadow", case["kind"], case["spelling"])
        if not o.ok:
            ctx.violation(f"C17/declaration-fails/shadowed-name/{case['kind']}", f"{case['kind']} class shadowing a module-level name: declaration raised {o!r}", {"source": src}, sig=sig)
            return
        T = mod.__dict__["Target"]
        child = [{"b": "y"}] if "List" in case["spelling"] else {"b": "y"}
        out = run(lambda: norm(dict(T(b="x", child=child))))
        ctx.count("parses")
        inner = {"b": "y", "child": [] if False else None}
        exp = {"b": "x", "child": [inner] if "List" in case["spelling"] else inner}
        if not out.ok or out.value != exp:
            ctx.violation(f"C17/string-self-reference-binds-to-another-object-of-the-same-name/{case['kind']}",
                          f"{case['kind']} class {N_} (a module-level class of the same name exists) with child: {ann}: -> {out!r}; a self-reference gives {exp}",
                          {"source": src, "observed": repr(out)}, sig=sig)
        else:
            ctx.held(sig)
    finally:
        sys.modules.pop(mod.__name__, None)


JOIN_WRAP = {"opt": ("Optional[{}]", "None", lambda x: x), "list": ("List[{}]", "Field(default_factory=list)", lambda x: [x]),
             "dict": ("Dict[str, {}]", "Field(default_factory=dict)", lambda x: {"k": x}), "plain": ("{}", "None", lambda x: x)}


def gen_join(rng):
    """a data class with 2-3 data-class bases, each holding a reference to a leaf class that is defined later;
    which class is used first, which inherited fields the first input gives, and how each reference is spelled vary"""
    nb = rng.choice([2, 2, 3])
    bases = [{"wrapper": rng.choice(list(JOIN_WRAP)), "spell": rng.choice(["name", "name", "whole", "direct"])} for _ in range(nb)]
    use = rng.sample(["J"] + list(range(nb)), rng.choice([1, 1, 2]))
    if "J" not in use:
        use.append("J")
    return {"fam": "join", "bases": bases, "use": use, "give": [rng.random() < 0.7 for _ in range(nb)], "leaves_first": rng.random() < 0.3}


def run_join(case, ctx):
    uid = next(_uid)
    nb = len(case["bases"])
    head = "from typing import List, Optional, Dict\nfrom utype import Schema, Field\n"
    leaves = "".join(f"class Leaf{k}_{uid}(Schema):\n    v: int\n\n" for k in range(nb))
    body = ""
    for k, b in enumerate(case["bases"]):
        tmpl, default, _ = JOIN_WRAP[b["wrapper"]]
        leaf = f"Leaf{k}_{uid}"
        if b["spell"] == "direct" and not case["leaves_first"]:
            spell = "name"
        else:
            spell = b["spell"]
        ann = tmpl.format(leaf) if spell == "direct" else (tmpl.format(repr(leaf)) if spell == "name" else repr(tmpl.format(leaf)))
        body += f"class Base{k}_{uid}(Schema):\n    f{k}: {ann} = {default}\n\n"
    body += f"class Join_{uid}({', '.join(f'Base{k}_{uid}' for k in range(nb))}):\n    title: str = ''\n\n"
    src = head + (leaves + body if case["leaves_first"] else body + leaves)
    mod = types.ModuleType("vmon_c17_join%d" % uid)
    sys.modules[mod.__name__] = mod
    try:
        o = run(lambda: exec(compile(src, "<c17-join>", "exec"), mod.__dict__))
        ctx.count("variants")
        sig = ("join", tuple((b["wrapper"], b["spell"]) for b in case["bases"]), tuple(str(u) for u in case["use"]), tuple(case["give"]), case["leaves_first"])
        if not o.ok:
            ctx.violation(f"C17/declaration-fails/join/{type(o.exc).__name__}", f"multiple inheritance system: declaration raised {o!r}", {"source": src}, sig=sig)
            return
        ns = mod.__dict__
        for u in case["use"]:
            if u == "J":
                data, exp = {"title": "t"}, {"title": "t"}
                for k, b in enumerate(case["bases"]):
                    wrap = JOIN_WRAP[b["wrapper"]][2]
                    if case["give"][k]:
                        data[f"f{k}"] = wrap({"v": str(k + 3)})
                        exp[f"f{k}"] = wrap({"v": k + 3})
                    else:
                        exp[f"f{k}"] = {"opt": None, "plain": None, "list": [], "dict": {}}[b["wrapper"]]
                cls = ns[f"Join_{uid}"]
            else:
                b = case["bases"][u]
                wrap = JOIN_WRAP[b["wrapper"]][2]
                data, exp = {f"f{u}": wrap({"v": "9"})}, {f"f{u}": wrap({"v": 9})}
                cls = ns[f"Base{u}_{uid}"]
            for rep in (1, 2):
                out = run(lambda: norm(dict(cls.__from__(_copy(data)))))
                ctx.count("parses")
                if not out.ok or out.value != norm(exp):
                    ctx.violation("C17/outcome-depends-on-first-use-or-spelling/multiple-inheritance",
                                  f"class with {nb} bases that each name a later class ({[b['spell'] + ':' + b['wrapper'] for b in case['bases']]}), first uses {case['use']}: "
                                  f"{cls.__name__} call {rep} on {short(data, 100)} -> {out!r}; the shape determines {short(exp, 100)}",
                                  {"source": src, "first_use_order": [str(u) for u in case["use"]], "call": rep, "observed": repr(out)}, sig=sig)
                    return
        ctx.held(sig)
    finally:
        sys.modules.pop(mod.__name__, None)


def run_case(case, ctx):
    if case["fam"] == "join":
        return run_join(case, ctx)
    if case["fam"] == "same-name":
        return run_same_name(ctx)
    if case["fam"] == "shadow":
        return run_shadow(case, ctx)
    shape, script = case["shape"], case["script"]
    skey = shape_key(shape)
    for vi, variant in enumerate(case["variants"]):
        uid = next(_uid)
        src, names, (late, nondirect) = source(shape, variant, uid)
        if src is None:
            ctx.skip("local style with a reference to a class that is not defined yet (not expressible in Python)")
            continue
        mod = types.ModuleType("vmon_c17_%d" % uid)
        sys.modules[mod.__name__] = mod
        try:
            o = run(lambda: exec(compile(src, "<c17-system>", "exec"), mod.__dict__))
            ctx.count("variants")
            vdesc = {"style": variant["style"], "definition_order": variant["order"], "first_use_order": [str(u) for u in variant["use"]],
                     "spellings": sorted(f"{k[0]}.{k[1]}={v}" for k, v in variant["spell"].items())}
            sig = (skey, variant["style"], tuple(variant["order"]), tuple(sorted(variant["spell"].items())))
            if not o.ok:
                ctx.violation(f"C17/declaration-fails/{variant['style']}/{type(o.exc).__name__}", f"variant {vdesc} of system {skey}: declaration raised {o!r}",
                              {"source": src, "variant": vdesc}, sig=sig)
                continue
            ns = mod.__dict__
            # first uses in the chosen order (a trivial valid parse of each class / a call of fn)
            problems = None
            f = shape["fn"]
            sub_of = shape.get("sub_of")
            via_sub = sub_of is not None and variant.get("sub_first")

            def cls_for(ci):
                # a subclass (inherits every late reference) stands in for its base, and is used BEFORE the base
                return ns[names[ci] + "Sub"] if (via_sub and ci == sub_of) else ns[names[ci]]

            for u in variant["use"]:
                if u == "fn":
                    continue
                run(lambda: cls_for(u)(**arg_for0(shape, u)))
            for rep in (1, 2):
                for ci, data, exp in script:
                    out = run(lambda: norm(dict(cls_for(ci).__from__(_copy(data)))))
                    ctx.count("parses")
                    if via_sub and ci == sub_of and exp != ("bad",):
                        exp = dict(exp, extra=0)
                    ok_exp = exp != ("bad",)
                    if out.kind not in ("ok", "parse"):
                        problems = ("escape", ci, data, exp, out, rep)
                    elif out.ok != ok_exp:
                        problems = ("verdict", ci, data, exp, out, rep)
                    elif out.ok and out.value != norm(exp):
                        problems = ("value", ci, data, exp, out, rep)
                    if problems:
                        break
                if problems:
                    break
            if not problems:
                # the function: argument class, *rest class, return class
                arg_data, arg_exp = {"v": "5"}, None
                def arg_for(ci, v):
                    return dict({"v": v}, **({"peer": {"m": "2"}} if shape["classes"][ci].get("peer") else {}))
                o3 = run(lambda: norm(dict(ns["fn2"](0))))
                ctx.count("parses")
                if not o3.ok or o3.value.get("v") != 8:
                    problems = ("function-with-ignore_params", f["ret"], 0, {"v": 8}, o3, 1)
                o2 = run(lambda: norm(dict(ns["fn"](arg_for(f["arg"], "5"), *([arg_for(f["star"], "6")] if f["star"] is not None else [])))))
                ctx.count("parses")
                exp_v = 7 if f["ret"] != f["arg"] else 5
                if not o2.ok or o2.value.get("v") != exp_v:
                    problems = ("function", f["arg"], {"v": "5"}, {"v": exp_v}, o2, 1)
            if not problems:
                # the generator: every yielded mapping is converted to the class named by the return annotation
                o3 = run(lambda: [norm(dict(x)) if isinstance(x, dict) else ("not-converted", repr(x)[:60]) for x in ns["gen"](2)])
                ctx.count("parses")
                exp3 = [bare_exp(shape, f["ret"], 0), bare_exp(shape, f["ret"], 1)]
                if not o3.ok or o3.value != norm(exp3) or not all(isinstance(x, ns[names[f["ret"]]]) for x in ns["gen"](1)):
                    problems = ("generator", "gen", 2, exp3, o3, 1)
            if not problems and "fk" in ns:
                for rep in (1, 2):
                    o4 = run(lambda: ns["fk"]("1", z={"m": "3"}, y={"m": 4}))
                    ctx.count("parses")
                    exp4 = [("y", "LateTop%d" % uid, 4), ("z", "LateTop%d" % uid, 3)]
                    if not o4.ok or [tuple(x) for x in o4.value] != exp4:
                        problems = ("kwargs-function", "fk", {"z": {"m": "3"}, "y": {"m": 4}}, exp4, o4, rep)
                        break
            if not problems and "fr" in ns:
                o5 = run(lambda: (type(ns["fr"]({"m": "1"}, k={"m": 2})) is ns["RebFirst"], dict(ns["fr"]())))
                ctx.count("parses")
                if not o5.ok or o5.value != (True, {"m": 9}):
                    problems = ("rebound-name", "fr", {"m": "1"}, (True, {"m": 9}), o5, 1)
            if problems:
                kind, ci, data, exp, out, rep = problems
                mech = mechanism(shape, variant, names, out)
                ctx.violation(f"C17/{kind}-differs-from-direct-reference-semantics/{mech}",
                              f"variant {vdesc}: {names[ci] if isinstance(ci, int) else ci}({short(data, 100)}) [pass {rep}] -> {out!r}; the shape determines {short(exp, 100)}",
                              {"source": src, "variant": vdesc, "input": short(data, 300), "expected": short(exp, 300), "observed": repr(out)}, sig=sig)
                continue
            if late or nondirect:
                ctx.held(sig)
                if ctx.want_sample() and len(names) > 2:
                    ctx.sample({"source": src, "variant": vdesc, "script_passed": len(script) * 2 + 1})
            else:
                ctx.trivial("all references direct and early")
        finally:
            sys.modules.pop(mod.__name__, None)
            try:
                from utype.parser import base as pbase
                for v in list(mod.__dict__.values()):
                    if isinstance(v, type) or callable(v):
                        pbase.__parsers__.pop(v, None)
            except Exception:
                pass


def bare_exp(shape, ci, v):
    """what {'v': str(v)} (+ the required peer) parses to for class ci"""
    c = shape["classes"][ci]
    e = {"v": v}
    if c["amt"]:
        e["amt"] = 5
        if c.get("amt2"):
            e["amt2"] = 300
    if c.get("lt"):
        e["lt"] = None
    if c.get("peer"):
        e["peer"] = {"m": 1}
    for r in c["refs"]:
        e[r["name"]] = {"plain": None, "opt": None, "list": [], "dict": {}, "union": None, "tuple": None, "oplist": [], "opdict": {}}[r["wrapper"]]
    return e


def arg_for0(shape, ci):
    return dict({"v": "1"}, **({"peer": {"m": "2"}} if shape["classes"][ci].get("peer") else {}))


def _copy(d):
    import copy
    return copy.deepcopy(d)


def mechanism(shape, variant, names, out):
    """structural key: style + the wrapper/spelling of the reference named in the error, if any"""
    msg = str(getattr(out, "exc", "") or "")
    unresolved = "ForwardRef" in msg or "not evaluated" in msg or "unresolved" in msg.lower() or "is not defined" in msg
    wrappers = set()
    for (i, rn), sp in variant["spell"].items():
        r = next(r for r in shape["classes"][i]["refs"] if r["name"] == rn)
        pos_def = variant["order"].index(r["target"])
        pos_use = variant["order"].index(i)
        is_late = pos_def > pos_use
        if is_late and r["wrapper"] != "plain":
            wrappers.add(r["wrapper"])
    if unresolved and variant["style"] == "module" and wrappers:
        return "late-defined-name-inside-a-generic-is-never-resolved/" + "+".join(sorted(wrappers))
    if unresolved and variant["style"] == "future":
        return "postponed-annotations/late-defined-name-inside-a-generic-is-never-resolved"
    if unresolved and variant["style"] == "local":
        return "local-classes/name-not-resolved"
    return variant["style"] + ("/unresolved" if unresolved else "/other")


SAME_A = """
from typing import Optional
from utype import Schema, DataClass
class Node(DataClass):
    a: int
    child: Optional['Node'] = None
"""
SAME_B = """
from typing import Optional
from utype import Schema, DataClass
class Node(Schema):
    b: str
    child: Optional['Node'] = None
"""


def run_same_name(ctx):
    uid = next(_uid)
    ma, mb = types.ModuleType("vmon_c17_same_a%d" % uid), types.ModuleType("vmon_c17_same_b%d" % uid)
    try:
        for m, src in ((ma, SAME_A), (mb, SAME_B)):
            sys.modules[m.__name__] = m
            exec(compile(src, "<c17-same-name>", "exec"), m.__dict__)
        run(lambda: ma.Node(a=1, child={"a": 2}))
        out = run(lambda: norm(dict(mb.Node(b="x", child={"b": "y"}))))
        ctx.count("parses", 2)
        ctx.count("variants")
        sig = ("same-name",)
        exp = {"b": "x", "child": {"b": "y", "child": None}}
        if not out.ok or out.value != exp:
            ctx.violation("C17/same-named-class-of-another-module-is-captured-through-the-shared-typing-ForwardRef",
                          f"module B: Node(b='x', child={{'b': 'y'}}) after module A's Node was used -> {out!r}; a direct reference gives {exp}",
                          {"module_a": SAME_A, "module_b": SAME_B, "observed": repr(out)}, sig=sig)
        else:
            ctx.held(sig)
    finally:
        sys.modules.pop(ma.__name__, None)
        sys.modules.pop(mb.__name__, None)


def conclusive(m, tier):
    if m["counters"].get("variants", 0) == 0:
        return "no variant declared"
    return None
