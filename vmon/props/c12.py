"""C12 — conversion preferences only restrict, and keep their promises.

Events: type_transform(v, t, Options(flags)) for the four flag combinations.
Oracle: (a) subset + agreement: success under a restricting flag set => success without the flags
with an equal value of the same type; (b) no_data_loss promise predicates on (v, t, result);
(c) no_explicit_cast primitive-group predicate.  quick = exhaustive over hostile pool x targets."""
import collections.abc as cabc
import datetime as dt
import enum
import random
import typing
import uuid
from collections import deque
from decimal import Decimal
from fractions import Fraction

from .. import values as V
from ..execu import run
from ..monitors import steps as ST
from ..runner import short

ID = "C12"
TIME_BUDGET = {"quick": 40, "thorough": 420}
MIN_NONTRIVIAL = {"quick": 300, "thorough": 1000}
EXHAUSTIVE = {"quick": True, "thorough": False}
STEP_LIMIT = 3_000_000
RULE = ("quick: the full product hostile value pool (every entry of vmon/values.py) x targets (builtins, stdlib types, user "
        "subclasses MyInt/MyStr/MyList/MyDict, Enum/IntEnum/mixed Enum, an Enum whose member names collide with other members' "
        "values, Tuple[int,str], a Schema) x the four flag sets {}, no_explicit_cast, no_data_loss, both -- exhaustive over the "
        "pools. Both tiers add seeded generated sources (quick 3e4, thorough 4e5) (random numerics in every spelling, dates/datetimes/texts with and without "
        "time parts, byte strings valid/invalid UTF-8, nested containers of 0..3 elements). Non-trivial = a restricted run "
        "accepted (so at least one of the clauses (a)(b)(c) was decided); distinct = (target, source class, flag set, clause).")
ASSUMPTIONS = [
    "reject = any exception (bare type_transform does not wrap in ParseError; that is C04's business)",
    "(a) equality is type-exact and NaN-aware; 0.0 and -0.0 are equal values",
    "(b) judged only for the promises the statement lists; being stricter than the promise is allowed",
    "(c) targets outside the documented groups (UUID, Enum, complex, abstract types) are not judged; a source that already is an instance of the target is always allowed",
    "numeric text = text that decimal.Decimal parses after strip(); timed text = text datetime.fromisoformat parses with a non-zero time part",
]


class NameVal(enum.Enum):
    """member names collide with the other member's value (hostile for name-vs-value lookup)"""
    a = "b"
    b = "a"


class SEnum(str, enum.Enum):
    X = "x"
    Y = "1"


FLAGS = [("none", {}), ("ncast", {"no_explicit_cast": True}), ("ndl", {"no_data_loss": True}),
         ("both", {"no_explicit_cast": True, "no_data_loss": True})]

_state = {}


def _targets():
    if "targets" in _state:
        return _state["targets"]
    import utype
    from utype import Rule, Schema

    class S12(Schema):
        a: int
        b: str = "d"

    T2 = Rule.parse_annotation(typing.Tuple[int, str])
    OptInt = Rule.parse_annotation(typing.Optional[int])
    UnionIS = Rule.parse_annotation(typing.Union[int, str])
    UnionIF = Rule.parse_annotation(typing.Union[int, float])
    UnionFD = Rule.parse_annotation(typing.Union[float, Decimal])
    UnionBIS = Rule.parse_annotation(typing.Union[bool, int, str])
    OptDate = Rule.parse_annotation(typing.Optional[dt.date])
    LInt = Rule.parse_annotation(typing.List[int])
    tg = [
        ("NoneType", type(None), "null"), ("bool", bool, "boolean"), ("int", int, "number"), ("float", float, "number"),
        ("Decimal", Decimal, "number"), ("complex", complex, None), ("str", str, "string"), ("bytes", bytes, "string"),
        ("bytearray", bytearray, "string"), ("list", list, "array"), ("tuple", tuple, "array"), ("set", set, "array"),
        ("frozenset", frozenset, "array"), ("deque", deque, "array"), ("dict", dict, "object"),
        ("date", dt.date, "temporal"), ("datetime", dt.datetime, "temporal"), ("time", dt.time, "temporal"),
        ("timedelta", dt.timedelta, "temporal"), ("UUID", uuid.UUID, None), ("Color", V.Color, None), ("Num", V.Num, None),
        ("Mixed", V.Mixed, None), ("NameVal", NameVal, None), ("SEnum", SEnum, None),
        ("MyInt", V.MyInt, "number"), ("MyStr", V.MyStr, "string"), ("MyList", V.MyList, "array"), ("MyDict", V.MyDict, "object"),
        ("Tuple[int,str]", T2, "rule:tuple2"), ("Schema(a:int,b:str)", S12, "rule:schema"),
        ("Optional[int]", OptInt, "rule"), ("Union[int,str]", UnionIS, "rule"), ("Union[int,float]", UnionIF, "rule"),
        ("Union[float,Decimal]", UnionFD, "rule"), ("Union[bool,int,str]", UnionBIS, "rule"), ("Optional[date]", OptDate, "rule"), ("List[int]", LInt, "rule"),
        ("Mapping", cabc.Mapping, None), ("Sequence", cabc.Sequence, None),
    ]
    _state["targets"] = tg
    _state["S12"] = S12
    return tg


def setup(ctx):
    m = ST.get()
    _state["steps"] = m if m.install() else None
    _targets()


def n_cases(tier):
    n = len(_targets()) * len(V.POOL)
    n += 400000 if tier == "thorough" else 30000   # generated sources (quick: a sample)
    return n


# ---- generated sources (thorough) -------------------------------------------------------------
def gen_source(rng):
    r = rng.random()
    if r < 0.3:
        base = rng.choice([0, 1, -1, 2, 10, 255, 1000, 10 ** 6, 2 ** 53, 10 ** 17, 1600000000, 20000000000, 20000000001])
        frac = rng.choice([0, 0, 0, 0.5, 0.25, 0.1, 1e-9])
        v = base + frac if frac else base
        sp = rng.randrange(10)
        if sp == 9:
            # exact rationals (numbers.Rational): small and beyond the float grid (from 2**52 every float is integral)
            return rng.choice([Fraction(7, 2), Fraction(3, 1), Fraction(base * 2 + 1, 2), Fraction(base, 1), Fraction(2 ** 53 + 1, 2),
                               Fraction(10 ** 17 + 1, 2), Fraction(-(2 ** 60) + 1, 4), Fraction(1, 3), Fraction(10 ** 30, 1)])
        if sp == 0:
            return v
        if sp == 1:
            return float(v)
        if sp == 2:
            return Decimal(str(v))
        if sp == 3:
            return str(v)
        if sp == 4:
            return str(v).encode()
        if sp == 5:
            return "%s.0" % base
        if sp == 6:
            return Decimal(base).scaleb(rng.choice([0, 1, -1, 2])) if abs(base) < 10 ** 9 else Decimal(base)
        if sp == 7:
            return "%de%d" % (rng.randint(1, 99), rng.randint(-3, 5))
        return " %s " % v
    if r < 0.5:
        d = dt.datetime(rng.randint(1971, 2037), rng.randint(1, 12), rng.randint(1, 28),
                        *rng.choice([(0, 0, 0), (0, 0, 0), (3, 4, 5), (0, 0, 1), (23, 59, 59)]),
                        rng.choice([0, 0, 1, 500000]))
        sp = rng.randrange(10)
        if sp == 0:
            return d
        if sp == 1:
            return d.date()
        if sp == 2:
            return d.isoformat()
        if sp == 3:
            return str(d)
        if sp == 4:
            return d.date().isoformat()
        if sp == 5:
            return d.replace(tzinfo=dt.timezone.utc).timestamp()
        if sp == 6:
            return int(d.replace(tzinfo=dt.timezone.utc).timestamp())
        if sp == 7:
            return d.isoformat().encode()
        if sp == 8:
            return d.replace(tzinfo=rng.choice([V.TZ_P, V.TZ_N, dt.timezone.utc]))
        if rng.random() < 0.5:
            # a time part that is non-zero only below the second / spelled with a space or an offset
            return rng.choice([d.isoformat(sep=" "), d.isoformat() + "+00:00", d.strftime("%Y-%m-%d %H:%M:%S.%f")])
        return d.strftime("%Y/%m/%d")
    if r < 0.62:
        raw = rng.choice([b"abc", b"\xff", b"a\xffb", "é".encode(), b"\xc3", b"1", b"true", b"\xfe1", b"ok",
                          b"12\xff", b"", "日本".encode(),
                          # text cut inside a multi-byte character (an incremental decoder would wait for more instead of failing)
                          b"12\xe2\x82", "日本".encode()[:-1], b"caf\xc3", b"1\xf0\x9f\x98"])
        return rng.choice([bytes, bytes, bytearray, memoryview])(raw)
    if r < 0.7:
        w = rng.choice(["true", "false", "yes", "no", "on", "off", "t", "f", "y", "n", "1", "0", "2", "maybe", "", "null", "none"])
        w = rng.choice([w, w.upper(), w.title(), " " + w])
        return rng.choice([w, w.encode()])
    n = rng.choice([0, 1, 1, 2, 3])
    items = [gen_source(rng) if rng.random() < 0.3 else rng.choice([1, "1", 1.5, "a", True, None, b"x", ("k", 1)]) for _ in range(n)]
    sp = rng.randrange(7)
    if sp in (2, 3):
        # sets iterate in hash order: keep only value-hashed primitives so both runs see the same order
        prim = (int, float, str, bytes, bool, type(None), Decimal)
        items = [x for x in items if isinstance(x, prim) or (isinstance(x, tuple) and all(isinstance(y, prim) for y in x))]
    try:
        if sp == 0:
            return items
        if sp == 1:
            return tuple(items)
        if sp == 2:
            return set(items)
        if sp == 3:
            return frozenset(items)
        if sp == 4:
            return {str(i): x for i, x in enumerate(items)}
        if sp == 5:
            return deque(items)
        return {str(i): x for i, x in enumerate(items)}.values()
    except TypeError:
        return items


def make_case(i, rng, tier):
    tg = _targets()
    npool = len(tg) * len(V.POOL)
    if i < npool:
        t = tg[i // len(V.POOL)]
        name, fac, _ = V.POOL[i % len(V.POOL)]
        return {"target": t, "src": name, "fac": fac, "collect": i % 5 == 4}
    if rng.random() < 0.02:
        order = rng.sample(["fn_kwargs", "cls", "cls2", "fn_plain"], rng.choice([2, 3, 4]))
        if "fn_kwargs" not in order:
            order[rng.randrange(len(order))] = "fn_kwargs"
        return {"preset": True, "order": order, "base": rng.choice(["Schema", "DataClass"]),
                "flags": rng.choice(["no_data_loss=True", "no_data_loss=True", "no_data_loss=True, no_explicit_cast=True", "no_explicit_cast=True"])}
    t = rng.choice(tg)
    st = rng.getstate()

    def fac():
        r2 = random.Random()
        r2.setstate(st)
        return gen_source(r2)

    return {"target": t, "src": "gen", "fac": fac, "collect": rng.random() < 0.2}


# ---- equality / classification -----------------------------------------------------------------
same = V.same_value


def src_groups(v):
    """set of documented primitive groups the source belongs to"""
    g = set()
    if v is None:
        return {"null"}
    if isinstance(v, bool):
        return {"boolean", "number"}
    if isinstance(v, (int, float, Decimal, Fraction, complex)):
        g.add("number")
        try:
            if v == 0 or v == 1:
                g.add("boolean")
        except Exception:
            pass
        return g
    if isinstance(v, (str, bytes, bytearray, memoryview)):
        return {"string"}
    if isinstance(v, cabc.Mapping):
        return {"object"}
    if isinstance(v, cabc.Iterable):
        return {"array"}
    return {"other:" + type(v).__name__}


def _text(v):
    if isinstance(v, str):
        return v
    if isinstance(v, (bytes, bytearray, memoryview)):
        try:
            return bytes(v).decode("utf-8")
        except UnicodeDecodeError:
            return None
    return None


def _sized_multi(v):
    if isinstance(v, (list, tuple, set, frozenset, deque, type({}.keys()), type({}.values()), type({}.items()))):
        try:
            return len(v)
        except Exception:
            return None
    return None


TRUE_W = {"1", "true", "yes", "on", "t", "y"}
FALSE_W = {"0", "false", "no", "off", "f"}
SCALAR_T = (type(None), bool, int, float, Decimal, str, bytes, bytearray, dt.date, dt.time, dt.timedelta, uuid.UUID, enum.Enum)


def promise_ndl(v, tname, t, r):
    """no_data_loss accepted v -> r for target t.  -> None | (key, text)"""
    n = _sized_multi(v)
    if n is not None and n > 1 and isinstance(t, type) and issubclass(t, SCALAR_T):
        if isinstance(r, enum.Enum):
            # the collection IS a member's value: Enum lookup is by equality ((True, 2.0) == (1, 2)), nothing is collapsed
            try:
                if same(r.value, v) or r.value == v:
                    return None
            except Exception:
                pass
        if isinstance(r, (str, bytes, bytearray)) and (r == str(v) or r == str(v).encode()):
            return None
        return ("collection-collapsed-to-scalar", f"{n}-element {type(v).__name__} became the scalar {short(r, 60)}")
    if isinstance(t, type) and issubclass(t, int) and not issubclass(t, (bool, enum.Enum)):
        if isinstance(v, (int, float, Decimal, Fraction)) and not isinstance(v, bool):
            try:
                if isinstance(v, (float, Decimal)) and not (v == v and abs(v) != float("inf")):
                    return ("int-from-non-finite", f"non-finite {v!r} became int {r!r}")
                if Fraction(v) != int(r):
                    return ("int-value-not-preserved", f"number {short(v, 60)} became int {short(r, 60)}")
            except (ValueError, OverflowError):
                return None
        tx = _text(v)
        if tx is not None:
            try:
                d = Decimal(tx.strip())
            except Exception:
                d = None
            if d is not None:
                if not d.is_finite():
                    return ("int-from-non-finite", f"text {tx!r:.40} became int {short(r, 40)}")
                if Fraction(d) != int(r):
                    return ("int-value-not-preserved", f"numeric text {tx!r:.40} became int {short(r, 40)}")
    if t is bool:
        ok = None
        if isinstance(v, bool):
            ok = r is v
        elif isinstance(v, (int, float, Decimal, Fraction, complex)):
            ok = (v == 1 and r is True) or (v == 0 and r is False)
        else:
            tx = _text(v)
            if tx is not None:
                w = tx.strip().lower()
                ok = (w in TRUE_W and r is True) or (w in FALSE_W and r is False)
            else:
                n1 = _sized_multi(v)
                if n1 == 1:
                    return None  # single-element unwrap is documented (querystring lists)
                ok = False
        if not ok:
            return ("bool-from-ambiguous", f"{short(v, 60)} ({type(v).__name__}) became {r!r}")
    if isinstance(t, type) and issubclass(t, str) and not issubclass(t, enum.Enum) and isinstance(v, (bytes, bytearray, memoryview)):
        try:
            exp = bytes(v).decode("utf-8")
        except UnicodeDecodeError:
            return ("bytes-decoded-loosely", f"undecodable {short(v, 40)} became {short(r, 40)}")
        if r != exp:
            return ("bytes-decoded-loosely", f"{short(v, 40)} became {short(r, 40)} != strict decode")
    if t is dt.date:
        if isinstance(v, dt.datetime):
            return ("date-from-datetime", f"datetime {v!r} became date {r!r}")
        tx = _text(v)
        if tx is not None:
            try:
                p = dt.datetime.fromisoformat(tx.strip())
            except Exception:
                p = None
            if p is not None and p.time().replace(tzinfo=None) != dt.time(0, 0):
                return ("date-from-timed-text", f"text {tx!r:.40} with a time part became date {r!r}")
    return None


def _stage_prediction(t, v, fl):
    """(accepted, value) the documented union stage order yields for flags fl, from arguments evaluated alone"""
    from utype import Options, type_transform

    ndl, ncast = bool(fl.get("no_data_loss")), bool(fl.get("no_explicit_cast"))
    stages = []
    if not (ndl and ncast):
        stages.append(dict(fl, no_data_loss=True, no_explicit_cast=True))
    if not ndl and not ncast:
        stages.append(dict(fl, no_data_loss=True))
    stages.append(dict(fl))
    try:
        comb = t if getattr(t, "combinator", None) else t.resolve_combined_origin()
        if comb is None or comb.combinator != "|":
            return None
        for st in stages:
            for a in comb.args:
                o = run(lambda: type_transform(v, a, options=Options(**st)))
                if o.ok:
                    return True, o.value
    except Exception:
        return None
    return False, None


def mechanism(tname, t, group, v, o, base, fl=None):
    """narrow structural keys for the listed findings (a); None = not one of them"""
    if base.ok and same(o.value, base.value):
        return None
    if isinstance(t, type) and issubclass(t, enum.Enum) and isinstance(v, str) and v in t.__members__ \
            and any(m.value == v and m.name != v for m in t):
        return "C12/agreement/enum-input-is-a-member-name-and-another-members-value"
    if tname.startswith("Union[") and base.ok and type(o.value) is not type(base.value) and fl is not None:
        # listed finding = the documented stage order itself (strict -> no-loss -> as given) makes the flagged
        # and the default run pick different arguments.  Only when the flagged result IS what the stage order
        # predicts from the arguments evaluated alone; anything else is a new violation.
        pred = _stage_prediction(t, v, fl)
        if pred is not None and pred[0] and same(pred[1], o.value):
            return "C12/agreement/union-stages-pick-a-different-argument"
    if _sized_multi(v) == 1 and isinstance(list(v)[0], cabc.Mapping) and len(list(v)[0]) == 2 \
            and (group in ("object", "rule:schema") or t is cabc.Mapping):
        return "C12/dict-from-list-of-one-two-key-mapping"
    if t is dt.timedelta and base.ok:
        tx = _text(v)
        if tx is not None and "." in tx:
            import math
            try:
                f = float(tx)
            except ValueError:
                return None
            # regex path = exact decimal truncated to us; float path = binary float rounded to us
            tol = max(1, math.ceil(math.ulp(f) * 1e6) + 1)
            if abs(o.value - base.value) <= dt.timedelta(microseconds=tol):
                return "C12/agreement/timedelta-numeric-text-submicrosecond-rounding"
    return None


PRESET_SRC = """
import utype
from utype import Schema, DataClass, Options
PRESET = Options({flags})
{first}
{second}
"""
PRESET_PARTS = {
    "fn_kwargs": "@utype.parse(options=PRESET)\ndef fn(a: int, **extra: int):\n    return a, extra\n",
    "fn_plain": "@utype.parse(options=PRESET)\ndef fn2(a: int, b: str = ''):\n    return a, b\n",
    "cls": "class S({base}):\n    __options__ = PRESET\n    a: int = 0\n",
    "cls2": "class S2({base}):\n    __options__ = PRESET\n    b: str = ''\n    def helper(self):\n        return 1\n",
}


def run_preset(case, ctx):
    """one Options object with strict flags shared by several declarations (the documented way to keep a preset): every
    declaration keeps the promises of the flags, whatever else was declared with the same object before or after"""
    from utype import Options
    parts = [PRESET_PARTS[k].format(base=case["base"]) for k in case["order"]]
    src = PRESET_SRC.format(flags=case["flags"], first=parts[0], second="\n".join(parts[1:]))
    ns = {}
    o = run(lambda: exec(src, ns))
    ctx.count("calls")
    ctx.count("shared_preset_scenarios")
    sig = ("preset", case["flags"], tuple(case["order"]), case["base"])
    if not o.ok:
        ctx.violation("C12/preset/declaration-fails", f"declarations sharing Options({case['flags']}) in order {case['order']}: {o!r}", {"source": src}, sig=sig)
        return
    try:
        fresh = eval("Options(" + case["flags"] + ")", {"Options": Options})
        if repr(ns["PRESET"]) != repr(fresh):
            ctx.violation("C12/preset/the-options-object-given-to-a-declaration-was-modified",
                          f"Options({case['flags']}) shared by {case['order']} now reads {ns['PRESET']!r}", {"source": src}, sig=sig)
            return
        for cname, data in (("S", {"a": 1, "zz": 2}), ("S2", {"b": "x", "zz": 2}), ("S2", {"b": "x", "helper": 5})):
            if cname not in ns:
                continue
            r = run(lambda: dict(ns[cname].__from__(dict(data))) if case["base"] == "Schema" else dict(ns[cname].__from__(dict(data)).__dict__))
            ctx.count("calls")
            if "no_data_loss=True" in case["flags"] and r.ok:
                ctx.violation("C12/promise/no_data_loss/unknown-key-dropped-silently",
                              f"class {cname} declared with a shared Options({case['flags']}) (other declarations with the same object: {case['order']}): "
                              f"{data} -> {r!r}; no_data_loss promises that an unknown key is rejected", {"source": src, "input": data, "observed": repr(r)}, sig=sig)
                return
        ctx.held(sig)
    finally:
        from utype.parser import base as pbase
        for v in ns.values():
            try:
                pbase.__parsers__.pop(v, None)
            except Exception:
                pass


def run_case(case, ctx):
    from utype import Options, type_transform

    if case.get("preset"):
        return run_preset(case, ctx)
    tname, t, group = case["target"]
    fac = case["fac"]
    steps = _state["steps"]
    outs = {}
    vals = {}
    for fname, fl in FLAGS:
        try:
            v = fac()
        except Exception:
            ctx.count("input_factory_failed")
            return
        vals[fname] = v
        # (error collection changes reporting only: the promises of the flags hold with it as without it)
        opts = Options(**dict(fl, collect_errors=True)) if case.get("collect") else Options(**fl)
        if group == "rule:schema":
            # runtime options reach a data class through __from__ (a class keeps its own options under type_transform)
            thunk = lambda: t.__from__(v, options=opts)
        else:
            thunk = lambda: type_transform(v, t, options=opts)
        outs[fname] = run(thunk, steps=steps, limit=STEP_LIMIT if steps else None)
        ctx.count("calls")
        if outs[fname].kind == "steps":
            ctx.inconclusive_case("step budget exhausted")
            return
    v = vals["none"]
    vr = short(v, 100)
    vclass = type(v).__name__
    base = outs["none"]
    wit = {"target": tname, "source": case["src"], "value": vr, "outcomes": {k: repr(o) for k, o in outs.items()}}
    decided = False
    # (a) subset + agreement
    for fname in ("ncast", "ndl", "both"):
        o = outs[fname]
        if not o.ok:
            continue
        decided = True
        sig = (tname, vclass, fname, "a")
        mech = mechanism(tname, t, group, v, o, base, dict(FLAGS)[fname])
        if mech:
            ctx.violation(mech, f"{tname} <- {vr} ({vclass}): {fname} -> {o!r}; default -> {base!r}", wit, sig=sig)
        elif not base.ok:
            ctx.violation(f"C12/subset/{fname}-accepts-default-rejects/{tname}",
                          f"{tname} <- {vr} ({vclass}): converts under {fname} ({o!r}) but fails without the flags ({base!r})", wit, sig=sig)
        elif not same(o.value, base.value):
            ctx.violation(f"C12/agreement/{fname}-vs-default/{tname}",
                          f"{tname} <- {vr} ({vclass}): {fname} gives {short(o.value, 60)} ({type(o.value).__name__}), default gives "
                          f"{short(base.value, 60)} ({type(base.value).__name__})", wit, sig=sig)
        else:
            ctx.held(sig)
    # (b) no_data_loss promises
    for fname in ("ndl", "both"):
        o = outs[fname]
        if not o.ok:
            continue
        vv = vals[fname]
        sig = (tname, vclass, fname, "b")
        if group == "rule:tuple2":
            n = _sized_multi(vv)
            if n is not None and n > 2 and not isinstance(vv, (set, frozenset)):
                ctx.violation("C12/ndl/tuple-extra-items-accepted", f"Tuple[int,str] <- {vr}: extra items accepted under {fname}: {o!r}", wit, sig=sig)
            else:
                ctx.held(sig)
            continue
        if group == "rule:schema":
            if isinstance(vv, cabc.Mapping) and any(k not in ("a", "b") for k in vv):
                ctx.violation("C12/ndl/unknown-keys-accepted", f"Schema(a,b) <- {vr}: unknown keys accepted under {fname}: {o!r}", wit, sig=sig)
            else:
                ctx.held(sig)
            continue
        try:
            p = promise_ndl(vv, tname, t, o.value)
        except Exception as e:
            ctx.skip("oracle_error:" + type(e).__name__)
            continue
        if p:
            ctx.violation(f"C12/ndl/{p[0]}/{tname}", f"{tname} <- {vr} under {fname}: {p[1]}", wit, sig=sig)
        else:
            ctx.held(sig)
    # (c) no_explicit_cast groups
    if group in ("null", "boolean", "number", "string", "array", "object", "temporal"):
        for fname in ("ncast", "both"):
            o = outs[fname]
            if not o.ok:
                continue
            vv = vals[fname]
            sig = (tname, vclass, fname, "c")
            if isinstance(vv, t):
                ctx.held(sig)
                continue
            sg = src_groups(vv)
            if group == "temporal":
                ok = bool(sg & {"string", "number"}) or isinstance(vv, (dt.date, dt.time, dt.timedelta))
            elif t is Decimal:
                ok = bool(sg & {"number", "string"})
            else:
                ok = group in sg
            if ok:
                ctx.held(sig)
            else:
                ctx.violation(f"C12/ncast/cross-group/{'+'.join(sorted(sg))}->{group}/{tname}",
                              f"{tname} <- {vr} ({vclass}, group {sorted(sg)}) converted under {fname} to {short(o.value, 60)}: crosses primitive groups",
                              wit, sig=sig)
    if not decided:
        ctx.trivial("no restricted run accepted")
    elif ctx.want_sample() and case["src"] not in ("0", "1"):
        ctx.sample(wit)


def conclusive(m, tier):
    if m["counters"].get("calls", 0) == 0:
        return "no conversion executed"
    return None
