"""C05 — data-class parsing implements the declared field contract.

Model-vs-implementation monitor: a reference model of the documented field rules
(vmon/oracles/field_model.py, written from the docs) predicts either the two views of the
instance or the set of failure kinds; the real parse (each lookup strategy) must agree."""
from .. import declspec as D
from .. import values as V
from ..execu import run
from ..oracles import field_model as FM
from ..runner import short
from .c06 import views

ID = "C05"
N = {"quick": 30000, "thorough": 300000}
TIME_BUDGET = {"quick": 45, "thorough": 480}
MIN_NONTRIVIAL = {"quick": 300, "thorough": 3000}
RULE = ("cases = generated declaration over the full Field parameter space (as C06: required incl. mode strings, default / "
        "default_factory / defer_default, alias, alias_from, case_insensitive, no_input / no_output as bool, mode string or callable, "
        "mode / readonly / writeonly, dependencies, on_error; class Options mode, case_insensitive, addition None/True/False/int, "
        "ignore_required, no_default, force_default, defer_default, ignore_alias_conflicts, min/max_params, invalid_values; Schema, "
        "and DataClass bases) x 6 input mappings (absent / any accepted spelling / wrong-case spelling / two equal "
        "spellings; valid, convertible, invalid values; unknown keys) x the three strategy settings (auto, data-first, field-first). "
        "The model predicts key view + attribute view or the set of failure kinds. Non-trivial = the model decided the case and the "
        "declaration or input uses at least one non-default feature; distinct = (declaration shape, input plan, strategy, outcome).")
ASSUMPTIONS = [
    "the model (vmon/oracles/field_model.py, ~200 lines) is the trusted reference; it encodes docs/en/references/field.md + options.md and says 'skip' where they are silent (different values under several spellings, required + value-dependent no_input, force_default with a missing required field, underscore / parameter-like unknown keys)",
    "leaf conversion (int / str / List[int] / Optional[int]) is taken from the library on the bare type: what is judged is which value lands where, not the conversion",
    "under fail-fast the real failure kind must be a member of the model's failure set (which failing item is met first is not specified)",
]
_conv = {}


def n_cases(tier):
    return N[tier]


def make_case(i, rng, tier):
    decl = D.gen_decl(rng, base=rng.choice(["Schema", "Schema", "DataClass"]))  # the statement is about data classes
    # how the class options are written: an Options(...) instance, or the class form (also derived from a shared Options subclass)
    decl["options_form"] = rng.choice([None, None, None, "class", "class-inherit"]) if decl["options"] else None
    sub_after = rng.choice([None, None, None, {"case_insensitive": True}, {"case_insensitive": True, "ignore_required": True}, {"addition": True, "no_default": True}])
    inputs = [D.gen_input(rng, decl) for _ in range(6)]
    return {"decl": decl, "inputs": inputs, "sub_after": sub_after}


# options about defaults / requiredness that are documented as usable per call
RUNTIME_KEYS = ("defer_default", "no_default", "force_default", "ignore_required")


def convert(tname, v):
    from utype import Rule, type_transform

    if tname not in _conv:
        _conv[tname] = Rule.parse_annotation(D.type_info(tname)[0])
    o = run(lambda: type_transform(v, _conv[tname]))
    return ("ok", o.value) if o.ok else ("bad",)


def run_case(case, ctx):
    decl = case["decl"]
    built = {}
    try:
        try:
            for s in (None, True, False):
                built[s] = D.build(decl, {} if s is None else {"data_first_search": s})
            rt_keys = [k for k in RUNTIME_KEYS if k in decl["options"]]
            if rt_keys and decl["base"] != "function":
                # the same rules given at RUNTIME: the class is declared without them, __from__ receives the full options
                built["rt"] = D.build(dict(decl, options={k: v for k, v in decl["options"].items() if k not in RUNTIME_KEYS}))
        except Exception as e:
            ctx.count("declaration_rejected:" + type(e).__name__)
            return
        if case.get("sub_after") and decl["base"] != "function":
            # a subclass with OTHER options is declared before the class is used: the class itself keeps its contract
            from utype import Options
            for s, T in list(built.items()):
                try:
                    sub = type(T)("SubOf" + T.__name__, (T,), {"__module__": "vmon_generated", "__qualname__": "SubOf" + T.__name__,
                                                               "__options__": Options(**case["sub_after"])})
                    built[("sub", s)] = sub
                    ctx.count("subclass_with_other_options_declared_first")
                except Exception as e:
                    ctx.count("subclass_declaration_rejected:" + type(e).__name__)
        shp = D.shape(decl)
        fnames = {f["name"] for f in decl["fields"]}
        for pairs, plan in case["inputs"]:
            data = D.to_mapping(pairs)
            m = FM.model(decl, decl["options"], dict(data), convert)
            if m[0] == "skip":
                ctx.skip("model:" + m[1][:50])
                continue
            for s in (None, True, False, "rt"):
                if s not in built:
                    continue
                T = built[s]

                def thunk():
                    if decl["base"] == "function":
                        return (None, T(**data), None)
                    inst = T.__from__(dict(data), options=D.make_options(decl["options"])) if s == "rt" else T.__from__(dict(data))
                    kv, av = views(inst, decl)
                    extras = None
                    if decl["base"] == "DataClass":
                        extras = {k: v for k, v in av.items() if k not in fnames}
                        av = {k: v for k, v in av.items() if k in fnames}
                    return (kv, av, extras)

                out = run(thunk)
                ctx.count("parses")
                if out.kind == "escape":
                    ctx.count("escape_left_to_C04")
                    continue
                strat = {None: "auto", True: "data-first", False: "field-first", "rt": "auto, options given to __from__ at runtime"}[s]
                wit = {"declaration": D.describe(decl), "input": short(data, 300), "strategy": strat, "model": short(m, 300), "observed": repr(out)}
                sig = (shp, tuple(sorted((k, str(v)) for k, v in plan.items())), s, m[0], out.ok)
                plain = not decl["options"] and all(not D._needs_field_obj(f) for f in decl["fields"]) and all(p == "absent" or p[1][0] in fnames for p in plan.values())
                if m[0] == "fail":
                    if out.ok:
                        ctx.violation("C05/accepted-but-contract-says-" + "+".join(sorted(m[1])),
                                      f"{D.describe(decl)} input={short(data, 160)} [{strat}]: accepted {short(out.value, 120)}; the documented rules give {sorted(m[1])}", wit, sig=sig)
                        continue
                    kind = FM.KIND.get(type(out.exc).__name__, type(out.exc).__name__)
                    if kind == "collected":
                        ctx.skip("collected error under fail-fast")
                        continue
                    if kind not in m[1]:
                        ctx.violation(f"C05/wrong-failure-kind/{kind}-instead-of-" + "+".join(sorted(m[1])),
                                      f"{D.describe(decl)} input={short(data, 160)} [{strat}]: {out!r}; the documented rules give {sorted(m[1])}", wit, sig=sig)
                        continue
                    ctx.held(sig)
                    continue
                # model accepts
                if not out.ok:
                    kind = FM.KIND.get(type(out.exc).__name__, type(out.exc).__name__)
                    ctx.violation(f"C05/rejected-with-{kind}-but-contract-accepts", f"{D.describe(decl)} input={short(data, 160)} [{strat}]: {out!r}; expected "
                                  f"{short(m[1:], 160)}", wit, sig=sig)
                    continue
                kv, av, extras = out.value
                _, mkv, mav, mextra = m
                diff = None
                if decl["base"] == "function":
                    if not V.approx_eq(av, mav):
                        diff = ("body-binding", av, mav)
                else:
                    if kv is not None and not V.approx_eq(kv, mkv):
                        diff = ("key-view", kv, mkv)
                    elif not V.approx_eq(av, mav):
                        diff = ("attribute-view", av, mav)
                    elif extras is not None and not V.approx_eq(extras, mextra):
                        diff = ("extra-keys", extras, mextra)
                if diff:
                    what = _what(decl, diff)
                    ctx.violation(f"C05/{diff[0]}-differs/{what}", f"{D.describe(decl)} input={short(data, 160)} [{strat}]: {diff[0]} {short(diff[1], 120)} != documented "
                                  f"{short(diff[2], 120)}", wit, sig=sig)
                    continue
                # fresh copy of mutable defaults
                shared = None
                for f in decl["fields"]:
                    if f["type"] == "listint" and f["default"] is not D.NODEF and f["name"] in av and av[f["name"]] is f["default"]:
                        shared = f["name"]
                if shared:
                    ctx.violation("C05/default-not-copied", f"{D.describe(decl)} input={short(data, 160)} [{strat}]: field {shared} holds the declared default object itself", wit, sig=sig)
                    continue
                if plain:
                    ctx.trivial("plain declaration and input")
                else:
                    ctx.held(sig)
                    if ctx.want_sample() and len(decl["fields"]) > 1:
                        ctx.sample(wit)
    finally:
        for t in built.values():
            D.drop(t)


def _what(decl, diff):
    """which field / feature the first differing entry belongs to (structural)"""
    a, b = diff[1] or {}, diff[2] or {}
    for k in sorted(set(a) | set(b), key=str):
        if k not in a or k not in b or not V.approx_eq(a[k], b[k]):
            f = next((x for x in decl["fields"] if k in (x["name"], x["alias"])), None)
            if f is None:
                return "unknown-key"
            feats = [n for n in ("no_input", "no_output", "mode", "readonly", "writeonly", "defer_default", "on_error", "alias", "case_insensitive")
                     if f[n] not in (None, False)]
            side = "missing" if k not in a else "unexpected" if k not in b else "value"
            return side + "/" + ("+".join(feats[:2]) or "plain-field")
    return "?"


def conclusive(m, tier):
    c = m["counters"]
    if c.get("parses", 0) == 0:
        return "no parse executed"
    sk = sum(v for k, v in c.items() if k.startswith("skipped:model"))
    if sk > 4 * max(1, m["evaluations"]):
        return f"the model skipped most cases ({sk} skips vs {m['evaluations']} decided)"
    return None
