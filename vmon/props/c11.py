"""C11 — exclude/preserve policies touch only the offending elements.

Metamorphic monitor: result under a policy triple == the strict ('throw') conversion of every
non-offending element, with the offending ones removed (exclude) or put back unchanged (preserve);
'offending' is decided per element by a singleton probe of the element type under 'throw'."""
import datetime as dt
from fractions import Fraction
import typing
from collections import deque

from .. import GENERATED
from .. import values as V
from ..execu import run
from ..runner import short

ID = "C11"
N = {"quick": 40000, "thorough": 250000}
TIME_BUDGET = {"quick": 45, "thorough": 480}
MIN_NONTRIVIAL = {"quick": 300, "thorough": 3000}
RULE = ("cases = a container or data-class type (List/Set/FrozenSet/Deque/Tuple[T,...]/Tuple[T1,T2]/Dict[K,V] over element types int, "
        "int>=0 (a Rule), str(max_length 2), float, date, Optional[int], nested one level: List[List[int]], Dict[str,List[int]], "
        "List[Dict[str,int]], Tuple[List[int],...]; Schema/DataClass with 1-4 fields (required / default, per-field on_error, "
        "typed addition, Field(dependencies=...) between the fields, Field(required='w'/'r'/'rw', default=...) under Options(mode=...); 4%: a field holding Union[A, B] of data classes chosen by Field(discriminator=...), "
        "given fine / bad-content / unmatched-tag / non-mapping / JSON-text members); def f(*args: T)) x one of the 27 (invalid_items, invalid_keys, invalid_values) triples x 6 inputs with "
        "every subset of <=3 bad positions (first, middle, last, all, none) in list / tuple / set / deque input shapes. Expected "
        "result is rebuilt from per-element probes. Non-trivial = at least one element is offending and a non-throw policy governs "
        "it; distinct = (type shape, policy triple, offending pattern).")
ASSUMPTIONS = [
    "an element is offending iff its element type rejects it on its own under the default 'throw' policy (probe through the library); a nested container that succeeds after applying the policy to its own elements is not offending",
    "Tuple[T1,T2]: exclusion of a positional item is undefined -> must reject; missing items reject; extra items are dropped (addition None)",
    "preserving an unhashable raw element into a set/frozenset or as a dict key cannot be represented: such cases are skipped",
    "nested data classes inside containers are not generated here (a nested class keeps its own Options by design)",
]
POL = ["throw", "exclude", "preserve"]

GOOD = {
    "int": [1, "2", 3.0, 0, "-7", b"5"], "posint": [1, "2", 0, 30.0], "str2": ["a", "ab", 5, b"x", ""], "float": [1.5, "2.5", 3, "1e2"],
    "date": ["2020-01-02", dt.date(2021, 3, 4), "2020/05/06"], "optint": [None, 4, "5", "null"],
}
BAD = {
    "int": ["x", [1, 2], {}, "1.5x", object], "posint": [-1, "-2", "x", [1, 2]], "str2": ["abc", "abcd", 123, [1, 2]], "float": ["x", [1, 2], {}, "1,5"],
    "date": ["x", "2020-13-45", [1, 2], {}], "optint": ["x", [1, 2], {}, "nul"],
}
LEAVES = list(GOOD)
_T = {}
_PT = {}


def leaf_type(name):
    if not _T:
        from utype import Rule

        _T.update({"int": int, "posint": Rule.annotate(int, constraints={"ge": 0}), "str2": Rule.annotate(str, constraints={"max_length": 2}),
                   "float": float, "date": dt.date, "optint": typing.Optional[int]})
    return _T[name]


def annotation(spec):
    k = spec[0]
    if k == "leaf":
        return leaf_type(spec[1])
    a = [annotation(s) for s in spec[1:]]
    if k == "list":
        return typing.List[a[0]]
    if k == "set":
        return typing.Set[a[0]]
    if k == "frozenset":
        return typing.FrozenSet[a[0]]
    if k == "deque":
        return typing.Deque[a[0]]
    if k == "tuplevar":
        return typing.Tuple[a[0], ...]
    if k == "tuple2":
        return typing.Tuple[a[0], a[1]]
    if k == "dict":
        return typing.Dict[a[0], a[1]]
    raise ValueError(spec)


def n_cases(tier):
    return N[tier]


def gen_leaf(rng, hashable=False):
    return ("leaf", rng.choice(["int", "posint", "str2", "date"] if hashable else LEAVES))


def gen_container(rng, depth=1):
    k = rng.choice(["list", "list", "set", "frozenset", "deque", "tuplevar", "tuple2", "dict", "dict"])
    def elem(hashable=False):
        if depth > 0 and not hashable and rng.random() < 0.3:
            return gen_container(rng, depth - 1)
        return gen_leaf(rng, hashable)
    if k in ("set", "frozenset"):
        return (k, elem(True))
    if k == "dict":
        return (k, gen_leaf(rng, True), elem())
    if k == "tuple2":
        return (k, elem(), elem())
    return (k, elem())


def gen_value(rng, spec, bad=False, depth=0):
    """a raw value aimed at spec; bad=True -> an element the spec's type should reject on its own"""
    k = spec[0]
    if k == "leaf":
        return rng.choice(BAD[spec[1]] if bad else GOOD[spec[1]])
    if bad:
        # an offending container = a non-container scalar that cannot become one, or (under throw) one with a bad element
        return rng.choice([5, "zz", None]) if k != "dict" else rng.choice([5, "zz", [1]])
    if k == "dict":
        n = rng.choice([0, 1, 2, 3])
        d = {}
        pattern = gen_pattern(rng, n)
        for i in range(n):
            kb = pattern[i] == "k"
            vb = pattern[i] == "v"
            try:
                d[_hashable(gen_value(rng, spec[1], kb, depth + 1), i)] = gen_value(rng, spec[2], vb, depth + 1)
            except TypeError:
                pass
        if d and rng.random() < 0.3:
            # a second raw key that converts to the same key as an earlier one ("1" after 1): the later entry is good or offending
            for kk in list(d):
                twin = _twin_key(kk)
                if twin is not None and twin not in d:
                    d[twin] = gen_value(rng, spec[2], rng.random() < 0.6, depth + 1)
                    break
        return d
    if k == "tuple2":
        n = rng.choice([2, 2, 2, 2, 1, 3])
        pattern = gen_pattern(rng, n)
        items = [gen_value(rng, spec[1 + min(i, 1)], pattern[i] != ".", depth + 1) for i in range(n)]
        return rng.choice([tuple, list])(items)
    n = rng.choice([0, 1, 2, 3, 4, 5])
    if depth == 0 and rng.random() < 0.08:
        n = rng.randint(32, 40)    # a bulk array (repeated placeholders, equal values of different types)
    pattern = gen_pattern(rng, n) if n <= 5 else "".join(rng.choice("....x") for _ in range(n))
    items = [gen_value(rng, spec[1], pattern[i] != ".", depth + 1) for i in range(n)]
    if n > 5 and spec[1][0] == "leaf":
        # an offending item followed by items that are == to it but of another type (Fraction(7), 7, 7.0 / True, 1)
        at = rng.randint(0, n - 4)
        items[at:at + 4] = rng.choice([[Fraction(7), 7, 7.0, "7"], [Fraction(7), 7.0, 7, Fraction(7)], [True, 1, 1.0, "1"], ["x", "x", "x", 3]])
    # deque is not array-like for the converters (a deque given for a List becomes [deque]): only for deque targets
    shape = rng.choice(["list", "list", "tuple", "deque" if k == "deque" else "list", "set"])
    try:
        if shape == "set":
            return set(items)
    except TypeError:
        pass
    return {"list": list, "tuple": tuple, "deque": deque, "set": list}[shape](items)


def _twin_key(k):
    """another raw spelling that the key types used here convert to the same key"""
    if isinstance(k, bool):
        return None
    if isinstance(k, int):
        return str(k)
    if isinstance(k, float) and k == int(k):
        return int(k)
    if isinstance(k, str) and k.lstrip("-").isdigit():
        return int(k)
    if isinstance(k, dt.date) and not isinstance(k, dt.datetime):
        return k.isoformat()
    if isinstance(k, bytes):
        try:
            return k.decode()
        except Exception:
            return None
    return None


def _hashable(v, i):
    try:
        hash(v)
        return v
    except TypeError:
        return "unhashable%d" % i


def gen_pattern(rng, n):
    """n chars: '.' good, 'x'/'k'/'v' bad (k/v only matter for dict pairs)"""
    if n == 0:
        return ""
    r = rng.random()
    p = ["."] * n
    if r < 0.2:
        return "".join(p)
    if r < 0.3:
        return "".join(rng.choice("kvx") for _ in range(n))
    pos = set()
    for w in rng.sample(["first", "middle", "last"], rng.choice([1, 1, 2, 3])):
        pos.add({"first": 0, "middle": n // 2, "last": n - 1}[w])
    for i in pos:
        p[i] = rng.choice("kvx")
    return "".join(p)


DISC_SRC = """
from typing import Literal, Union
import utype
from utype import Schema, DataClass, Field, Options
class A({base}):
    kind: Literal['a']
    x: int
class B({base}):
    kind: Literal['b'] = Field(alias_from=['k'])
    y: str = ''
class H({base}):
    __options__ = OPTS
    item: Union[A, B] = Field(discriminator='kind', required=False{field_kw})
    n: int = 0
"""


PROPSET_SRC = """
from typing import List
import utype
from utype import Schema, Field, Options
class Order(Schema):
    __options__ = OPTS
    name: str
    tags: List[int] = Field(default_factory=list)
    _total = 0
    @property
    @Field({getter_kw})
    def total(self) -> int:
        return self._total
    @total.setter
    def total(self, value: int = Field({setter_kw}default=0)):
        self._total = value
"""


def run_propset(case, ctx, O):
    """a property field takes its INPUT through the setter: the policy declared there (or invalid_values) governs an offending input,
    whatever the getter's Field says about the OUTPUT conversion"""
    pol = case["pol"]
    sp, gp = case["setter"], case["getter"]
    gk = []
    if gp:
        gk.append(f"on_error={gp!r}")
    if gp == "exclude":
        gk.append("required=False")
    sk = f"on_error={sp!r}, " if sp else ""
    ns = {"OPTS": O()}
    try:
        exec(PROPSET_SRC.format(getter_kw=", ".join(gk), setter_kw=sk), ns)
    except Exception as e:
        ctx.count("declaration_rejected:" + type(e).__name__)
        return
    Order = ns["Order"]
    ctx.count("property_setter_policy_cases")
    eff = sp or pol[2]
    try:
        for total in case["inputs"]:
            d = {"name": "a", "tags": [1], "total": total}
            good = isinstance(total, int) and not isinstance(total, bool) or (isinstance(total, str) and total.lstrip("-").isdigit())
            stats = {"offending": 0 if good else 1, "governed": 0 if good or eff == "throw" else 1}
            if good:
                exp = ("ok", {"name": "a", "tags": [1], "total": int(total)})
            elif eff == "throw":
                exp = ("reject", None)
            elif eff == "exclude":
                exp = ("ok", {"name": "a", "tags": [1], "total": 0})
            else:
                if (gp or pol[2]) != "preserve":
                    ctx.skip("preserved input meets a getter whose output policy is not 'preserve' (outside this family)")
                    continue
                exp = ("ok", {"name": "a", "tags": [1], "total": total})
            out = run(lambda: dict(Order.__from__(dict(d))))
            shp = ("propset", sp, gp, type(total).__name__)
            judge(ctx, case, shp, pol, d, exp, out, stats)
    finally:
        _drop(Order)


def make_disc_case(rng, pol):
    """a field holding a union of data classes chosen by Field(discriminator=...): the field follows its policy like any other"""
    inputs = []
    for _ in range(6):
        member = rng.choice([{"kind": "a", "x": 1}, {"kind": "a", "x": "2"}, {"kind": "b", "y": "s"}, {"k": "b"},                 # fine
                             {"kind": "a", "x": "tall"}, {"kind": "a"},                                                       # valid tag, bad content
                             {"kind": "zz", "x": 1}, {"x": 1}, {"kind": None}, {"kind": ["a"]},                                   # tag matches no member
                             5, "text", None if False else [1, 2], '{"kind": "a", "x": "tall"}', '{"kind": "a", "x": 3}'])    # not a mapping / JSON text
        inputs.append({"item": member, "n": rng.choice([3, "4"])})
    return {"kind": "disc", "base": rng.choice(["Schema", "DataClass"]), "pol": pol, "on_error": rng.choice([None, None, "exclude", "preserve", "throw"]),
            "default": rng.random() < 0.3, "inputs": inputs}


def make_case(i, rng, tier):
    pol = (rng.choice(POL), rng.choice(POL), rng.choice(POL))
    if rng.random() < 0.04:
        return make_disc_case(rng, pol)
    if rng.random() < 0.02:
        return {"kind": "propset", "pol": pol, "setter": rng.choice([None, "exclude", "exclude", "preserve", "throw"]),
                "getter": rng.choice([None, "throw", "preserve", "exclude"]), "inputs": [rng.choice(["not-a-number", "7", 5, "1.5x", "x", "-3"]) for _ in range(5)]}
    r = rng.random()
    if r < 0.6:
        spec = gen_container(rng)
        return {"kind": "container", "spec": spec, "pol": pol, "inputs": [gen_value(rng, spec) for _ in range(6)],
                "route": rng.choice(["tt", "tt", "field"])}
    if r < 0.75:
        e = gen_leaf(rng) if rng.random() < 0.7 else gen_container(rng, 0)
        return {"kind": "args", "spec": e, "pol": pol,
                "inputs": [[gen_value(rng, e, c != ".") for c in gen_pattern(rng, rng.choice([0, 1, 2, 3, 4]))] for _ in range(6)]}
    n = rng.randint(1, 4)
    fields = []
    for j in range(n):
        fs = gen_leaf(rng) if rng.random() < 0.7 else gen_container(rng, 0)
        required = rng.random() < 0.5
        default = None if required else rng.choice(["<none>", "<none>", 0, "dflt"])
        on_error = rng.choice([None, None, None, "exclude", "preserve", "throw"])
        if required and on_error == "exclude":
            on_error = None
        fields.append(("f%d" % j, fs, required, default, on_error))
    addition = rng.choice([None, None, True, False, "int"])
    # a field that is required in some modes only (and keeps a default for the others), parsed under Options(mode=...)
    mode = rng.choice([None, None, "r", "w"])
    req_mode = {}
    for j, (name, fs, required, default, on_error) in enumerate(fields):
        if not required and default != "<none>" and rng.random() < 0.3:
            req_mode[name] = rng.choice(["w", "r", "rw"])
            if on_error == "exclude":
                # (Field rejects on_error='exclude' next to any required=...: the exclusion then comes from invalid_values)
                fields[j] = (name, fs, required, default, None)
    deps = {}
    if n > 1 and rng.random() < 0.35:
        # Field(dependencies=[...]): the field may only be given together with another one
        a, b = rng.sample(range(n), 2)
        deps["f%d" % a] = "f%d" % b
        if n > 2 and rng.random() < 0.3:
            c = rng.choice([j for j in range(n) if j not in (a, b)])
            deps["f%d" % b] = "f%d" % c
    inputs = []
    for _ in range(6):
        d = {}
        pat = gen_pattern(rng, n)
        for j, (name, fs, required, default, on_error) in enumerate(fields):
            if rng.random() < 0.15:
                continue
            d[name] = gen_value(rng, fs, pat[j] != ".")
        for _k in range(rng.choice([0, 0, 1, 2])):
            d[rng.choice(["extra", "zz"])] = rng.choice([1, "2", "x", [1, 2]])
        inputs.append(d)
    return {"kind": "dc", "base": rng.choice(["Schema", "Schema", "DataClass"]), "fields": fields, "addition": addition, "pol": pol, "inputs": inputs,
            "strategy": rng.choice([None, True, False]), "deps": deps, "mode": mode, "req_mode": req_mode}


# ---- the oracle -----------------------------------------------------------------------------------
class Reject(Exception):
    pass


class Unknown(Exception):
    pass


def probe_leaf(name, v):
    from utype import type_transform

    from utype import Rule

    if name not in _PT:
        _PT[name] = Rule.parse_annotation(leaf_type(name))
    o = run(lambda: type_transform(v, _PT[name]))
    if o.ok:
        return o.value
    raise Reject()


def _unhashable(e):
    try:
        hash(e)
        return False
    except Exception:
        return True


def expected(spec, x, pol, stats, addition=None):
    """value the statement prescribes for parsing x as spec under policy triple pol; raises Reject / Unknown"""
    k = spec[0]
    if k == "leaf":
        return probe_leaf(spec[1], x)
    if k in ("set", "frozenset") and isinstance(x, (list, tuple)) and any(_unhashable(e) for e in x):
        stats["set_from_raw"] = True
    items_p, keys_p, values_p = pol
    if k == "dict":
        if not isinstance(x, dict):
            raise Unknown("non-dict input for a mapping")
        out = {}
        for kk, vv in x.items():
            try:
                nk = expected(spec[1], kk, pol, stats, addition)
            except Reject:
                stats["offending"] += 1
                if keys_p == "throw":
                    raise
                stats["governed"] += 1
                if keys_p == "exclude":
                    continue
                nk = kk
            try:
                nv = expected(spec[2], vv, pol, stats, addition)
            except Reject:
                stats["offending"] += 1
                if values_p == "throw":
                    raise
                stats["governed"] += 1
                if values_p == "exclude":
                    continue
                nv = vv
            try:
                out[nk] = nv
            except TypeError:
                raise Unknown("unhashable preserved key")
        return out
    if not isinstance(x, (list, tuple, set, frozenset)) and not (k == "deque" and isinstance(x, deque)):
        raise Unknown("scalar input for a sequence type (outer conversion is not modelled)")
    if k == "tuple2":
        x = list(x)
        if len(x) < 2:
            raise Reject()
        out = []
        for i in range(2):
            try:
                out.append(expected(spec[1 + i], x[i], pol, stats, addition))
            except Reject:
                stats["offending"] += 1
                if items_p == "preserve":
                    stats["governed"] += 1
                    out.append(x[i])
                else:
                    if items_p == "exclude":
                        stats["governed"] += 1
                    raise  # exclusion of a positional item is undefined: must reject
        if len(x) > 2:
            # extra items follow the addition option of the surrounding options (None: dropped)
            if addition is False:
                raise Reject()
            if addition is True:
                out.extend(x[2:])
            elif addition == "int":
                for e in x[2:]:
                    try:
                        out.append(probe_leaf("int", e))
                    except Reject:
                        stats["offending"] += 1
                        if items_p == "preserve":
                            stats["governed"] += 1
                            out.append(e)
                        else:
                            raise
        return tuple(out)
    out = []
    for e in x:
        try:
            out.append(expected(spec[1], e, pol, stats, addition))
        except Reject:
            stats["offending"] += 1
            if items_p == "throw":
                raise
            stats["governed"] += 1
            if items_p == "preserve":
                out.append(e)
    try:
        return {"list": list, "set": set, "frozenset": frozenset, "deque": deque, "tuplevar": tuple}[k](out)
    except TypeError:
        raise Unknown("unhashable preserved element in a set")


def shape_of(spec):
    return spec if spec[0] == "leaf" else (spec[0],) + tuple(shape_of(s) for s in spec[1:])


def run_case(case, ctx):
    from utype import Options, Rule, Schema, type_transform
    import utype

    pol = case["pol"]
    O = lambda **kw: Options(invalid_items=pol[0], invalid_keys=pol[1], invalid_values=pol[2], **kw)
    if case["kind"] == "disc":
        return run_disc(case, ctx, O)
    if case["kind"] == "propset":
        return run_propset(case, ctx, O)
    if case["kind"] == "container":
        spec = case["spec"]
        T = Rule.parse_annotation(annotation(spec))
        S = None
        if case["route"] == "field":
            S = type(Schema)("S11", (Schema,), {"__annotations__": {"f": annotation(spec)}, "__module__": "vmon_generated", "__qualname__": "S11"})
        for x in case["inputs"]:
            stats = {"offending": 0, "governed": 0}
            try:
                exp = ("ok", expected(spec, x, pol, stats))
            except Reject:
                exp = ("reject", None)
            except Unknown as u:
                ctx.skip("unmodelled:" + str(u)[:40])
                continue
            if S is not None:
                out = run(lambda: dict(S.__from__({"f": x}, options=O())).get("f", "<absent>"))
                # the field itself follows invalid_values: an offending field value is excluded / preserved as a whole
                if exp[0] == "reject" and pol[2] != "throw":
                    exp = ("ok", "<absent>" if pol[2] == "exclude" else x) if False else exp
                    if pol[2] == "exclude":
                        # required field: must not be silently dropped
                        exp = ("reject", None)
                    else:
                        exp = ("ok", x)
            else:
                out = run(lambda: type_transform(x, T, options=O()))
            judge(ctx, case, shape_of(spec), pol, x, exp, out, stats)
        if S is not None:
            _drop(S)
        return
    if case["kind"] == "args":
        e = case["spec"]
        def fn(*args):
            return args
        fn.__annotations__ = {"args": annotation(e)}
        w = utype.parse(fn, options=O())
        for xs in case["inputs"]:
            stats = {"offending": 0, "governed": 0}
            try:
                outl = []
                for a in xs:
                    try:
                        outl.append(expected(e, a, pol, stats))
                    except Reject:
                        stats["offending"] += 1
                        if pol[0] == "throw":
                            raise
                        stats["governed"] += 1
                        if pol[0] == "preserve":
                            outl.append(a)
                exp = ("ok", tuple(outl))
            except Reject:
                exp = ("reject", None)
            except Unknown as u:
                ctx.skip("unmodelled:" + str(u)[:40])
                continue
            out = run(lambda: w(*xs))
            judge(ctx, case, ("args", shape_of(e)), pol, xs, exp, out, stats)
        return
    # data class
    fields = case["fields"]
    base = Schema if case["base"] == "Schema" else utype.DataClass
    opt_kw = {}
    if case["addition"] is not None:
        opt_kw["addition"] = int if case["addition"] == "int" else case["addition"]
    if case["strategy"] is not None:
        opt_kw["data_first_search"] = case["strategy"]
    if case.get("mode"):
        opt_kw["mode"] = case["mode"]
    req_mode = case.get("req_mode", {})
    in_mode = lambda name: bool(case.get("mode")) and name in req_mode and case["mode"] in req_mode[name]
    ns = {"__annotations__": {}, "__module__": "vmon_generated", "__qualname__": "D11", "__options__": O(**opt_kw)}
    for name, fs, required, default, on_error in fields:
        ns["__annotations__"][name] = annotation(fs)
        kw = {}
        if not required:
            kw["required"] = req_mode.get(name, False)
            if default != "<none>":
                kw["default"] = default
        if on_error:
            kw["on_error"] = on_error
        if case.get("deps", {}).get(name):
            kw["dependencies"] = [case["deps"][name]]
        if kw:
            ns[name] = utype.Field(**kw)
    try:
        cls = type(base)("D11", (base,), ns)
    except Exception as e:
        ctx.count("declaration_rejected:" + type(e).__name__)
        return
    try:
        for d in case["inputs"]:
            stats = {"offending": 0, "governed": 0}
            try:
                exp_d = {}
                given = set()
                for name, fs, required, default, on_error in fields:
                    required = required or in_mode(name)
                    if name not in d:
                        if required:
                            raise Reject()
                        if default != "<none>":
                            exp_d[name] = default
                        continue
                    try:
                        exp_d[name] = expected(fs, d[name], pol, stats, case["addition"])
                        given.add(name)
                    except Reject:
                        stats["offending"] += 1
                        p = on_error or pol[2]
                        if p == "throw":
                            raise
                        stats["governed"] += 1
                        if p == "preserve":
                            exp_d[name] = d[name]
                            given.add(name)
                        elif required:
                            raise Reject()  # a required field is never silently excluded
                        elif default != "<none>":
                            exp_d[name] = default
                for name in sorted(given):
                    # an excluded value is removed: it neither satisfies nor imposes a dependency
                    dep = case.get("deps", {}).get(name)
                    if dep and dep not in given:
                        stats["dependency_lacking"] = 1
                        raise Reject()
                known = {f[0] for f in fields}
                for k2, v2 in d.items():
                    if k2 in known:
                        continue
                    a = case["addition"]
                    if a is False:
                        raise Reject()
                    if a is True:
                        exp_d[k2] = v2
                    elif a == "int":
                        try:
                            exp_d[k2] = probe_leaf("int", v2)
                        except Reject:
                            stats["offending"] += 1
                            if pol[2] == "throw":
                                raise
                            stats["governed"] += 1
                            if pol[2] == "preserve":
                                exp_d[k2] = v2
                exp = ("ok", exp_d)
            except Reject:
                exp = ("reject", None)
            except Unknown as u:
                ctx.skip("unmodelled:" + str(u)[:40])
                continue

            def thunk():
                inst = cls.__from__(dict(d))
                if case["base"] == "Schema":
                    return dict(inst)
                return {k: v for k, v in inst.__dict__.items() if not k.startswith("__")}
            out = run(thunk)
            shp = ("dc", case["base"], tuple((shape_of(f[1]), f[2], f[3] != "<none>", f[4]) for f in fields), case["addition"], case["strategy"], tuple(sorted(case.get("deps", {}).items())),
                   case.get("mode"), tuple(sorted(req_mode.items())))
            judge(ctx, case, shp, pol, d, exp, out, stats)
    finally:
        _drop(cls)


def run_disc(case, ctx, O):
    import json
    pol = case["pol"]
    kw = ""
    if case["on_error"]:
        kw += f", on_error={case['on_error']!r}"
    if case["default"]:
        kw += ", default=None"
    ns = {"OPTS": O()}
    exec(DISC_SRC.format(base=case["base"], field_kw=kw), ns)
    A, B, H = ns["A"], ns["B"], ns["H"]
    ctx.count("discriminated_field_cases")
    try:
        for d in case["inputs"]:
            m = d["item"]
            stats = {"offending": 0, "governed": 0}
            # the member on its own, under the default policy, decides whether the value is offending
            mm = m
            if isinstance(m, str):
                try:
                    mm = json.loads(m)
                except Exception:
                    mm = m
            tag = mm.get("kind", mm.get("k")) if isinstance(mm, dict) else None
            member = {"a": A, "b": B}.get(tag) if isinstance(tag, str) else None
            probe = run(lambda: member.__from__(dict(mm))) if member is not None else None
            good = probe is not None and probe.ok
            p = case["on_error"] or pol[2]
            n_exp = int(d["n"])
            if good:
                exp = ("ok", {"item": ("member", tag), "n": n_exp})
            else:
                stats["offending"] = 1
                if p == "throw":
                    exp = ("reject", None)
                else:
                    stats["governed"] = 1
                    if p == "preserve":
                        exp = ("ok", {"item": m, "n": n_exp})
                    elif case["default"]:
                        exp = ("ok", {"item": None, "n": n_exp})
                    else:
                        exp = ("ok", {"n": n_exp})

            def thunk():
                inst = H.__from__(dict(d))
                got = dict(inst) if case["base"] == "Schema" else {k: v for k, v in inst.__dict__.items() if not k.startswith("__")}
                if isinstance(got.get("item"), (A, B)):
                    got["item"] = ("member", "a" if isinstance(got["item"], A) else "b")
                return got
            out = run(thunk)
            shp = ("disc", case["base"], case["on_error"], case["default"], type(m).__name__, tag if isinstance(tag, str) else type(tag).__name__)
            judge(ctx, case, shp, pol, d, exp, out, stats)
    finally:
        for c in (H, A, B):
            _drop(c)


def _drop(c):
    try:
        from utype.parser import base as pbase

        pbase.__parsers__.pop(c, None)
    except Exception:
        pass


def judge(ctx, case, shp, pol, x, exp, out, stats):
    ctx.count("calls")
    if out.kind not in ("ok", "parse"):
        ctx.count("escape_left_to_C04")
        return
    pattern = (stats["offending"] > 0, stats["governed"] > 0, exp[0])
    sig = (shp, pol, pattern)
    wit = {"kind": case["kind"], "type": repr(shp)[:300], "policies(items,keys,values)": pol, "input": short(x, 200),
           "expected": short(exp, 200), "observed": repr(out), "offending_elements": stats["offending"]}
    kind = case["kind"]
    if stats.get("set_from_raw") and (exp[0] == "reject") != (not out.ok) or (stats.get("set_from_raw") and out.ok and exp[0] == "ok" and not V.approx_eq(out.value, exp[1])):
        ctx.violation("C11/set-target-is-built-from-the-raw-input-before-its-elements-are-parsed",
                      f"{kind} {repr(shp)[:160]} pol={pol} input={short(x, 120)}: expected {short(exp, 100)}, got {out!r}", wit, sig=sig)
        return
    if exp[0] == "reject":
        if out.ok:
            what = ("excluded-value-satisfies-a-dependency" if stats.get("dependency_lacking") else
                    "required-field-silently-excluded" if kind == "dc" else "offending-element-accepted-under-throw-or-positional-exclude")
            ctx.violation(f"C11/{kind}/accepted-but-must-reject/{what}", f"{kind} {repr(shp)[:160]} pol={pol} input={short(x, 120)}: expected rejection, got {out!r}", wit, sig=sig)
        elif stats["governed"]:
            ctx.held(sig)
        else:
            ctx.trivial("rejected under throw")
        return
    if not out.ok:
        ctx.violation(f"C11/{kind}/rejected-but-policy-covers-every-offending-element", f"{kind} {repr(shp)[:160]} pol={pol} input={short(x, 120)}: expected {short(exp[1], 100)}, got {out!r}", wit, sig=sig)
        return
    if not V.approx_eq(out.value, exp[1]):
        used = sorted({p for p in pol if p != "throw"})
        ctx.violation(f"C11/{kind}/result-differs/" + "+".join(used or ["throw"]),
                      f"{kind} {repr(shp)[:160]} pol={pol} input={short(x, 120)}: expected {short(exp[1], 120)}, got {short(out.value, 120)}", wit, sig=sig)
        return
    if stats["governed"]:
        ctx.held(sig)
        if ctx.want_sample():
            ctx.sample(wit)
    else:
        ctx.trivial("no offending element under a non-throw policy")


def conclusive(m, tier):
    if m["counters"].get("calls", 0) == 0:
        return "no call executed"
    return None
