"""C18 — the depth limit is exact and parse cost stays bounded.

(a) exactness: recursive data classes with max_depth = d (class Options), inputs of nesting depth k
    whose nested value sits at every kind of position -> accept <=> k <= d, rejection carries
    DepthExceedError; cyclic inputs always reject when d is set.
(b) cost: deterministic work counts (invocations of a counting leaf converter registered by the
    harness + sys.monitoring LINE steps inside utype/) for input families of growing depth / width;
    growth-ratio test separates polynomial from exponential growth."""
import itertools
import typing

from .. import GENERATED
from ..execu import run
from ..monitors import steps as ST
from ..runner import short

ID = "C18"
N_EXACT = {"quick": 6000, "thorough": 120000}
N_CURVES = {"quick": 216, "thorough": 2160}
TIME_BUDGET = {"quick": 50, "thorough": 540}
MIN_NONTRIVIAL = {"quick": 300, "thorough": 3000}
STEP_LIMIT = 4_000_000
DEPTHS_T = {"quick": list(range(3, 8)), "thorough": list(range(3, 9))}  # chain depths n
RULE = ("(a) exactness cases: a recursive data class (Schema or DataClass base; every class carries link fields Optional['T'], "
        "'T'=None, List['T'], Dict[str,'T'], Dict[float,'T'], Tuple[int,'T'], Tuple['T',...], Union['T',int,None], "
        "Union[int,List['T']]; 1/4 of cases use two mutually recursive classes) with class Options(max_depth=d), d in {None,1..5}; "
        "input = chain of depth k in 1..d+3 where each level picks a link kind and a position (list index 0/1/last, dict key "
        "'k'/''/'a b', float key, tuple slot, union branch) with shallow sibling fillers; 1/4 of the chains give one nested level as JSON text "
        "instead of a mapping; 15% put the chain into a list field of an outer data class (one more level) whose element rule carries Options of its "
        "own (Rule.annotate(list, T, options=...), an Array subclass with __options__, or plain List[T]); plus cyclic inputs. Oracle: accept <=> k<=d. "
        "(b) cost curves: chain depth n=3..8 (and width 10..1000) through each link kind x class Options stage count "
        "(no flag / one flag / both flags) x leaf (exact instance / raw value needing conversion / one invalid leaf at the bottom); "
        "work = counting-converter invocations and LINE steps. Violation <=> W(n+1)/W(n) > 1.9 for every n in 3..7 (a polynomial of "
        "degree <= 4 drops below 1.9 by n=6). Non-trivial (a) = |k-d| <= 1 or cyclic; (b) every curve; distinct = (links, positions, d, k) / curve id.")
ASSUMPTIONS = [
    "max_depth is declared in the class Options of every class of the recursive system, or given once as overriding runtime options (Options(max_depth=d, override=True)) to __from__; plain (non-overriding) runtime Options are not propagated into nested classes by design and are not judged",
    "data-class nesting depth of an input = number of nested data-class mappings on the deepest path (top level = 1)",
    "growth test is a bounded restatement of 'at most polynomial': depths 3..8, widths 10..1000; ratio threshold 1.9 separates degree<=4 polynomials from exponentials of base>=2",
    "work is counted deterministically (no wall clock); a point that exhausts 4e6 LINE steps is recorded as >= budget",
]

_S = {}
_uid = itertools.count()

LINKS = ["opt", "direct", "lst", "dct", "dfl", "tup", "tvar", "uni", "uni2"]
UNION_LINKS = {"opt", "uni", "uni2"}


def setup(ctx):
    m = ST.get()
    _S["steps"] = m if m.install() else None
    import utype

    class Leaf:
        def __init__(self, v):
            self.v = v

    calls = {"n": 0}

    @utype.register_transformer(Leaf)
    def to_leaf(transformer, data, t):
        calls["n"] += 1
        if isinstance(data, t):
            return data
        if data == "bad":
            raise ValueError("invalid leaf")
        return t(data)

    _S["Leaf"], _S["calls"] = Leaf, calls
    GENERATED.Leaf = Leaf


def n_cases(tier):
    return N_EXACT[tier] + N_CURVES[tier]


# ---- declarations ---------------------------------------------------------------------------------
def declare(base, d, flags, leaf="int", mutual=False, opts_on_base=False):
    """-> (top class, [classes]); classes refer to each other by name through the generated module"""
    import utype
    from utype import Field, Options

    uid = next(_uid)
    names = [f"N{uid}a", f"N{uid}b"] if mutual else [f"N{uid}a"]
    basecls = utype.Schema if base == "Schema" else utype.DataClass
    made = []
    for i, name in enumerate(names):
        other = names[(i + 1) % len(names)]
        if mutual and i == 0:
            # the first class names a class that does not exist yet: only the plain reference is used here
            # (late-bound names nested inside generics are C17's subject, not C18's)
            ns = {"__annotations__": {"v": int if leaf == "int" else _S["Leaf"], "direct": other}, "__module__": "vmon_generated",
                  "__qualname__": name, "__options__": Options(max_depth=d, **flags) if (d is not None or flags) else Options(), "direct": None}
            cls = type(basecls)(name, (basecls,), ns)
            setattr(GENERATED, name, cls)
            made.append(cls)
            continue
        ann = {
            "v": int if leaf == "int" else _S["Leaf"],
            "opt": typing.Optional[other], "direct": other, "lst": typing.List[other], "dct": typing.Dict[str, other],
            "dfl": typing.Dict[float, other], "tup": typing.Tuple[int, other], "tvar": typing.Tuple[other, ...],
            "uni": typing.Union[other, int, None], "uni2": typing.Union[int, typing.List[other]],
        }
        ns = {"__annotations__": ann, "__module__": "vmon_generated", "__qualname__": name,
              "__options__": Options(max_depth=d, **flags) if (d is not None or flags) else Options(),
              "opt": None, "direct": None, "lst": Field(default_factory=list), "dct": Field(default_factory=dict),
              "dfl": Field(default_factory=dict), "tup": None, "tvar": (), "uni": None, "uni2": 0}
        if not mutual:
            # a union of data classes chosen by Field(discriminator=...): the recursion closes through the member 'Br' (one more level)
            o2 = Options(max_depth=d, **flags) if (d is not None or flags) else Options()
            br = type(basecls)(name + "Br", (basecls,), {"__annotations__": {"kind": typing.Literal["br"], "node": name}, "node": None,
                                                         "__module__": "vmon_generated", "__qualname__": name + "Br", "__options__": o2})
            lf = type(basecls)(name + "Lf", (basecls,), {"__annotations__": {"kind": typing.Literal["lf"], "w": int}, "w": 0,
                                                         "__module__": "vmon_generated", "__qualname__": name + "Lf", "__options__": o2})
            for c in (br, lf):
                setattr(GENERATED, c.__name__, c)
            ann["disc"] = typing.Union[lf, br, None]
            ns["disc"] = Field(discriminator="kind", default=None)
        parents = (basecls,)
        if opts_on_base and not mutual:
            # the options (the depth limit among them) are declared on a base class only; the recursive class inherits them
            root = type(basecls)(name + "Root", (basecls,), {"__module__": "vmon_generated", "__qualname__": name + "Root", "__options__": ns.pop("__options__")})
            parents = (root,)
        cls = type(basecls)(name, parents, ns)
        setattr(GENERATED, name, cls)
        made.append(cls)
        if parents[0] is not basecls:
            made.append(parents[0])
        if not mutual:
            made += [br, lf]
    return made[0], made


def undeclare(classes):
    from utype.parser import base as pbase

    for c in classes:
        pbase.__parsers__.pop(c, None)
        try:
            delattr(GENERATED, c.__name__)
        except AttributeError:
            pass


def filler(leafv):
    return {"v": leafv}


def attach(parent, link, pos, child, leafv):
    if link in ("opt", "direct", "uni"):
        parent[link] = child
    elif link == "uni2":
        parent[link] = [child] if pos != 1 else [filler(leafv), child]
    elif link == "lst":
        parent[link] = {0: [child], 1: [filler(leafv), child], "last": [filler(leafv), filler(leafv), child], 2: [child, filler(leafv)]}[pos]
    elif link == "dct":
        key = {0: "k", 1: "", "last": "a b", 2: "0"}[pos]
        parent[link] = {"z": filler(leafv), key: child} if pos == "last" else {key: child}
    elif link == "dfl":
        key = {0: 0.5, 1: 2.0, "last": 1000.0, 2: 0.0}[pos]
        parent[link] = {key: child}
    elif link == "disc":
        parent[link] = {"kind": "br", "node": child}    # the chosen member is a data-class level of its own
    elif link == "tup":
        parent[link] = (1, child)
    elif link == "tvar":
        parent[link] = {0: (child,), 1: (filler(leafv), child), "last": (filler(leafv), filler(leafv), child), 2: (child, filler(leafv))}[pos]


def chain(path, leafv, bottom_leaf=None):
    """path: [(link, pos)] * (k-1) -> (top dict of depth k, list of level dicts)"""
    levels = [{"v": leafv} for _ in range(len(path) + 1)]
    if bottom_leaf is not None:
        levels[-1]["v"] = bottom_leaf
    for i in range(len(path) - 1, -1, -1):
        attach(levels[i], path[i][0], path[i][1], levels[i + 1], leafv)
    return levels[0], levels


def make_case(i, rng, tier):
    if i < N_EXACT[tier]:
        d = rng.choice([None, 1, 2, 2, 3, 3, 4, 5])
        k = rng.randint(1, (d or 3) + 3)
        if d is not None and rng.random() < 0.6:
            k = max(1, d + rng.choice([-1, 0, 0, 1, 1]))
        path = [(rng.choice(LINKS), rng.choice([0, 1, "last", 2])) for _ in range(k - 1)]
        mutual = rng.random() < 0.25
        if not mutual and rng.random() < 0.2:
            # some links go through a discriminated union member (each adds a data-class level: k counts levels)
            path = [(("disc", 0) if rng.random() < 0.5 else p) for p in path]
            extra = sum(1 for p in path if p[0] == "disc")
            while extra and d is not None and len(path) + 1 + extra > d + 2 and path:
                path.pop()
                extra = sum(1 for p in path if p[0] == "disc")
            k = len(path) + 1
        if mutual:
            path = [(("direct", 0) if lv % 2 == 0 else p) for lv, p in enumerate(path)]
        return {"kind": "exact", "base": rng.choice(["Schema", "Schema", "DataClass"]), "d": d, "k": k, "path": path,
                "mutual": mutual, "cyclic": d is not None and rng.random() < 0.12,
                "cyc_link": rng.choice(["opt", "direct", "lst", "dct", "uni", "tup"]),
                # how the limit reaches the classes: their own Options, or overriding runtime options given to the entry point
                "deliver": "override" if (d is not None and rng.random() < 0.3) else "class",
                # the limit is a hard stop whatever the error-reporting mode
                "collect": rng.random() < 0.25,
                # one nested level written as JSON text instead of a mapping (still one level of the input)
                "text_level": rng.randint(1, max(1, k - 1)) if (k > 1 and rng.random() < 0.25) else None,
                # the whole chain sits in a list field of an outer data class (one more level) whose element rule carries options of its own
                "opts_on_base": rng.random() < 0.15,
                "boxed": rng.choice(["rule-with-options", "rule-with-options", "array-subclass-with-options", "plain-list"]) if rng.random() < 0.15 else None}
    j = (i - N_EXACT[tier]) % 216
    FL = [{}, {"no_data_loss": True}, {"no_explicit_cast": True}, {"no_data_loss": True, "no_explicit_cast": True}]
    LEAVES = ["exact", "raw", "bad", "int-raw", "int-bad"]
    if j < 180:  # every (link, flag set, leaf) combination as a depth curve
        link, flags, leaf, shape = LINKS[j % 9], FL[(j // 9) % 4], LEAVES[j // 36], "depth"
    else:        # width curves through the container links
        jj = j - 180
        link, flags, leaf, shape = ["lst", "dct", "tvar"][jj % 3], FL[(jj // 3) % 4], ["raw", "bad", "int-raw"][jj // 12], "width"
    return {"kind": "curve", "link": link, "flags": flags, "leaf": leaf, "shape": shape, "base": rng.choice(["Schema", "DataClass"]),
            "pos": rng.choice([0, 1, "last"])}


def _has_depth_error(e, depth=0):
    from utype.utils import exceptions as exc

    while e is not None and depth < 60:
        if isinstance(e, exc.DepthExceedError):
            return True
        errs = getattr(e, "errors", None)
        if errs:
            return any(_has_depth_error(x, depth + 1) for x in errs)
        e = getattr(e, "origin_exc", None)
        depth += 1
    return False


def run_case(case, ctx):
    if case["kind"] == "curve":
        return run_curve(case, ctx)
    d, k, path = case["d"], case["k"], case["path"]
    try:
        deliver = case.get("deliver", "class")
        cflags = {"collect_errors": True} if case.get("collect") else {}
        top, classes = declare(case["base"], d if deliver == "class" else None, cflags, mutual=case["mutual"],
                               opts_on_base=bool(case.get("opts_on_base")) and deliver == "class")
        if case.get("opts_on_base") and deliver == "class" and not case["mutual"]:
            ctx.count("limit_declared_on_a_base_class_only")
    except Exception as e:
        ctx.count("declaration_rejected:" + type(e).__name__)
        return
    try:
        data, levels = chain(path, 1)
        k = k + sum(1 for p in path if p[0] == "disc")   # input depth in data-class levels
        cyc = case["cyclic"]
        tl = case.get("text_level")
        if tl is not None and not cyc and tl < len(levels) and path[tl - 1][0] in ("opt", "direct", "lst", "dct", "tup", "tvar"):
            import json
            attach(levels[tl - 1], path[tl - 1][0], path[tl - 1][1], json.dumps(levels[tl]), 1)
            ctx.count("inputs_with_a_level_as_json_text")
        else:
            tl = None
        if cyc:
            if case["mutual"] and len(levels) % 2 == 1:
                # bottom level is class a again: only its plain link exists, and it must lead to a class-b level
                if len(levels) < 2:
                    cyc = False
                else:
                    attach(levels[-1], "direct", 0, levels[1], 1)
            elif case["mutual"]:
                attach(levels[-1], case["cyc_link"], 0, levels[0], 1)
            else:
                attach(levels[-1], case["cyc_link"], 0, levels[0], 1)
        steps = _S["steps"]
        boxed = case.get("boxed") if (deliver == "class" and d is not None and not cyc) else None
        if boxed:
            import utype
            from utype import Field, Options, Rule
            from utype.types import Array
            if boxed == "rule-with-options":
                elem = Rule.annotate(list, top, options=Options(no_explicit_cast=True))
            elif boxed == "array-subclass-with-options":
                SA = type(Array)("SA", (Array,), {"__options__": Options(no_explicit_cast=True), "__module__": "vmon_generated"})
                elem = SA[top]
            else:
                elem = typing.List[top]
            bcls = utype.Schema if case["base"] == "Schema" else utype.DataClass
            Box = type(bcls)("Box%d" % next(_uid), (bcls,), {"__annotations__": {"boxed": elem}, "boxed": Field(default_factory=list), "__module__": "vmon_generated",
                                                          "__options__": Options(max_depth=d, **cflags)})
            classes = classes + [Box]
            top, data, k = Box, {"boxed": [data]}, k + 1
            ctx.count("chains_inside_a_list_field_of_an_outer_class:" + boxed)
        if deliver == "override":
            from utype import Options
            out = run(lambda: top.__from__(data, options=Options(max_depth=d, override=True, **cflags)), steps=steps, limit=STEP_LIMIT if steps else None)
        else:
            out = run(lambda: top.__from__(data) if case["base"] == "DataClass" else top(**data), steps=steps, limit=STEP_LIMIT if steps else None)
        ctx.count("calls")
        ctx.count("limit_delivered_by:" + deliver)
        links = tuple(p[0] for p in path)
        poss = tuple(str(p[1]) for p in path)
        sig = (case["base"], case["mutual"], links, poss, d, k, cyc, deliver, bool(cflags), tl, boxed, bool(case.get("opts_on_base")))
        wit = {"base": case["base"], "mutual": case["mutual"], "max_depth": d, "collect_errors": bool(cflags), "limit_given_by": "class Options" if deliver == "class" else "__from__(options=Options(max_depth=d, override=True))", "input_depth": "cyclic" if cyc else k,
               "path": [f"{l}[{p}]" for l, p in path], "outcome": repr(out), "level_given_as_json_text": tl, "inside_outer_class_list_field": boxed}
        if out.kind == "steps" and d is not None:
            # with a limit of d levels a parse touches at most the first d levels of the input: 4e6 LINE steps are
            # three orders of magnitude above any such parse seen here (evidence: max steps of a terminating case)
            ctx.violation("C18/depth/limit-does-not-bound-the-work",
                          f"{case['base']} max_depth={d} collect_errors={bool(cflags)}, input depth {wit['input_depth']} via {wit['path']}: no result within {STEP_LIMIT} steps", wit, sig=sig)
            return
        if out.kind == "steps":
            ctx.inconclusive_case("step budget exhausted in an exactness case without a limit")
            return
        if out.kind == "recursion" and cyc and d is None:
            ctx.trivial("cyclic without max_depth")
            return
        exp_ok = (d is None or k <= d) and not cyc
        if out.kind not in ("ok", "parse"):
            ctx.violation(f"C18/depth/unexpected-{out.kind}", f"max_depth={d} depth={wit['input_depth']} path={wit['path']}: {out!r}", wit, sig=sig)
            return
        if out.ok != exp_ok:
            where = path[(d or 1) - 1][0] if (not out.ok and d and len(path) >= d) else (path[-1][0] if path else "-")
            key = "C18/depth/" + ("cyclic-input-accepted" if cyc else
                                  ("accepted-beyond-max_depth" if out.ok else f"rejected-within-max_depth/link={where}"))
            ctx.violation(key, f"{case['base']} max_depth={d}, input depth {wit['input_depth']} via {wit['path']}: {out!r}", wit, sig=sig)
            return
        if not out.ok and not _has_depth_error(out.exc) and "max_depth" not in str(out.exc):
            ctx.violation("C18/depth/rejection-is-not-DepthExceedError", f"max_depth={d} depth={wit['input_depth']}: {out!r}", wit, sig=sig)
            return
        if cyc or (d is not None and abs(k - d) <= 1):
            ctx.held(sig)
            if ctx.want_sample() and k > 2:
                ctx.sample(wit)
        else:
            ctx.trivial("far from the boundary")
    finally:
        undeclare(classes)


def measure(top, base, data):
    steps, calls = _S["steps"], _S["calls"]
    calls["n"] = 0
    out = run(lambda: top.__from__(data) if base == "DataClass" else top(**data), steps=steps, limit=STEP_LIMIT)
    return out, (STEP_LIMIT if out.kind == "steps" else steps.count), calls["n"]


def run_curve(case, ctx):
    if _S["steps"] is None:
        ctx.inconclusive_case("sys.monitoring unavailable")
        return
    link, flags, leaf, shape = case["link"], case["flags"], case["leaf"], case["shape"]
    Leaf = _S["Leaf"]
    leaf_t = "int" if leaf.startswith("int") else "Leaf"
    try:
        top, classes = declare(case["base"], None, flags, leaf=leaf_t)
    except Exception as e:
        ctx.count("declaration_rejected:" + type(e).__name__)
        return
    try:
        good = {"exact": Leaf(1), "raw": "ok", "bad": "ok", "int-raw": "1", "int-bad": 1}[leaf]
        bottom = {"bad": "bad", "int-bad": "x"}.get(leaf)
        pts = []
        if shape == "depth":
            xs = DEPTHS_T[ctx.tier]
            for n in xs:
                data, _ = chain([(link, case["pos"])] * (n - 1), good, bottom_leaf=bottom)
                out, st, cl = measure(top, case["base"], data)
                pts.append((n, st, cl, out.kind))
                if out.kind == "steps":
                    break
        else:
            xs = [10, 40, 160, 640]
            for n in xs:
                sib = [{"v": good} for _ in range(n)]
                if bottom is not None:
                    sib[-1] = {"v": bottom}
                data = {"v": good, link: sib if link == "lst" else tuple(sib) if link == "tvar" else {str(j): s for j, s in enumerate(sib)}}
                out, st, cl = measure(top, case["base"], data)
                pts.append((n, st, cl, out.kind))
                if out.kind == "steps":
                    break
        ctx.count("curves")
        ctx.count("curve_points", len(pts))
        stages = 1 if len(flags) == 2 else (2 if len(flags) == 1 else 3)
        cid = (link, tuple(sorted(flags)), leaf, shape, case["base"])
        wit = {"link": link, "class_options": flags, "leaf": leaf, "shape": shape, "base": case["base"], "stages": stages,
               "points(n, steps, leaf_conversions, outcome)": pts}
        W = [max(1, p[1]) for p in pts]
        ratios = [W[j + 1] / W[j] for j in range(len(W) - 1)]
        Wc = [p[2] for p in pts]
        wit["step_ratios"] = [round(r, 2) for r in ratios]
        blow = False
        if shape == "depth":
            exhausted = pts[-1][3] == "steps"
            blow = (len(ratios) >= 4 and all(r > 1.9 for r in ratios)) or (exhausted and len(ratios) >= 2 and all(r > 1.9 for r in ratios[1:]))
        else:
            # width x4 per point: quadratic => x16; allow up to x20
            blow = any(r > 20 for r in ratios) or pts[-1][3] == "steps"
        if not blow:
            ctx.held(("curve",) + cid)
            if ctx.want_sample():
                ctx.sample(wit)
            return
        base_ratio = sum(ratios[1:]) / max(1, len(ratios[1:]))
        if shape == "depth" and link in UNION_LINKS and stages >= 2 and base_ratio <= stages + 0.3 and leaf in ("bad", "int-bad", "int-raw"):
            key = f"C18/cost/union-stage-retries-multiply-per-level/stages={stages}"
        else:
            key = f"C18/cost/super-polynomial-growth/{shape}/link={link}/stages={stages}/leaf={leaf}"
        ctx.violation(key, f"{case['base']} chain through '{link}' (class options {flags}, leaf={leaf}): steps per {shape} {[(p[0], p[1]) for p in pts]}, "
                           f"leaf conversions {Wc}; ratios {wit['step_ratios']}", wit, sig=("curve",) + cid)
    finally:
        undeclare(classes)


def conclusive(m, tier):
    c = m["counters"]
    if c.get("calls", 0) == 0:
        return "no exactness case executed"
    if c.get("curves", 0) == 0:
        return "no cost curve measured"
    return None


def extra_coverage(m, tier):
    return {"cost_curves_measured": m["counters"].get("curves", 0), "curve_points": m["counters"].get("curve_points", 0), "depths": DEPTHS_T[tier]}
