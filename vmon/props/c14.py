"""C14 — JSON encoding round-trips through the parser.

Events: instance -> json.dumps(inst, cls=JSONEncoder) -> text -> Cls.__from__(text).
Oracle: encoding succeeds; the text is standard JSON (re-read with parse_constant raising on
NaN/Infinity); the re-parsed instance equals the original, field by field, type-aware."""
import datetime as dt
import decimal
import enum
import json
import math
import typing
import uuid
from decimal import Decimal

from .. import values as V
from ..execu import run
from ..runner import short

ID = "C14"
N = {"quick": 40000, "thorough": 300000}
TIME_BUDGET = {"quick": 45, "thorough": 480}
MIN_NONTRIVIAL = {"quick": 300, "thorough": 3000}
RULE = ("cases = a Schema (94%) or DataClass (6%) with 1-5 fields over the listed types (int, float, str, bool, Optional, UTF-8 "
        "bytes, Decimal, date, datetime, time, timedelta, UUID, str Enum, IntEnum, List / Set / Tuple[T,...] / Tuple[T1,T2] / "
        "Dict[str,T] of these, nested Schema) x an instance drawn from the JSON-faithful domain exactly as the property states it: "
        "ints to 1e30, floats incl. +-inf, -0.0, subnormals and 1e308, Decimal <= 15 significant digits at scales -20..+20 and "
        "JS-unsafe magnitudes, dates / datetimes at min / max, naive and with UTC offsets -14:00..+14:00 incl. non-whole-hour and "
        "second offsets, microseconds, times at ms precision, timedeltas negative / sub-second / microsecond / > 1 year, UUIDs, "
        "multi-byte UTF-8, empty containers. Non-trivial = every case (encode + strict-JSON read + re-parse + equality are all "
        "evaluated); distinct = (field type vector, value trait vector).")
ASSUMPTIONS = [
    "equality is Python equality per field plus same type (Decimal 1.50 == 1.5, 0.0 == -0.0 are equal values)",
    "time values carry no tzinfo and at most millisecond precision (the domain the property states); NaN is excluded",
    "Set fields hold hashable scalars; Dict keys are str (JSON object keys)",
]


class Color(enum.Enum):
    RED = "red"
    GREEN = "green"


class Level(enum.IntEnum):
    LOW = 1
    HIGH = 2


class Rate(enum.Enum):       # a plain Enum whose values are floats (one of them no binary fraction)
    REDUCED = 0.1
    HALF = 0.5
    FULL = 19.75


SCALARS = ["int", "float", "str", "bool", "bytes", "Decimal", "date", "datetime", "time", "timedelta", "UUID", "Color", "Level", "Rate"]
HASHABLE = ["int", "str", "date", "UUID", "Color", "Level", "Decimal"]
PY = {"int": int, "float": float, "str": str, "bool": bool, "bytes": bytes, "Decimal": Decimal, "date": dt.date, "datetime": dt.datetime,
      "time": dt.time, "timedelta": dt.timedelta, "UUID": uuid.UUID, "Color": Color, "Level": Level, "Rate": Rate}
_uid = [0]


def n_cases(tier):
    return N[tier]


def gen_type(rng, depth=2):
    r = rng.random()
    if depth <= 0 or r < 0.5:
        return ("s", rng.choice(SCALARS))
    if r < 0.6:
        return ("opt", gen_type(rng, depth - 1))
    if r < 0.7:
        return ("list", gen_type(rng, depth - 1))
    if r < 0.76:
        return ("set", ("s", rng.choice(HASHABLE)))
    if r < 0.82:
        return ("tuplevar", gen_type(rng, depth - 1))
    if r < 0.88:
        return ("tuple2", gen_type(rng, depth - 1), gen_type(rng, depth - 1))
    if r < 0.93:
        return ("dict", gen_type(rng, depth - 1))
    if r < 0.96:
        return ("bare", rng.choice(["list", "dict"]))     # untyped list / dict holding JSON-native values
    return ("nested",)


def gen_value(rng, t):
    """-> (value, trait)"""
    k = t[0]
    if k == "s":
        return gen_scalar(rng, t[1])
    if k == "bare":
        items = [rng.choice([0, 1, -7, 0.1, 36.6, 2.5, "a", "", True, None, 10 ** 20]) for _ in range(rng.randint(0, 4))]
        if t[1] == "list":
            return items, "bare:list"
        return {"k%d" % j: x for j, x in enumerate(items)}, "bare:dict"
    if k == "opt":
        if rng.random() < 0.3:
            return None, "none"
        return gen_value(rng, t[1])
    if k in ("list", "tuplevar"):
        n = rng.choice([0, 1, 2, 3])
        vs = [gen_value(rng, t[1]) for _ in range(n)]
        vals = [v for v, _ in vs]
        return (vals if k == "list" else tuple(vals)), (k + ":" + (vs[0][1] if vs else "empty"))
    if k == "set":
        n = rng.choice([0, 1, 2, 3])
        vs = [gen_value(rng, t[1]) for _ in range(n)]
        return set(v for v, _ in vs), "set:" + (vs[0][1] if vs else "empty")
    if k == "tuple2":
        a, b = gen_value(rng, t[1]), gen_value(rng, t[2])
        return (a[0], b[0]), "tuple2:" + a[1]
    if k == "dict":
        n = rng.choice([0, 1, 2])
        d = {}
        tr = "empty"
        for i in range(n):
            v, tr = gen_value(rng, t[1])
            d[rng.choice(["k", "a b", "é", "0", ""]) + str(i)] = v
        return d, "dict:" + tr
    if k == "nested":
        return {"p": rng.randint(-5, 5), "q": rng.choice(["x", ""])}, "nested"
    raise ValueError(t)


def gen_scalar(rng, name):
    r = rng.random()
    if name == "int":
        v = rng.choice([0, 1, -1, 2 ** 31, -2 ** 63, 2 ** 53 + 1, 10 ** 30, -10 ** 30, rng.randint(-10 ** 6, 10 ** 6)])
        return v, "int:" + ("big" if abs(v) > 2 ** 53 else "small")
    if name == "float":
        v = rng.choice([0.0, -0.0, 1.5, -2.25, 1e-7, 5e-324, 1e308, -1e308, 0.1, 1e16, 123456.789, math.inf, -math.inf, float(rng.randint(-1000, 1000)),
                        rng.random() * 10 ** rng.randint(-10, 10)])
        return v, "float:" + ("inf" if math.isinf(v) else "negzero" if v == 0 and math.copysign(1, v) < 0 else "finite")
    if name == "str":
        return rng.choice(["", "a", "null", "1,2", "é日本", "tab\there", "quote\"s", "2020-01-02", "true", "line\nbreak", "\\", " "]), "str"
    if name == "bool":
        return rng.random() < 0.5, "bool"
    if name == "bytes":
        return rng.choice([b"", b"abc", "é日本".encode(), b"1", b"null", "😀".encode(),
                           # valid UTF-8 that text tooling likes to "clean up": a leading byte order mark, NUL, line ends, surrounding blanks
                           b"\xef\xbb\xbfabc", b"\xef\xbb\xbf", b"a\xef\xbb\xbfb", b"\x00", b"a\r\nb\n", b" pad ", b"\t", "\u2028".encode()]), "bytes"
    if name == "Decimal":
        digits = rng.randint(1, 15)
        coef = rng.randint(1, 10 ** digits - 1) * rng.choice([1, -1])
        scale = rng.randint(-20, 20)
        v = rng.choice([Decimal(coef).scaleb(scale), Decimal("0"), Decimal("1.50"), Decimal("-0.001"), Decimal(rng.randint(-10 ** 6, 10 ** 6)),
                        Decimal("1E+3"), Decimal("9007199254740993"), Decimal("0.1"),
                        # few digits, extreme magnitude (beyond what the default decimal context can hold after arithmetic)
                        Decimal("1E+1000000"), Decimal("-2.5E+1000001"), Decimal("7E-2000000"), Decimal("12345E+999995")])
        e = v.as_tuple().exponent
        return v, "Decimal:" + ("unsafe" if (v > 2 ** 53 or v < -(2 ** 53)) else "exp+" if e > 0 else "int" if e == 0 else "frac")
    if name == "date":
        return rng.choice([dt.date.min, dt.date.max, dt.date(2020, 2, 29), dt.date(1969, 12, 31), dt.date(rng.randint(1, 9999), rng.randint(1, 12), rng.randint(1, 28))]), "date"
    if name == "datetime":
        base = rng.choice([dt.datetime.min, dt.datetime.max, dt.datetime(2020, 1, 2, 3, 4, 5), dt.datetime(1999, 12, 31, 23, 59, 59, 999999),
                           dt.datetime(2020, 1, 2), dt.datetime(rng.randint(2, 9998), rng.randint(1, 12), rng.randint(1, 28), rng.randint(0, 23), rng.randint(0, 59),
                                                                rng.randint(0, 59), rng.choice([0, 0, 1, 123000, 123456]))])
        tzk = rng.choice(["naive", "naive", "utc", "+", "+", "-", "-", "+sec", "-sec"])
        if base in (dt.datetime.min, dt.datetime.max):
            tzk = rng.choice(["naive", "utc"])
        if tzk == "naive":
            return base, "datetime:naive" + (":us" if base.microsecond else "")
        if tzk == "utc":
            return base.replace(tzinfo=dt.timezone.utc), "datetime:utc"
        sign = 1 if tzk[0] == "+" else -1
        if tzk.endswith("sec"):
            off = dt.timedelta(hours=rng.randint(0, 13), minutes=rng.randint(0, 59), seconds=rng.randint(1, 59))
        else:
            off = rng.choice([dt.timedelta(hours=14), dt.timedelta(hours=5, minutes=30), dt.timedelta(hours=rng.randint(0, 13), minutes=rng.choice([0, 15, 45])),
                              dt.timedelta(minutes=1)])
        return base.replace(tzinfo=dt.timezone(sign * off)), "datetime:offset" + tzk + (":us" if base.microsecond else "")
    if name == "time":
        return dt.time(rng.randint(0, 23), rng.randint(0, 59), rng.randint(0, 59), rng.choice([0, 0, 1000, 123000, 999000])), "time"
    if name == "timedelta":
        v = rng.choice([dt.timedelta(0), dt.timedelta(days=1), dt.timedelta(seconds=-1), dt.timedelta(microseconds=1), dt.timedelta(microseconds=-1),
                        dt.timedelta(days=400, seconds=3, microseconds=5), dt.timedelta(seconds=0.5), dt.timedelta(days=-2, seconds=30, microseconds=250000),
                        dt.timedelta(seconds=rng.randint(-10 ** 7, 10 ** 7), microseconds=rng.choice([0, 0, 7, 500000, 999999])),
                        # the whole representable range: long durations keep their microseconds
                        dt.timedelta(days=rng.choice([100000, 999999, 36500000, 999999999, -999999999, -100000]), seconds=rng.randint(0, 86399),
                                     microseconds=rng.choice([0, 1, 2, 999999, 500001])),
                        rng.choice([dt.timedelta.max, dt.timedelta.min, dt.timedelta(days=99421, microseconds=1)])])
        return v, "timedelta:" + ("neg" if v < dt.timedelta(0) else "pos") + (":us" if v.microseconds else "") + (":long" if abs(v.days) > 99000 else "")
    if name == "UUID":
        return uuid.UUID(int=rng.getrandbits(128)), "UUID"
    if name == "Color":
        return rng.choice(list(Color)), "Enum"
    if name == "Level":
        return rng.choice(list(Level)), "IntEnum"
    if name == "Rate":
        return rng.choice(list(Rate)), "Enum:float"
    raise ValueError(name)


def annotation(t, Nested):
    k = t[0]
    if k == "s":
        return PY[t[1]]
    if k == "bare":
        return {"list": list, "dict": dict}[t[1]]
    if k == "opt":
        return typing.Optional[annotation(t[1], Nested)]
    if k == "list":
        return typing.List[annotation(t[1], Nested)]
    if k == "set":
        return typing.Set[annotation(t[1], Nested)]
    if k == "tuplevar":
        return typing.Tuple[annotation(t[1], Nested), ...]
    if k == "tuple2":
        return typing.Tuple[annotation(t[1], Nested), annotation(t[2], Nested)]
    if k == "dict":
        return typing.Dict[str, annotation(t[1], Nested)]
    return Nested


def make_case(i, rng, tier):
    n = rng.randint(1, 5)
    types_ = [gen_type(rng) for _ in range(n)]
    vals = [gen_value(rng, t) for t in types_]
    return {"base": "DataClass" if rng.random() < 0.06 else "Schema", "types": types_, "values": [v for v, _ in vals], "traits": [tr for _, tr in vals],
            # the class's own parse options: reading the class's JSON text back happens under them
            "opts": rng.choice([None, None, None, {"no_data_loss": True}, {"no_data_loss": True}, {"addition": False}])}


def eq(a, b, depth=0):
    """equal value of the same type, recursively"""
    if type(a) is not type(b):
        return False
    if isinstance(a, dict):
        return set(a) == set(b) and all(eq(a[k], b[k], depth + 1) for k in a)
    if isinstance(a, (list, tuple)):
        return len(a) == len(b) and all(eq(x, y, depth + 1) for x, y in zip(a, b))
    if isinstance(a, (set, frozenset)):
        return a == b
    return a == b


def first_diff(types_, a, b, path="$"):
    return path


def _leafs(t):
    if t[0] == "s":
        return t[1]
    if t[0] == "nested":
        return "nested"
    return _leafs(t[1])


def run_case(case, ctx):
    import utype
    from utype.utils.encode import JSONEncoder

    _uid[0] += 1
    base = utype.Schema if case["base"] == "Schema" else utype.DataClass

    class Inner(utype.Schema):
        p: int
        q: str = ""

    Inner.__module__ = "vmon_generated"
    names = ["f%d" % i for i in range(len(case["types"]))]
    ns = {"__annotations__": {n: annotation(t, Inner) for n, t in zip(names, case["types"])}, "__module__": "vmon_generated", "__qualname__": "J%d" % _uid[0]}
    if case.get("opts"):
        ns["__options__"] = utype.Options(**case["opts"])
        ctx.count("classes_with_own_options:" + ",".join(sorted(case["opts"])))
    try:
        cls = type(base)("J%d" % _uid[0], (base,), ns)
    except Exception as e:
        ctx.count("declaration_rejected:" + type(e).__name__)
        return
    try:
        data = dict(zip(names, case["values"]))
        o0 = run(lambda: cls(**data))
        if not o0.ok:
            ctx.count("construction_rejected")
            ctx.skip("instance could not be constructed from in-domain typed values: " + type(o0.exc).__name__)
            return
        inst = o0.value
        view = (lambda x: dict(x)) if case["base"] == "Schema" else (lambda x: {k: v for k, v in x.__dict__.items() if not k.startswith("__")})
        orig = view(inst)
        tvec = tuple(repr(t) for t in case["types"])
        sig = (case["base"], tvec, tuple(case["traits"]), tuple(sorted((case.get("opts") or {}).items())))
        wit = {"base": case["base"], "types": list(tvec), "class_options": case.get("opts"), "instance": short(orig, 300)}
        ctx.count("instances")
        enc = run(lambda: json.dumps(inst, cls=JSONEncoder))
        if not enc.ok:
            which = _blame(case, lambda v: json.dumps(v, cls=JSONEncoder))
            if which == "instance" and case["base"] == "DataClass" and "is not JSON serializable" in str(enc.exc):
                which = "attribute-based-DataClass-instance-has-no-encoder"
            ctx.violation(f"C14/encode-failed/{which}", f"{case['base']} {short(orig, 160)}: json.dumps raised {enc.exc!r:.120}", wit, sig=sig)
            return
        text = enc.value
        wit["json"] = short(text, 300)

        def _const(c):
            raise ValueError("non-standard JSON constant " + c)

        try:
            json.loads(text, parse_constant=_const)
        except ValueError as e:
            has_inf = any(tr == "float:inf" for t, v in zip(case["types"], case["values"]) for _, tr, _x in leaf_traits(t, v))
            ctx.violation("C14/not-standard-json/" + ("float-infinity" if has_inf and "Infinity" in str(e) else "other"),
                          f"{case['base']} {short(orig, 120)}: encoded text {short(text, 120)} is not standard JSON ({e})", wit, sig=sig)
            return
        back = run(lambda: cls.__from__(text))
        if not back.ok:
            which = _blame_parse(case, cls, names, text)
            ctx.violation(f"C14/reparse-failed/{which}", f"{case['base']} {short(orig, 120)} -> {short(text, 160)}: parsing the text back raised {back!r}", wit, sig=sig)
            return
        got = view(back.value)
        wit["reparsed"] = short(got, 300)
        bad = [n for n in names if n not in got or not eq(got[n], orig.get(n))]
        if bad or set(got) != set(orig) or (case["base"] == "Schema" and not (back.value == inst)):
            n0 = bad[0] if bad else "?"
            ctx.violation(f"C14/roundtrip-differs/{_blame_parse(case, cls, names, text)}", f"{case['base']} field {n0}: {orig.get(n0)!r} -> JSON {short(text, 120)} -> {got.get(n0)!r}", wit, sig=sig)
            return
        ctx.held(sig)
        if ctx.want_sample() and len(names) > 1:
            ctx.sample(wit)
    finally:
        try:
            from utype.parser import base as pbase
            pbase.__parsers__.pop(cls, None)
            pbase.__parsers__.pop(Inner, None)
        except Exception:
            pass


def leaf_traits(t, v):
    """(leaf type, trait, value) of every scalar inside a generated value"""
    k = t[0]
    if v is None:
        return [("None", "none", None)]
    if k == "s":
        return [(t[1], trait_of(t[1], v), v)]
    if k == "opt":
        return leaf_traits(t[1], v)
    if k in ("list", "tuplevar", "set"):
        out = []
        for x in v:
            out += leaf_traits(t[1], x)
        return out
    if k == "tuple2":
        return leaf_traits(t[1], v[0]) + leaf_traits(t[2], v[1])
    if k == "dict":
        out = []
        for x in v.values():
            out += leaf_traits(t[1], x)
        return out
    return [("nested", "nested", v)]


def trait_of(name, v):
    if name == "float":
        return "float:" + ("inf" if math.isinf(v) else "finite")
    if name == "datetime":
        if v.tzinfo is None:
            return "datetime:naive"
        off = v.utcoffset()
        return "datetime:" + ("utc" if not off else ("negative-offset" if off < dt.timedelta(0) else "positive-offset") + (":seconds" if off.seconds % 60 else ""))
    if name == "timedelta":
        return "timedelta:" + ("negative" if v < dt.timedelta(0) else "positive") + (":us" if v.microseconds else "")
    if name == "Decimal":
        e = v.as_tuple().exponent
        return "Decimal:" + ("unsafe" if (v > 2 ** 53 or v < -(2 ** 53)) else "exp+" if e > 0 else "int" if e == 0 else "frac")
    if name == "int":
        return "int:" + ("big" if abs(v) > 2 ** 53 else "small")
    return name


def _blame(case, f):
    """trait of the first scalar that cannot be encoded on its own"""
    for t, v in zip(case["types"], case["values"]):
        for name, tr, x in leaf_traits(t, v):
            try:
                f(x)
            except Exception:
                return tr
    return "instance"


def _blame_parse(case, cls, names, text):
    """trait of the first scalar whose own JSON form its own type cannot parse back to an equal value"""
    from utype import type_transform
    from utype.utils.encode import JSONEncoder

    for t, v in zip(case["types"], case["values"]):
        for name, tr, x in leaf_traits(t, v):
            if name in ("None", "nested"):
                continue
            try:
                j = json.loads(json.dumps(x, cls=JSONEncoder))
                o = run(lambda: type_transform(j, PY[name]))
                if not o.ok or not eq(o.value, x):
                    return tr
            except Exception:
                return tr
    return "instance"


def conclusive(m, tier):
    if m["counters"].get("instances", 0) == 0:
        return "no instance was encoded"
    if m["counters"].get("construction_rejected", 0) > 0.2 * m["cases_run"]:
        return "too many in-domain instances could not be constructed"
    return None
