"""C16 — converter resolution is a pure function of the registrations made so far.

History + executable model.  Every registered function carries a unique tag, so each read
(resolve / convert) identifies the registration it observed; the sequential model is a plain list
of registrations with 'highest priority, most recent wins ties, no cache'.
quick: ALL histories of length <= 5 over a reduced alphabet on a fresh TypeRegistry(cache=True)
(bounded-exhaustive) + random longer histories incl. the library's two global registries."""
import itertools
import json
import typing
import random

from ..runner import short

ID = "C16"
TIME_BUDGET = {"quick": 50, "thorough": 480}
MIN_NONTRIVIAL = {"quick": 1000, "thorough": 5000}
EXHAUSTIVE = {"quick": True, "thorough": True}
BLOCK = 256
MAXLEN = {"quick": 5, "thorough": 6}
N_RANDOM = {"quick": 20000, "thorough": 300000}
N_GLOBAL = {"quick": 2000, "thorough": 20000}
RULE = ("part A (exhaustive): every history of length 1..L (L=5 quick, 6 thorough) over the alphabet {8 register forms: "
        "(A) sub/exact, (B) sub/exact, (A) prio 1, (B) prio 1, attr='tag', metaclass=Meta} u {resolve A,B,C,E,M} on a fresh "
        "TypeRegistry(cache=True) (class hierarchy A, B(A), C(B), E(A, has attr), M(metaclass Meta); the random part adds F(A) and G whose attr value is falsy); part B: random histories "
        "of length <= 14 over the full alphabet (class tuples, priorities -1..2, attr+class and metaclass+class conjunctions, "
        "cache on/off, a base registry receiving registrations before and in between); part C: histories on the library's global transformer and encoder registries with fresh "
        "classes per history, reads through TypeTransformer.registry.resolve, type_transform, a plain-typed Schema field "
        "(class declared before and after the registrations) and json.dumps(cls=JSONEncoder). Non-trivial = the history has a "
        "read that follows >= 2 matching registrations or a read-register-read of the same type; distinct = the history itself.")
ASSUMPTIONS = [
    "model: resolve(t) = among registrations whose own criteria match t (exact class / subclass / metaclass / attribute, conjunctive), the highest priority, most recent winning ties; no match -> base registry, then the default",
    "transformers captured by a Rule at declaration time (List[X], class R(X, Rule)) bind at declaration by documented design and are outside the statement: reads use resolve / type_transform / plain-typed fields only",
    "global-registry histories remove their own entries afterwards (cleanup touches TypeRegistry internals, the reads do not)",
]

_S = {}


class Meta(type):
    pass


def _classes():
    class A:
        pass

    class B(A):
        pass

    class C(B):
        pass

    class D(A):
        pass

    class E(A):
        tag = 1

    class F(A):
        tag = 0       # the attribute exists, its value is falsy

    class G:
        tag = None    # (the same outside the A hierarchy)

    class M(metaclass=Meta):
        pass

    class X:
        pass

    import abc

    class S(abc.ABC):   # an abstract base with a VIRTUAL subclass: issubclass(V, S) although S is not in V.__mro__
        pass

    class V:
        pass

    S.register(V)
    return {"A": A, "B": B, "C": C, "D": D, "E": E, "F": F, "G": G, "M": M, "X": X, "S": S, "V": V}


# reduced alphabet for the exhaustive part: ("reg", classes, allow_subclasses, priority, attr, metaclass) | ("res", cls)
ALPHA = [
    ("reg", ("A",), True, 0, None, False), ("reg", ("A",), False, 0, None, False), ("reg", ("B",), True, 0, None, False),
    ("reg", ("B",), False, 0, None, False), ("reg", ("A",), True, 1, None, False), ("reg", ("B",), True, 1, None, False),
    ("reg", (), True, 0, "tag", False), ("reg", (), True, 0, None, True),
    ("res", "A"), ("res", "B"), ("res", "C"), ("res", "E"), ("res", "M"),
]


def _count(L):
    return sum(len(ALPHA) ** k for k in range(1, L + 1))


def _decode(idx):
    """idx -> history (tuple of ops), enumerating lengths 1,2,... in order"""
    k = 1
    while idx >= len(ALPHA) ** k:
        idx -= len(ALPHA) ** k
        k += 1
    ops = []
    for _ in range(k):
        ops.append(ALPHA[idx % len(ALPHA)])
        idx //= len(ALPHA)
    return tuple(ops)


def n_cases(tier):
    nA = (_count(MAXLEN[tier]) + BLOCK - 1) // BLOCK
    _S["nA"] = nA
    return nA + N_RANDOM[tier] + N_GLOBAL[tier]


def setup(ctx):
    _S["cls"] = _classes()


def gen_op(rng):
    if rng.random() < 0.5:
        return ("res", rng.choice(["A", "B", "C", "D", "E", "F", "F", "G", "M", "X", "V", "V", "S"]))
    r = rng.random()
    classes = ()
    attr = None
    meta = False
    if r < 0.7:
        classes = tuple(rng.sample(["A", "B", "C", "D", "E", "F", "M", "X", "S", "S", "V"], rng.choice([1, 1, 1, 2])))
    if r >= 0.7 or rng.random() < 0.15:
        if rng.random() < 0.5:
            attr = "tag"
        else:
            meta = True
    op = ("reg", classes, rng.random() < 0.7, rng.choice([0, 0, 0, 1, 1, 2, -1]), attr, meta)
    if rng.random() < 0.12:
        op = op + (rng.randrange(8),)   # re-use the function of an earlier registration of this history
    return op


def make_case(i, rng, tier):
    nA = _S.get("nA") or ((_count(MAXLEN[tier]) + BLOCK - 1) // BLOCK)
    if i < nA:
        total = _count(MAXLEN[tier])
        return {"kind": "A", "range": (i * BLOCK, min(total, (i + 1) * BLOCK))}
    if i < nA + N_RANDOM[tier]:
        n = rng.randint(3, 14)
        base = rng.random() < 0.3
        ops = []
        for _ in range(n):
            op = gen_op(rng)
            if base and op[0] == "reg" and rng.random() < 0.5:
                op = ("breg",) + op[1:]  # registered in the BASE registry at this point of the history
            ops.append(op)
        if base and rng.random() < 0.5:
            # sandwich aimed at a child registry that remembers what its base answered: read, register in the BASE, read again
            t = rng.choice(["A", "B", "C", "D", "E"])
            at = rng.randint(0, len(ops))
            ops[at:at] = [("res", t), ("breg", (rng.choice([t, t, "A"]),), True, rng.choice([0, 1, 2]), None, False), ("res", t)]
        return {"kind": "B", "ops": tuple(ops), "cache": rng.random() < 0.8, "base": base,
                "base_ops": tuple(gen_op(rng) for _ in range(rng.randint(0, 3)))}
    n = rng.randint(2, 9)
    ops = []
    for _ in range(n):
        if rng.random() < 0.5:
            ops.append(("read", rng.choice(["resolve", "convert", "field_early", "field_late", "encode", "generator", "generator"]), rng.choice(["A", "B", "C"])))
        else:
            ops.append(("reg", rng.choice(["transformer", "transformer", "encoder"]), rng.choice(["A", "B", "C"]), rng.random() < 0.7,
                        rng.choice([0, 0, 0, 1, 2, -1])))
    return {"kind": "C", "ops": tuple(ops), "shortcut": rng.random() < 0.1}


# ---- models -------------------------------------------------------------------------------------
def matches(reg, t, cls):
    _, classes, sub, prio, attr, meta = reg[:6]
    if classes:
        cs = tuple(cls[c] for c in classes)
        if sub:
            if not issubclass(t, cs):
                return False
        elif t not in cs:
            return False
    if meta and not isinstance(t, Meta):
        return False
    if attr and not hasattr(t, attr):
        return False
    return True


def model_resolve(regs, t, cls):
    """regs: list of (op, tag) in registration order -> tag or None"""
    best = None
    for op, tag in regs:
        if matches(op, t, cls):
            if best is None or op[3] >= best[0]:
                best = (op[3], tag)
    return best[1] if best else None


class DefectModel:
    """the two defects seen on the pinned tree, as executable alternatives (diagnosis only)"""

    def __init__(self, stale_cache, nosort):
        self.stale_cache, self.nosort = stale_cache, nosort
        self.order = []  # registry order as the defective insert produces it
        self.cache = {}

    def register(self, op, tag):
        self.order.insert(0, (op, tag))
        if not self.nosort or op[3]:
            self.order.sort(key=lambda e: -e[0][3])

    def resolve(self, t, tname, cls):
        if self.stale_cache and tname in self.cache:
            return self.cache[tname]
        for op, tag in self.order:
            if matches(op, t, cls):
                if self.stale_cache:
                    self.cache[tname] = tag
                return tag
        return None


def nontrivial(ops):
    seen_reads = set()
    regs = 0
    reg_after_read = set()
    for op in ops:
        if op[0] in ("reg", "breg"):
            regs += 1
            reg_after_read |= seen_reads
        else:
            if regs >= 2 or op[1] in reg_after_read:
                return True
            seen_reads.add(op[1])
    return False


def run_history(ops, cls, cache=True, base_ops=None):
    """-> list of (index, tname, observed tag, model tag)"""
    from utype.utils.base import TypeRegistry

    base = None
    regs_base = []
    if base_ops is not None:
        base = TypeRegistry("vmon-base", cache=cache)
        for j, op in enumerate(base_ops):
            if op[0] == "reg":
                tag = ("base", j)
                _register(base, op, tag, cls)
                regs_base.append((op, tag))
    reg = TypeRegistry("vmon", cache=cache, base=base)
    regs = []
    reads = []
    funcs = []
    for j, op in enumerate(ops):
        if op[0] == "reg":
            tag = ("own", j)
            again = op[6] if len(op) > 6 else None
            if again is not None and funcs:
                # a registration is defined by its criteria: registering a function again ADDS a registration
                tag, fn = funcs[again % len(funcs)]
                _register(reg, op, tag, cls, fn=fn)
            else:
                funcs.append((tag, _register(reg, op, tag, cls)))
            regs.append((op, tag))
        elif op[0] == "breg":
            tag = ("base", 100 + j)
            _register(base, op, tag, cls)
            regs_base.append((op, tag))
        else:
            f = reg.resolve(cls[op[1]])
            obs = getattr(f, "vmon_tag", None) if f is not None else None
            exp = model_resolve(regs, cls[op[1]], cls)
            if exp is None and base is not None:
                exp = model_resolve(regs_base, cls[op[1]], cls)
            reads.append((j, op[1], obs, exp))
    return reads


def _register(reg, op, tag, cls, fn=None):
    _, classes, sub, prio, attr, meta = op[:6]

    def f(*a, **k):
        return tag

    f.vmon_tag = tag
    if fn is not None:
        f = fn      # the SAME function object registered once more, under other criteria
    kw = {"allow_subclasses": sub, "priority": prio}
    if attr:
        kw["attr"] = attr
    if meta:
        kw["metaclass"] = Meta
    reg.register(*[cls[c] for c in classes], **kw)(f)
    return f


def diagnose(ops, cls, reads):
    """which of the two known mechanisms explains the first wrong read?"""
    bad = next(((j, t, o, e) for j, t, o, e in reads if o != e), None)
    if bad is None:
        return None
    expl = []
    for stale, nosort, name in ((True, False, "stale-cache-after-later-registration"),
                                (False, True, "priority-0-registration-jumps-ahead-of-higher-priority"),
                                (True, True, "stale-cache+priority-0-order")):
        m = DefectModel(stale, nosort)
        ok = True
        for j, op in enumerate(ops):
            if op[0] == "reg":
                m.register(op, ("own", j))
            else:
                got = m.resolve(cls[op[1]], op[1], cls)
                obs = next(o for jj, t, o, e in reads if jj == j)
                if got != obs:
                    ok = False
                    break
        if ok:
            expl.append(name)
    return (expl[0] if expl else "unexplained"), bad


def _fmt(ops):
    out = []
    for op in ops:
        if op[0] in ("reg", "breg"):
            _, classes, sub, prio, attr, meta = op[:6]
            s = ("register(" if op[0] == "reg" else "BASE.register(") + ",".join(classes)
            if not sub:
                s += ", allow_subclasses=False"
            if prio:
                s += f", priority={prio}"
            if attr:
                s += f", attr='{attr}'"
            if meta:
                s += ", metaclass=Meta"
            out.append(s + ")")
        elif op[0] == "res":
            out.append(f"resolve({op[1]})")
        else:
            out.append(repr(op))
    return out


def run_case(case, ctx):
    cls = _S["cls"]
    if case["kind"] == "A":
        lo, hi = case["range"]
        for idx in range(lo, hi):
            ops = _decode(idx)
            reads = run_history(ops, cls)
            ctx.count("histories")
            ctx.count("reads", len(reads))
            _judge(ctx, ops, cls, reads, "fresh")
        return
    if case["kind"] == "B":
        ops = case["ops"]
        reads = run_history(ops, cls, cache=case["cache"], base_ops=case["base_ops"] if case["base"] else None)
        ctx.count("histories")
        ctx.count("reads", len(reads))
        _judge(ctx, ops, cls, reads, "fresh" if not case["base"] else "with-base", extra={"cache": case["cache"], "base_ops": _fmt(case["base_ops"]) if case["base"] else None},
               diag=not case["base"] and case["cache"])
        return
    run_global(case, ctx)


def _judge(ctx, ops, cls, reads, where, extra=None, diag=True):
    if not reads:
        ctx.trivial("no read")
        return
    wrong = [(j, t, o, e) for j, t, o, e in reads if o != e]
    sig = ops
    if not wrong:
        if nontrivial(ops):
            ctx.held(sig)
            if ctx.want_sample() and len(ops) >= 4:
                ctx.sample({"history": _fmt(ops), "reads": [{"op": j, "type": t, "observed": o, "model": e} for j, t, o, e in reads]})
        else:
            ctx.trivial("single registration / no interleaving")
        return
    mech, bad = diagnose(ops, cls, reads) if diag else ("unexplained", wrong[0])
    j, t, o, e = bad
    ctx.violation(f"C16/{where}/{mech}", f"history {_fmt(ops)}: read #{j} resolve({t}) observed registration {o}, model says {e}",
                  dict({"history": _fmt(ops), "reads": [{"op": jj, "type": tt, "observed": oo, "model": ee} for jj, tt, oo, ee in reads]}, **(extra or {})),
                  sig=sig)


# ---- part C: the library's global registries --------------------------------------------------------
def run_global(case, ctx):
    import utype
    from utype import Schema, type_transform
    from utype.utils.encode import JSONEncoder, encoder_registry
    from utype.utils.transform import TypeTransformer

    treg = TypeTransformer.registry

    class A:
        def __init__(self, v=None):
            self.v = v

    class B(A):
        pass

    class C(B):
        pass

    cls = {"A": A, "B": B, "C": C}
    if case["shortcut"]:
        def own(transformer, data, t):
            return t(("shortcut", data))
        B.__transformer__ = own

    class Early(Schema):
        a: A = None
        b: B = None
        c: C = None

    ours_t, ours_e = [], []
    gens = {}
    regs = {"transformer": [], "encoder": []}
    first = None
    try:
        for j, op in enumerate(case["ops"]):
            if op[0] == "reg":
                _, which, cname, sub, prio = op
                tag = (which, j)
                if which == "transformer":
                    def f(transformer, data, t, _tag=tag):
                        return t((_tag, data))
                    f.vmon_tag = tag
                    utype.register_transformer(cls[cname], allow_subclasses=sub, priority=prio)(f)
                    ours_t.append(f)
                else:
                    def g(o, _tag=tag):
                        return {"tag": list(_tag)}
                    g.vmon_tag = tag
                    utype.register_encoder(cls[cname], allow_subclasses=sub, priority=prio)(g)
                    ours_e.append(g)
                regs[which].append((("reg", (cname,), sub, prio, None, False), tag))
                continue
            _, how, cname = op
            t = cls[cname]
            ctx.count("global_reads")
            if how == "encode":
                exp = model_resolve(regs["encoder"], t, cls)
                try:
                    d = json.loads(json.dumps(t(), cls=JSONEncoder))
                    obs = tuple(d["tag"]) if isinstance(d, dict) and "tag" in d else "other"
                except TypeError:
                    obs = None
            else:
                exp = model_resolve(regs["transformer"], t, cls)
                if case["shortcut"] and issubclass(t, B):
                    exp = "shortcut"
                try:
                    if how == "resolve":
                        f = treg.resolve(t)
                        obs = getattr(f, "vmon_tag", "shortcut" if f is not None and case["shortcut"] else None) if f is not None else None
                    else:
                        if how == "convert":
                            r = type_transform(7, t)
                        elif how == "generator":
                            # a @parse generator that stays suspended between the reads of this history: every item it yields
                            # is converted by whatever the registrations so far say at THAT moment
                            if cname not in gens:
                                def _g():
                                    while True:
                                        yield 7
                                _g.__annotations__ = {"return": typing.Iterator[t]}
                                gens[cname] = utype.parse(_g)()
                            try:
                                r = next(gens[cname])
                            except BaseException:
                                gens.pop(cname, None)
                                raise
                        elif how == "field_early":
                            r = getattr(Early(**{cname.lower(): 7}), cname.lower())
                        else:
                            Late = type(Schema)("Late", (Schema,), {"__annotations__": {"x": t}, "__module__": "vmon_generated", "__qualname__": "Late"})
                            r = Late(x=7).x
                        obs = r.v[0] if isinstance(r, A) and isinstance(r.v, tuple) else "other"
                except Exception as e:
                    obs = None if "TypeMismatch" in type(e).__name__ or "ParseError" in type(e).__name__ else "error:" + type(e).__name__
            if obs != exp and first is None:
                first = (j, how, cname, obs, exp)
        hist = [repr(o) for o in case["ops"]]
        sig = ("global", case["ops"], case["shortcut"])
        if first is None:
            if any(o[0] == "read" for o in case["ops"]) and sum(1 for o in case["ops"] if o[0] == "reg") >= 1:
                ctx.held(sig)
                if ctx.want_sample():
                    ctx.sample({"global_history": hist})
            else:
                ctx.trivial("global: no read or no registration")
        else:
            j, how, cname, obs, exp = first
            # diagnose with the same defect models
            which = "encoder" if how == "encode" else "transformer"
            ops2 = []
            for op in case["ops"]:
                if op[0] == "reg" and op[1] == which:
                    ops2.append(("reg", (op[2],), op[3], op[4], None, False))
                elif op[0] == "read" and (op[1] == "encode") == (which == "encoder"):
                    ops2.append(("res", op[2]))
                else:
                    ops2.append(("noop",))
            mech = "unexplained"
            if not case["shortcut"]:
                for stale, nosort, name in ((True, False, "stale-cache-after-later-registration"),
                                            (False, True, "priority-0-registration-jumps-ahead-of-higher-priority"),
                                            (True, True, "stale-cache+priority-0-order")):
                    m = DefectModel(stale, nosort)
                    got = None
                    for jj, op in enumerate(ops2):
                        if op[0] == "reg":
                            m.register(op, (which, jj))
                        elif op[0] == "res":
                            got = m.resolve(cls[op[1]], op[1], cls)
                            if jj == j:
                                break
                    if got == obs:
                        mech = name
                        break
            ctx.violation(f"C16/global-{which}/{mech}", f"history {hist}: read #{j} {how}({cname}) observed {obs}, model says {exp}",
                          {"history": hist, "shortcut": case["shortcut"], "read": [j, how, cname, short(obs), short(exp)]}, sig=sig)
    finally:
        treg._registry[:] = [e for e in treg._registry if e[1] not in ours_t]
        encoder_registry._registry[:] = [e for e in encoder_registry._registry if e[1] not in ours_e]
        for c in (A, B, C):
            treg._cache.pop(c, None)
            encoder_registry._cache.pop(c, None)
        try:
            from utype.parser import base as pbase
            pbase.__parsers__.pop(Early, None)
        except Exception:
            pass


def conclusive(m, tier):
    c = m["counters"]
    if c.get("reads", 0) == 0 or c.get("global_reads", 0) == 0:
        return "no read observed on the fresh or the global registries"
    return None


def extra_coverage(m, tier):
    return {"histories_enumerated_exhaustively_up_to_length": MAXLEN[tier], "alphabet_size": len(ALPHA),
            "histories_run": m["counters"].get("histories", 0), "reads_checked": m["counters"].get("reads", 0) + m["counters"].get("global_reads", 0)}
