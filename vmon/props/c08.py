"""C08 — decorated functions get Python's binding with conforming arguments and result.

Events: for a generated signature and a call, what the BODY received (its locals, recorded by the
generated function), whether it ran, what the caller got back; for generators the trace of
(yielded, sent, returned) values of the decorated vs the raw function driven by the same script.
Oracle: inspect.signature(raw).bind(...) after translating accepted alias names, defaults applied,
annotated values replaced by their expected conversion."""
import asyncio
import inspect
import itertools
import typing

from .. import values as V
from ..execu import run
from ..runner import short

ID = "C08"
N = {"quick": 16000, "thorough": 90000}
TIME_BUDGET = {"quick": 50, "thorough": 540}
MIN_NONTRIVIAL = {"quick": 300, "thorough": 3000}
RULE = ("family B (80%): generated signatures over the five parameter kinds (0-2 positional-only, 0-2 positional-or-keyword, "
        "optional *args, 0-2 keyword-only, optional **kwargs; underscore-prefixed names in any position; annotations int / str / "
        "List[int] / none; defaults as Python defaults, Param(default), Param(default_factory); Param(alias / alias_from / "
        "case_insensitive) on keyword-capable parameters; typed or untyped *args / **kwargs; return annotation; Options collect_errors / case_insensitive; element policies are C11's) in the contexts "
        "plain function, instance method, classmethod, staticmethod (function decorated inside the class), as sync function or "
        "coroutine, generated as source text; x 8 calls that Python itself binds (each parameter by position / by name / by an "
        "accepted alias / omitted; extra positionals and keywords; values valid / convertible / invalid). family G (20%): sync and "
        "async generator functions with yield / send / return annotations, eager or lazy, driven by a script of next / send / throw steps (an Exception or a BaseException subclass; the body catches it and yields once more). "
        "family E (15%): 2-4 positional-or-keyword parameters with Param(dependencies=...) and Options(max_params / min_params / "
        "collect_errors), as plain function, instance method or @staticmethod over @utype.parse with a bare first parameter: the same "
        "argument values are passed all by keyword and with the first j by position, and verdict, error type and the binding the body "
        "receives must agree ('passing a parameter by position or by any accepted name is equivalent'). family bound (2%): @utype.parse applied to "
        "bound methods of several instances and to a classmethod taken from a class and its subclass, with one shared Options object. "
        "Non-trivial = the call binds and either converts something, uses a default, an alias, *args/**kwargs or fails; distinct = "
        "(signature shape, context, call shape, outcome).")
ASSUMPTIONS = [
    "expected binding = inspect.Signature.bind on the raw function after translating alias / case-variant keyword names to parameter names, apply_defaults with Param objects replaced by their default (a fresh factory value)",
    "expected conversion of an annotated value is taken from the library on the bare annotation (leaf conversion is C01/C12's subject); unannotated values must arrive unchanged",
    "calls Python itself would not bind are outside the statement and are not generated",
    "private parameters (names starting with '_') follow the documented rules: not parsed, cannot be passed by keyword (docs/en/guide/func.md 'Private parameters', pinned by tests/test_func.py::test_excluded_vars)",
    "a call in which any annotated value cannot be converted must raise ParseError without entering the body",
]
ANN = {"int": "int", "str": "str", "listint": "typing.List[int]"}
VALUES = {"int": ([5, 0], ["6", 7.0, b"8"], ["x", [1, 2], None]), "str": (["ab", ""], [9, b"xy"], []),
          "listint": ([[1, 2], []], ["3,4", ("5",)], ["x,y", [None]]), None: ([1, "s", None, [1]], [], [])}
_uid = itertools.count()
_conv = {}


def n_cases(tier):
    return N[tier]


def gen_sig(rng):
    names = iter(["a", "b", "c", "d", "e", "f", "g", "h"])
    params = []

    def mk(kind):
        name = next(names)
        if rng.random() < 0.12:
            name = "_" + name
        ann = rng.choice(["int", "int", "str", "listint", None])
        p = {"name": name, "kind": kind, "ann": ann, "default": None, "alias": None, "alias_from": [], "ci": False}
        return p

    n_po, n_pk, n_ko = rng.choice([0, 0, 1, 2]), rng.choice([0, 1, 1, 2]), rng.choice([0, 0, 1, 2])
    for _ in range(n_po):
        params.append(mk("po"))
    for _ in range(n_pk):
        params.append(mk("pk"))
    var_pos = rng.random() < 0.35
    if var_pos:
        params.append({"name": "args", "kind": "vp", "ann": rng.choice([None, "int", "str"]), "default": None, "alias": None, "alias_from": [], "ci": False})
    for _ in range(n_ko):
        params.append(mk("ko"))
    if rng.random() < 0.4:
        params.append({"name": "kwargs", "kind": "vk", "ann": rng.choice([None, None, "int"]), "default": None, "alias": None, "alias_from": [], "ci": False})
    # defaults: once a positional parameter has a default the following positional ones need one too
    seen_default = False
    for p in params:
        if p["kind"] in ("po", "pk"):
            if seen_default or rng.random() < 0.35:
                seen_default = True
                p["default"] = gen_default(rng, p)
        elif p["kind"] == "ko" and (rng.random() < 0.5 or p["name"].startswith("_")):
            # a private (underscore) keyword-only parameter can never be given: it needs a default
            p["default"] = gen_default(rng, p)
        if p["name"].startswith("_") and p["default"] is not None:
            p["default"] = ("py", p["default"][1])   # private parameters are not fields: plain Python defaults only
        if p["kind"] in ("pk", "ko") and not p["name"].startswith("_"):
            if rng.random() < 0.2:
                p["alias"] = p["name"].upper() + "x"
            if rng.random() < 0.2:
                p["alias_from"] = [p["name"] + "_in"]
            if rng.random() < 0.1:
                p["ci"] = True
            if (p["alias"] or p["alias_from"] or p["ci"]) and p["default"] is not None and p["default"][0] == "py":
                p["default"] = ("param", p["default"][1])
    has_vk = any(p["kind"] == "vk" for p in params)
    return {"params": params, "ret": rng.choice([None, None, "int", "str"]), "ctx": rng.choice(["plain", "plain", "method", "classmethod", "staticmethod"]),
            "parse_outside": rng.random() < 0.5,
            # (with **kwargs in the signature, options that talk about additions themselves: the annotation of **kwargs still decides)
            "opts": rng.choice([None, None, None, "collect_errors=True", "collect_errors=True", "case_insensitive=True"] +
                               (["addition=True", "addition=True", "addition=True, collect_errors=True"] if has_vk else [])),
            "is_async": rng.random() < 0.2, "body_ret": rng.choice(["a1", "lit"])}


def gen_default(rng, p):
    v = {"int": 7, "str": "d", "listint": [1], None: "u"}[p["ann"]]
    return (rng.choice(["py", "py", "param", "factory"]), v)


def sig_source(sig, fname="fn"):
    parts = []
    kinds = [p["kind"] for p in sig["params"]]
    ns_items = {}
    for i, p in enumerate(sig["params"]):
        if p["kind"] == "vp":
            parts.append("*args" + (f": {ANN[p['ann']]}" if p["ann"] else ""))
            continue
        if p["kind"] == "vk":
            parts.append("**kwargs" + (f": {ANN[p['ann']]}" if p["ann"] else ""))
            continue
        if p["kind"] == "ko" and "vp" not in kinds and (i == 0 or sig["params"][i - 1]["kind"] != "ko"):
            parts.append("*")
        s = p["name"] + (f": {ANN[p['ann']]}" if p["ann"] else "")
        needs_param = p["alias"] or p["alias_from"] or p["ci"] or (p["default"] and p["default"][0] in ("param", "factory"))
        if needs_param:
            kw = []
            if p["default"]:
                if p["default"][0] == "factory":
                    kw.append(f"default_factory=lambda: {p['default'][1]!r}")
                else:
                    kw.append(f"default={p['default'][1]!r}")
            if p["alias"]:
                kw.append(f"alias={p['alias']!r}")
            if p["alias_from"]:
                kw.append(f"alias_from={p['alias_from']!r}")
            if p["ci"]:
                kw.append("case_insensitive=True")
            s += " = utype.Param(" + ", ".join(kw) + ")"
        elif p["default"]:
            s += f" = {p['default'][1]!r}"
        parts.append(s)
        if p["kind"] == "po" and (i + 1 == len(sig["params"]) or sig["params"][i + 1]["kind"] != "po"):
            parts.append("/")
    first = {"method": "self", "classmethod": "cls"}.get(sig["ctx"])
    arglist = ", ".join(([first] if first else []) + parts)
    ret = f" -> {ANN[sig['ret']]}" if sig["ret"] else ""
    body_ret = {"int": "'41'", "str": "41", None: "'r'"}[sig["ret"]]
    df = "async def" if sig["is_async"] else "def"
    drop = f"_l.pop({first!r}, None); " if first else ""
    return f"{df} {fname}({arglist}){ret}:\n    _l = dict(locals()); {drop}_seen.append(_l)\n    return {body_ret}\n"


def build(sig):
    import utype

    uid = next(_uid)
    seen = []
    ns = {"utype": utype, "typing": typing, "_seen": seen}
    src = sig_source(sig)
    raw_ns = dict(ns)
    exec(src, raw_ns)
    raw = raw_ns["fn"]
    deco_parse = "@utype.parse" + (f"(options=utype.Options({sig['opts']}))" if sig.get("opts") else "")
    if sig["ctx"] == "plain":
        exec(deco_parse + "\n" + src, ns)
        return raw, ns["fn"], seen, deco_parse + "\n" + src
    deco = {"method": "", "classmethod": "    @classmethod\n", "staticmethod": "    @staticmethod\n"}[sig["ctx"]]
    body = "".join("    " + line + "\n" for line in src.rstrip("\n").split("\n"))
    order = rng_order = None
    cls_src = f"class K{uid}:\n" + ("    @utype.parse\n" + deco.replace("    @", "    @") if False else "")
    # decorator order: @utype.parse outermost of the function, inside classmethod/staticmethod
    if sig.get("parse_outside") and deco:
        cls_src = f"class K{uid}:\n    {deco_parse}\n{deco}{body}"   # documented: either order works
    else:
        cls_src = f"class K{uid}:\n{deco}    {deco_parse}\n{body}"
    exec(cls_src, ns)
    K = ns[f"K{uid}"]
    target = getattr(K(), "fn") if sig["ctx"] == "method" else getattr(K, "fn")
    return raw, target, seen, cls_src


def gen_call(rng, sig):
    """-> (args, kwargs, translated_kwargs, plan) a call Python binds on the raw function"""
    args, kwargs, tkw = [], {}, {}
    plan = []
    params = sig["params"]
    stop_pos = False
    for p in params:
        if p["kind"] in ("vp", "vk"):
            continue
        can_pos = p["kind"] in ("po", "pk") and not stop_pos
        can_kw = p["kind"] in ("pk", "ko") and not p["name"].startswith("_")   # documented: private parameters cannot be passed by keyword
        if not can_pos and not can_kw:
            if p["default"] is None:
                return gen_call_positional_only(rng, sig)
            plan.append("omit")
            continue
        omit = p["default"] is not None and rng.random() < 0.35
        if omit:
            plan.append("omit")
            if p["kind"] in ("po", "pk"):
                stop_pos = True
            continue
        val, vk = gen_val(rng, p["ann"])
        how = rng.choice((["pos"] * 2 if can_pos else []) + (["kw"] if can_kw else []) + (["alias"] if can_kw and (p["alias"] or p["alias_from"] or p["ci"]) else []))
        if how == "pos":
            args.append(val)
        else:
            stop_pos = True
            key = p["name"]
            if how == "alias":
                key = rng.choice(([p["alias"]] if p["alias"] else []) + p["alias_from"] + ([p["name"].upper()] if p["ci"] and p["name"].upper() != p["name"] else []) or [p["name"]])
            kwargs[key] = val
            tkw[p["name"]] = val
        plan.append(how + ":" + vk)
    if any(p["kind"] == "vp" for p in params) and not stop_pos and rng.random() < 0.6:
        ann = next(p["ann"] for p in params if p["kind"] == "vp")
        for _ in range(rng.choice([1, 2, 3])):
            v, vk = gen_val(rng, ann)
            args.append(v)
            plan.append("extra-pos:" + vk)
    if any(p["kind"] == "vk" for p in params) and rng.random() < 0.5:
        ann = next(p["ann"] for p in params if p["kind"] == "vk")
        for k in rng.sample(["zz", "extra", "Q"], rng.choice([1, 2])):
            v, vk = gen_val(rng, ann)
            kwargs[k] = v
            tkw[k] = v
            plan.append("extra-kw:" + vk)
    return args, kwargs, tkw, tuple(plan)


def gen_call_positional_only(rng, sig):
    """fallback: every positional parameter by position, keyword-only ones by name"""
    args, kwargs, tkw, plan = [], {}, {}, []
    for p in sig["params"]:
        if p["kind"] in ("po", "pk"):
            v, vk = gen_val(rng, p["ann"])
            args.append(v)
            plan.append("pos:" + vk)
        elif p["kind"] == "ko" and not p["name"].startswith("_"):
            v, vk = gen_val(rng, p["ann"])
            kwargs[p["name"]] = v
            tkw[p["name"]] = v
            plan.append("kw:" + vk)
    return args, kwargs, tkw, tuple(plan)


def gen_val(rng, ann):
    valid, conv, invalid = VALUES[ann]
    r = rng.random()
    if r < 0.5 or (not conv and not invalid):
        return rng.choice(valid), "valid"
    if r < 0.82 or not invalid:
        return rng.choice(conv or valid), "convertible"
    return rng.choice(invalid), "invalid"


def convert(ann, v):
    from utype import Rule, type_transform

    if ann is None:
        return ("ok", v)
    if ann not in _conv:
        _conv[ann] = Rule.parse_annotation({"int": int, "str": str, "listint": typing.List[int]}[ann])
    o = run(lambda: type_transform(v, _conv[ann]))
    return ("ok", o.value) if o.ok else ("bad",)


def gen_E(rng):
    """family E: one signature of 2-4 positional-or-keyword parameters (optionally inside a class: instance method, or
    @staticmethod over @utype.parse with a bare first parameter), with Param(dependencies=...) and Options(max_params /
    min_params), and one set of argument values; the monitor passes the same values with the first j by position"""
    n = rng.choice([2, 3, 3, 4])
    names = ["a", "b", "c", "d"][:n]
    ctxk = rng.choice(["plain", "plain", "method", "static_bare"])
    n_req = rng.choice([0, 1, 1, 2])
    params = []
    for k, nm in enumerate(names):
        ann = rng.choice(["int", "str"])
        if ctxk == "static_bare" and k == 0:
            ann = None
        dep = None
        if ann and rng.random() < 0.3:
            dep = rng.choice([x for x in names if x != nm])
        params.append({"name": nm, "ann": ann, "required": k < n_req or (ctxk == "static_bare" and k == 0), "dep": dep})
    opts = rng.choice([None, None, "max_params=%d" % rng.choice([1, 2, 3]), "min_params=%d" % rng.choice([1, 2, 3]),
                       "collect_errors=True", "max_params=%d, collect_errors=True" % rng.choice([1, 2])])
    given = []
    for k, pr in enumerate(params):
        if pr["required"] or rng.random() < 0.6:
            val = rng.choice({"int": [5, "6", "6", "x"], "str": ["ab", 9], None: [1, "s"]}[pr["ann"]])
            given.append((pr["name"], val))
    return {"fam": "E", "params": params, "ctx": ctxk, "opts": opts, "given": given}


def run_E(case, ctx):
    import utype

    parts = []
    for pr in case["params"]:
        s = pr["name"] + (f": {pr['ann']}" if pr["ann"] else "")
        dflt = {"int": "0", "str": "'d'", None: "None"}[pr["ann"]]
        if pr["dep"]:
            s += " = utype.Param(" + ("" if pr["required"] else dflt + ", ") + f"dependencies=[{pr['dep']!r}])"
        elif not pr["required"]:
            s += " = " + dflt
        parts.append(s)
    names = [pr["name"] for pr in case["params"]]
    deco = "@utype.parse" + (f"(options=utype.Options({case['opts']}))" if case["opts"] else "")
    body = f"    _seen.append(({', '.join(names)},))\n    return 1\n"
    seen = []
    ns = {"utype": utype, "_seen": seen}
    try:
        if case["ctx"] == "plain":
            src = f"{deco}\ndef fn({', '.join(parts)}):\n{body}"
            exec(src, ns)
            target = ns["fn"]
        elif case["ctx"] == "method":
            src = f"class K:\n    {deco}\n    def fn(self, {', '.join(parts)}):\n    {body.replace(chr(10) + '    ', chr(10) + '        ')}"
            exec(src, ns)
            target = ns["K"]().fn
        else:
            src = f"class K:\n    @staticmethod\n    {deco}\n    def fn({', '.join(parts)}):\n    {body.replace(chr(10) + '    ', chr(10) + '        ')}"
            exec(src, ns)
            target = ns["K"].fn
    except Exception as e:
        ctx.count("declaration_rejected:" + type(e).__name__)
        return
    given = case["given"]
    # the values that can be passed by position: a prefix of the parameters that is given without a gap
    prefix = 0
    for k, nm in enumerate(names):
        if k < len(given) and given[k][0] == nm:
            prefix = k + 1
        else:
            break

    def call(j):
        del seen[:]
        o = run(lambda: target(*[v for _, v in given[:j]], **{k: v for k, v in given[j:]}))
        return o, [tuple(x) for x in seen]
    ref, ref_seen = call(0)
    ctx.count("calls")
    ctx.count("equivalence_reference_calls")
    for j in range(1, prefix + 1):
        o, got = call(j)
        ctx.count("calls")
        ctx.count("equivalence_calls_compared")
        sigk = ("E", case["ctx"], case["opts"], tuple((pr["ann"], pr["required"], bool(pr["dep"])) for pr in case["params"]), j, len(given), ref.kind, o.kind)
        # (which of several applicable errors is raised first is not part of the statement: verdict and binding are)
        same = (ref.ok == o.ok) and all(
            len(x) == len(y) and all(V.approx_eq(p_, q_) and type(p_) is type(q_) for p_, q_ in zip(x, y)) for x, y in zip(ref_seen, got)) and len(ref_seen) == len(got)
        if not same:
            feat = "+".join(sorted({"dependencies"} & ({"dependencies"} if any(pr["dep"] for pr in case["params"]) else set()) |
                                   ({"params-count"} if case["opts"] and "_params" in case["opts"] else set()) |
                                   ({case["ctx"]} if case["ctx"] != "plain" else set()))) or "plain"
            ctx.violation(f"C08/by-position-differs-from-by-keyword/{feat}",
                          f"{_head(src)} values {short(given, 100)}: all by keyword -> {ref!r} body {short(ref_seen, 60)}; first {j} by position -> {o!r} body {short(got, 60)}",
                          {"source": src, "values": short(given, 200), "by_keyword": repr(ref), "by_position": repr(o), "first_j_positional": j}, sig=sigk)
        elif prefix and (not ref.ok or any(pr["dep"] for pr in case["params"]) or case["opts"]):
            ctx.held(sigk)
        else:
            ctx.trivial("equivalent-plain")


BOUND_SRC = """
import utype
from utype import Options
class K:
    def __init__(self, tag):
        self.tag = tag
    def m(self, a: int, b: str = '-'):
        _seen.append((self.tag, a, b))
        return self.tag
    @classmethod
    def c(cls, a: int):
        _seen.append((cls.__name__, a))
        return cls.__name__
class K2(K):
    pass
@utype.parse
class Box:                       # the whole class decorated; an EMPTY box is falsy
    def __init__(self):
        self.items = []
    def __len__(self):
        return len(self.items)
    def peek(self, n: int = 0, *more: int):
        _seen.append(('box', len(self.items), n, more))
        return n
    def put(self, x: int):
        self.items.append(x)
        _seen.append(('put', x))
"""


def run_bound(case, ctx):
    """@utype.parse applied to BOUND methods of several instances / classes (with one shared Options object, or none):
    each wrapper runs the body with the object Python binds"""
    import utype
    from utype import Options
    seen = []
    ns = {"_seen": seen}
    exec(BOUND_SRC, ns)
    K, K2 = ns["K"], ns["K2"]
    opts = {"none": None, "shared": Options(collect_errors=True), "shared-plain": Options(addition=None, ignore_required=False)}[case["opts"]]
    objs = [K("alpha"), K("beta"), K2("gamma")]
    order = case["order"]
    try:
        ws = [(objs[j], utype.parse(objs[j].m, options=opts) if opts is not None else utype.parse(objs[j].m)) for j in order]
        cs = [(c, utype.parse(c.c, options=opts) if opts is not None else utype.parse(c.c)) for c in ([K, K2] if case["flip"] else [K2, K])]
    except Exception as e:
        ctx.count("declaration_rejected:" + type(e).__name__)
        return
    sig = ("bound", case["opts"], tuple(order), case["flip"])
    box = ns["Box"]()
    for step, exp in ((lambda: box.peek("3"), ('box', 0, 3, ())), (lambda: box.put("4"), ('put', 4)), (lambda: box.peek(n="5"), ('box', 1, 5, ())),
                      (lambda: box.peek("1", "2"), ('box', 1, 1, (2,)))):
        del seen[:]
        o = run(step)
        ctx.count("calls")
        if not o.ok or not seen or seen[-1] != exp:
            ctx.violation("C08/method-of-a-decorated-class/body-does-not-receive-pythons-binding",
                          f"@utype.parse class Box (falsy while empty): body received {seen[-1:] or None}, Python binds {exp}; outcome {o!r}",
                          {"source": BOUND_SRC, "expected": list(map(repr, exp))}, sig=sig)
            return
    for obj, w in ws:
        del seen[:]
        o = run(lambda: w("5", b=7))
        ctx.count("calls")
        ctx.count("bound_method_calls")
        exp = (obj.tag, 5, "7")
        if not o.ok or not seen or seen[-1] != exp:
            ctx.violation("C08/bound-method/body-bound-to-another-object",
                          f"utype.parse(<{obj.tag}>.m, options={case['opts']}) called ('5', b=7): body received {seen[-1:] or None}, Python binds {exp}; outcome {o!r}",
                          {"source": BOUND_SRC, "decorated_in_order": [objs[j].tag for j in order], "options": case["opts"], "observed": seen[-1:] and list(seen[-1])}, sig=sig)
            return
    for c, w in cs:
        del seen[:]
        o = run(lambda: w("6"))
        ctx.count("calls")
        exp = (c.__name__, 6)
        if not o.ok or not seen or seen[-1] != exp:
            ctx.violation("C08/bound-method/body-bound-to-another-object",
                          f"utype.parse({c.__name__}.c, options={case['opts']}) called ('6'): body received {seen[-1:] or None}, Python binds {exp}; outcome {o!r}",
                          {"source": BOUND_SRC, "options": case["opts"]}, sig=sig)
            return
    ctx.held(sig)


def make_case(i, rng, tier):
    if rng.random() < 0.02:
        return {"fam": "bound", "opts": rng.choice(["none", "shared", "shared", "shared-plain"]), "order": rng.sample([0, 1, 2], rng.choice([2, 3])), "flip": rng.random() < 0.5}
    if rng.random() < 0.15:
        return gen_E(rng)
    if rng.random() < 0.2:
        return {"fam": "G", "is_async": rng.random() < 0.4, "eager": rng.random() < 0.5, "yield_t": rng.choice(["int", "str", None]),
                "send_t": rng.choice(["int", None]), "ret_t": rng.choice(["int", None]), "n": rng.choice([0, 1, 2, 3]),
                "script": [rng.choice([None, None, "5", 6, "x"] + (["THROW"] if i % 3 == 0 else [])) for _ in range(4)], "arg": rng.choice([2, "3", "x"]),
                "throw_base": rng.random() < 0.4}
    sig = gen_sig(rng)
    return {"fam": "B", "sig": sig, "calls": [gen_call(rng, sig) for _ in range(8)]}


def sig_shape(sig):
    return (tuple((p["kind"], p["ann"], p["default"][0] if p["default"] else None, bool(p["alias"]), bool(p["alias_from"]), p["ci"], p["name"].startswith("_")) for p in sig["params"]),
            sig["ret"], sig["ctx"], sig["is_async"], sig.get("opts"))


def run_B(case, ctx):
    sig = case["sig"]
    try:
        raw, target, seen, src = build(sig)
    except Exception as e:
        ctx.count("declaration_rejected:" + type(e).__name__)
        return
    rsig = inspect.signature(raw)
    shape = sig_shape(sig)
    pmap = {p["name"]: p for p in sig["params"]}
    first = {"method": "self", "classmethod": "cls"}.get(sig["ctx"])
    for args, kwargs, tkw, plan in case["calls"]:
        try:
            bound = rsig.bind(*(([object()] if first else []) + list(args)), **tkw)
        except TypeError:
            ctx.count("python_would_not_bind")
            continue
        bound.apply_defaults()
        exp = dict(bound.arguments)
        if first:
            exp.pop(first, None)
        fail = False
        for name, val in list(exp.items()):
            p = pmap[name]
            if type(val).__name__ == "Param":   # default object -> its default / factory value
                val = p["default"][1] if p["default"] else None
                exp[name] = val
                continue   # declared defaults are not converted
            if name in bound.arguments and _was_default(bound, rsig, name, args, tkw, first):
                continue
            if p["kind"] == "vp":
                outl = []
                for x in val:
                    c = convert(p["ann"], x)
                    if c[0] == "bad":
                        if sig.get("opts") != "invalid_items='exclude'":
                            fail = True    # under invalid_items='exclude' an invalid *args element is dropped instead
                    else:
                        outl.append(c[1])
                exp[name] = tuple(outl)
            elif p["kind"] == "vk":
                outd = {}
                for k, x in val.items():
                    c = convert(p["ann"], x)
                    if c[0] == "bad":
                        fail = True
                    else:
                        outd[k] = c[1]
                exp[name] = outd
            elif name.startswith("_"):
                exp[name] = val   # documented: private parameters do not participate in parsing
            else:
                c = convert(p["ann"], val)
                if c[0] == "bad":
                    fail = True
                else:
                    exp[name] = c[1]
        del seen[:]

        def thunk():
            r = target(*args, **kwargs)
            if sig["is_async"]:
                r = asyncio.run(r)
            return r
        out = run(thunk)
        ctx.count("calls")
        body_ran = bool(seen)
        got = dict(seen[-1]) if seen else None
        sigk = (shape, plan, out.kind)
        wit = {"source": src, "call": f"fn(*{short(args, 120)}, **{short(kwargs, 120)})", "expected_binding": short(exp, 300) if not fail else "ParseError, body not entered",
               "body_received": short(got, 300), "outcome": repr(out)}
        feat = _features(sig, plan)
        bare_static = (sig["ctx"] == "staticmethod" and not sig.get("parse_outside") and sig["params"] and sig["params"][0]["kind"] in ("po", "pk")
                       and sig["params"][0]["ann"] is None and sig["params"][0]["default"] is None and not sig["params"][0]["name"].startswith("_"))
        if bare_static and (fail and body_ran or (not fail and (not out.ok or not body_ran or any(n not in got or not V.approx_eq(got[n], exp[n]) for n in exp)))):
            ctx.violation("C08/staticmethod-decorated-inside-whose-first-parameter-is-bare-is-taken-for-an-instance-method",
                          f"{_head(src)} call {wit['call']}: {out!r}; body received {short(got, 100)}; Python binds {short(exp, 100)}", wit, sig=sigk)
            continue
        if fail:
            if body_ran:
                ctx.violation(f"C08/body-entered-although-a-parameter-failed/{feat}", f"{src.splitlines()[-3] if False else _head(src)} call {wit['call']}: body ran with {short(got, 120)}", wit, sig=sigk)
            elif out.kind != "parse":
                ctx.violation(f"C08/invalid-argument-not-a-ParseError/{out.kind}/{feat}", f"{_head(src)} call {wit['call']}: {out!r}", wit, sig=sigk)
            else:
                ctx.held(sigk)
            continue
        if not out.ok:
            ctx.violation(f"C08/bindable-call-rejected/{type(out.exc).__name__}/{feat}", f"{_head(src)} call {wit['call']}: {out!r}; Python binds it as {short(exp, 120)}", wit, sig=sigk)
            continue
        if not body_ran:
            ctx.violation(f"C08/body-not-entered/{feat}", f"{_head(src)} call {wit['call']} returned {out!r} without running the body", wit, sig=sigk)
            continue
        bad = [n for n in set(exp) | set(got) if n not in exp or n not in got or not V.approx_eq(got[n], exp[n])]
        if bad:
            n0 = sorted(bad)[0]
            p = pmap.get(n0, {"kind": "?", "name": n0})
            ctx.violation(f"C08/binding-differs/{p['kind']}" + ("/underscore-name" if str(n0).startswith("_") else "") + f"/{feat}",
                          f"{_head(src)} call {wit['call']}: parameter {n0}: body got {got.get(n0, '<missing>')!r}, Python + conversion give {exp.get(n0, '<missing>')!r}", wit, sig=sigk)
            continue
        exp_ret = {"int": 41, "str": "41", None: "r"}[sig["ret"]]
        if not V.approx_eq(out.value, exp_ret):
            ctx.violation(f"C08/result-does-not-conform/{sig['ret']}", f"{_head(src)}: returned {out.value!r}, annotation {sig['ret']} expects {exp_ret!r}", wit, sig=sigk)
            continue
        if any(x != "pos:valid" for x in plan):
            ctx.held(sigk)
            if ctx.want_sample() and len(sig["params"]) > 2:
                ctx.sample(wit)
        else:
            ctx.trivial("positional valid call")


def _was_default(bound, rsig, name, args, tkw, first):
    """True when the parameter's value in the bound arguments is its declared default (not given by the call)"""
    given = set(tkw)
    pos_names = [n for n, p in rsig.parameters.items() if p.kind in (p.POSITIONAL_ONLY, p.POSITIONAL_OR_KEYWORD)]
    if first and pos_names and pos_names[0] == first:
        pos_names = pos_names[1:]
    given |= set(pos_names[:len(args)])
    p = rsig.parameters[name]
    if p.kind in (p.VAR_POSITIONAL, p.VAR_KEYWORD):
        return False
    return name not in given


def _head(src):
    for line in src.splitlines():
        if line.strip().startswith(("def ", "async def ")):
            return line.strip()[:200]
    return src[:120]


def _features(sig, plan):
    f = []
    if any(x.startswith("alias") for x in plan):
        f.append("alias")
    if any(x.startswith("extra-pos") for x in plan):
        f.append("varargs")
    if any(x.startswith("extra-kw") for x in plan):
        f.append("varkw")
    if any(p["name"].startswith("_") for p in sig["params"]):
        f.append("underscore-param")
    if sig["ctx"] != "plain":
        f.append(sig["ctx"])
    if sig["is_async"]:
        f.append("coroutine")
    if sig.get("opts"):
        f.insert(0, sig["opts"].split("=")[0])
    return "+".join(f[:3]) or "plain"


# ---- generators -----------------------------------------------------------------------------------
class ThrownIn(Exception):
    """what the driver throws into a generator (not a ValueError: ParseError is one)"""


class ThrownInBase(BaseException):
    """the same for interruptions that are not Exceptions (KeyboardInterrupt, asyncio.CancelledError are of this kind)"""


def run_G(case, ctx):
    import utype

    y, s, r = case["yield_t"], case["send_t"], case["ret_t"]
    ann = "typing.%s[%s, %s%s]" % ("AsyncGenerator" if case["is_async"] else "Generator", ANN.get(y, "typing.Any"), ANN.get(s, "typing.Any"),
                                    "" if case["is_async"] else ", " + ANN.get(r, "typing.Any"))
    ret_line = "" if case["is_async"] else "    return '77'\n"
    src = (f"{'async ' if case['is_async'] else ''}def gen(n: int) -> {ann}:\n    _seen.append(('entered', n))\n    for i in range(n):\n"
           f"        try:\n            got = yield str(i * 10)\n        except ThrownIn:\n            _seen.append(('thrown', i))\n"
           f"            got = yield str(i * 10 + 5)\n        _seen.append(('sent', got))\n{ret_line}")
    seen = []
    Thrown = ThrownInBase if case.get("throw_base") else ThrownIn
    ns = {"utype": utype, "typing": typing, "_seen": seen, "ThrownIn": Thrown}
    try:
        exec(src, ns)
        raw = ns["gen"]
        w = utype.parse(raw, eager=case["eager"])
    except Exception as e:
        ctx.count("declaration_rejected:" + type(e).__name__)
        return
    arg = case["arg"]
    carg = convert("int", arg)
    script = case["script"]

    def drive_sync(g):
        trace = []
        try:
            item = next(g)
            i = 0
            while True:
                trace.append(("yield", item))
                sv = script[i % len(script)]
                i += 1
                item = g.throw(Thrown("thrown in")) if sv == "THROW" else g.send(sv) if sv is not None else next(g)
        except StopIteration as e:
            trace.append(("return", e.value))
        except Thrown:
            trace.append(("raised", "ThrownIn"))
        return trace

    async def drive_async(g):
        trace = []
        try:
            item = await g.__anext__()
            i = 0
            while True:
                trace.append(("yield", item))
                sv = script[i % len(script)]
                i += 1
                item = await (g.athrow(Thrown("thrown in")) if sv == "THROW" else g.asend(sv) if sv is not None else g.__anext__())
        except StopAsyncIteration:
            trace.append(("return", None))
        except Thrown:
            trace.append(("raised", "ThrownIn"))
        return trace

    def expected():
        """the raw generator driven by the same script, with every value converted to its declared type"""
        if carg[0] == "bad":
            return "ParseError"
        n = carg[1]
        trace, sent_log = [], []
        i = 0
        for k in range(n):
            c = convert(y, str(k * 10))
            trace.append(("yield", c[1]))
            sv = script[i % len(script)]
            i += 1
            if sv == "THROW":
                # the body catches the exception thrown in at its yield and yields once more
                trace.append(("yield", convert(y, str(k * 10 + 5))[1]))
                sv = script[i % len(script)]
                i += 1
                if sv == "THROW":
                    # thrown in at the yield of the handler: the exception leaves the generator
                    trace.append(("raised", "ThrownIn"))
                    return (trace, sent_log)
            if sv is not None:
                cs = convert(s, sv)
                if cs[0] == "bad":
                    return ("ParseError-on-send", trace, sent_log)
                sent_log.append(cs[1])
            else:
                sent_log.append(None)
        trace.append(("return", None if case["is_async"] else convert(r, "77")[1]))
        return (trace, sent_log)

    exp = expected()
    del seen[:]

    def thunk():
        g = w(arg)
        if case["is_async"]:
            return asyncio.run(drive_async(g))
        return drive_sync(g)
    out = run(thunk)
    ctx.count("calls")
    sent_seen = [v for k, v in seen if k == "sent"]
    sigk = ("G", case["is_async"], case["eager"], y, s, r, case["n"] if False else None, out.kind, type(exp).__name__)
    wit = {"source": src, "eager": case["eager"], "argument": repr(arg), "script(None=next, 'THROW'=throw ThrownIn, else send)": script, "expected": short(exp, 300),
           "observed": repr(out), "sent_values_seen_by_body": short(sent_seen, 120)}
    kind = ("async-" if case["is_async"] else "sync-") + "generator" + ("/eager" if case["eager"] else "/lazy")
    if exp == "ParseError":
        if any(k == "entered" for k, _ in seen):
            ctx.violation(f"C08/generator/body-entered-although-the-argument-failed/{kind}", f"{kind} gen({arg!r}): body entered", wit, sig=sigk)
        elif out.kind != "parse":
            ctx.violation(f"C08/generator/invalid-argument-not-a-ParseError/{kind}", f"{kind} gen({arg!r}): {out!r}", wit, sig=sigk)
        else:
            ctx.held(sigk)
        return
    if exp[0] == "ParseError-on-send":
        if out.kind != "parse":
            ctx.violation(f"C08/generator/invalid-sent-value-not-a-ParseError/{kind}", f"{kind} gen({arg!r}) script {script}: {out!r}", wit, sig=sigk)
        else:
            ctx.held(sigk)
        return
    trace, sent_log = exp
    if not out.ok:
        ctx.violation(f"C08/generator/valid-run-raised/{type(out.exc).__name__}/{kind}", f"{kind} gen({arg!r}) script {script}: {out!r}; expected trace {short(trace, 120)}", wit, sig=sigk)
        return
    if not V.approx_eq(out.value, trace):
        ctx.violation(f"C08/generator/trace-differs/{kind}" + ("/with-send" if any(v is not None for v in sent_log) else ""),
                      f"{kind} gen({arg!r}) script {script}: trace {short(out.value, 160)} != raw+conversion {short(trace, 160)}", wit, sig=sigk)
        return
    exp_sent = sent_log[:len(sent_seen)]
    if not V.approx_eq(sent_seen, exp_sent):
        ctx.violation(f"C08/generator/sent-values-differ/{kind}", f"{kind} gen({arg!r}) script {script}: body saw {sent_seen!r}, expected {exp_sent!r}", wit, sig=sigk)
        return
    ctx.held(sigk)
    if ctx.want_sample() and trace:
        ctx.sample(wit)


def run_case(case, ctx):
    if case["fam"] == "bound":
        return run_bound(case, ctx)
    if case["fam"] == "E":
        return run_E(case, ctx)
    return run_B(case, ctx) if case["fam"] == "B" else run_G(case, ctx)


def conclusive(m, tier):
    if m["counters"].get("calls", 0) == 0:
        return "no call executed"
    return None
