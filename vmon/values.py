"""Hostile value pool (organised by the converter branch each value is aimed at) and NaN-aware,
type-aware deep equality.  Every pool entry is a *factory* so one-shot values (iterators,
generators, BytesIO) are fresh for each run of a differential pair."""
import collections
import datetime as dt
import decimal
import enum
import io
import math
import types
import uuid
from collections import ChainMap, OrderedDict, deque
from decimal import Decimal
from fractions import Fraction

INF = float("inf")
NAN = float("nan")


class Color(enum.Enum):
    RED = "red"
    GREEN = "green"


class Tone(str, enum.Enum):
    """a member of a str-mixin enum equals its value (Tone.RED == 'red')"""
    RED = "red"


class Num(enum.IntEnum):
    ONE = 1
    TWO = 2


class Mixed(enum.Enum):
    A = 1
    B = "b"
    C = (1, 2)


class MyInt(int):
    pass


class MyStr(str):
    pass


class MyList(list):
    pass


class MyDict(dict):
    pass


class UserMapping(collections.abc.Mapping):
    def __init__(self, d):
        self._d = dict(d)

    def __getitem__(self, k):
        return self._d[k]

    def __iter__(self):
        return iter(self._d)

    def __len__(self):
        return len(self._d)

    def __repr__(self):
        return f"UserMapping({self._d!r})"


class Plain:
    def __repr__(self):
        return "Plain()"


class RaisingEq:
    def __eq__(self, other):
        raise RuntimeError("hostile __eq__")

    __hash__ = object.__hash__

    def __repr__(self):
        return "RaisingEq()"


class RaisingStr:
    def __str__(self):
        raise RuntimeError("hostile __str__")

    def __repr__(self):
        return "RaisingStr()"


class RaisingLen:
    def __len__(self):
        raise RuntimeError("hostile __len__")

    def __repr__(self):
        return "RaisingLen()"


class RaisingBool:
    def __bool__(self):
        raise RuntimeError("hostile __bool__")

    def __repr__(self):
        return "RaisingBool()"


class RaisingIter:
    def __iter__(self):
        raise RuntimeError("hostile __iter__")

    def __repr__(self):
        return "RaisingIter()"


class RaisingHash:
    def __hash__(self):
        raise RuntimeError("hostile __hash__")

    def __repr__(self):
        return "RaisingHash()"


def _gen(items):
    for x in items:
        yield x


def deep_list(n):
    x = []
    for _ in range(n):
        x = [x]
    return x


def deep_dict(n):
    x = {}
    for _ in range(n):
        x = {"a": x}
    return x


TZ_P = dt.timezone(dt.timedelta(hours=5, minutes=30))
TZ_N = dt.timezone(dt.timedelta(hours=-5))

# (name, factory, tags) -- tags name the origins whose converter the value is aimed at
_P = []


def P(name, factory, *tags):
    _P.append((name, factory, frozenset(tags)))


def const(v):
    return lambda: v


NUMERIC = ("int", "float", "Decimal", "bool", "datetime", "date", "timedelta", "UUID", "Num", "Mixed")
for _n, _v in [
    ("0", 0), ("1", 1), ("-1", -1), ("2", 2), ("3", 3), ("7", 7), ("10", 10), ("11", 11), ("255", 255),
    ("True", True), ("False", False),
    ("2**31", 2 ** 31), ("2**63", 2 ** 63), ("-2**63", -2 ** 63), ("10**30", 10 ** 30), ("10**400", 10 ** 400),
    ("2e10", 20000000000), ("2e10+1", 20000000001), ("1.6e12", 1600000000000),
    ("0.0", 0.0), ("-0.0", -0.0), ("1.0", 1.0), ("1.5", 1.5), ("-1.5", -1.5), ("2.0", 2.0), ("10.0", 10.0),
    ("0.1", 0.1), ("3.14", 3.14), ("99.95", 99.95), ("999.5", 999.5), ("1e16", 1e16), ("1e300", 1e300), ("5e-324", 5e-324),
    ("1e-7", 1e-7), ("1600000000.5", 1600000000.5),
    ("inf", INF), ("-inf", -INF), ("nan", NAN),
    ("D0", Decimal("0")), ("D1", Decimal("1")), ("D1.0", Decimal("1.0")), ("D1.50", Decimal("1.50")), ("D-2.5", Decimal("-2.5")),
    ("D99.95", Decimal("99.95")), ("D1E+3", Decimal("1E+3")), ("D1E-10", Decimal("1E-10")), ("D0.000", Decimal("0.000")),
    ("DInf", Decimal("Infinity")), ("D-Inf", Decimal("-Infinity")), ("DNaN", Decimal("NaN")), ("DsNaN", Decimal("sNaN")),
    ("1j", 1j), ("2+0j", 2 + 0j),
    ("Fraction", Fraction(1, 2)), ("Fraction2/1", Fraction(2, 1)),
]:
    P(_n, const(_v), *NUMERIC)

STRINGY = ("str", "bytes", "int", "float", "Decimal", "bool", "NoneType", "datetime", "date", "time", "timedelta",
           "UUID", "list", "dict", "Color", "Num", "Mixed", "tuple", "set")
for _s in ["", " ", "0", "1", "-1", "7", "10", "12", " 12 ", "1.0", "1.5", "10.0", "1e3", "1E400", "0x10", "1_000",
           "9" * 50, "9" * 5000, "inf", "-inf", "Infinity", "-Infinity", "nan", "NaN", "+inf",
           "true", "false", "True", "FALSE", "yes", "no", "on", "off", "t", "f", "y", "n",
           "null", "None", "nil", "NULL",
           "a", "ab", "abc", "abcd", "red", "RED", "green", "b", "ONE", "TWO",
           "1,2,3", "1;2", "a,b", "[1,2,3]", "[1, 2", "[1,", "{1}", "(1,", "(1,2)", "{1,2}", "[]", "{}", "()", '["a","b"]',
           '{"a": 1}', '{"a": 1, "b": [1,2]}', "{'a': 1}", "a=1&b=2", "a=1;b=2", "a=1, b=2", "a=1",
           "2020-01-02", "2020-01-02 03:04:05", "2020-01-02T03:04:05", "2020-01-02T03:04:05Z", "2020-01-02T03:04:05.123456",
           "2020-01-02T03:04:05+08:00", "2020-01-02T03:04:05-05:00", "2020-01-02 03:04:05 +0800", "2020-13-45", "0000-00-00",
           "02/01/2020", "20200102", "Thu, 02 Jan 2020 03:04:05 GMT", "03:04:05", "03:04", "03:04:05.123", "25:00:00",
           "P1DT2H", "-P1DT2H3M4.5S", "PT0S", "1 day, 2:03:04", "3 days", "1:02:03", "-1:02:03.5", "P", "PT",
           "12345678-1234-5678-1234-567812345678", "12345678123456781234567812345678", "{12345678-1234-5678-1234-567812345678}",
           "not-a-uuid", "é", "日本", "\x00", "a\nb"]:
    P("s:" + (_s if len(_s) < 30 else _s[:10] + "..x%d" % len(_s)), const(_s), *STRINGY)
    try:
        _b = _s.encode()
        if len(_s) < 40:
            P("b:" + _s, const(_b), *STRINGY)
    except Exception:
        pass

P("b:\\xff\\xfe", const(b"\xff\xfe"), *STRINGY)
P("b:a\\xffb", const(b"a\xffb"), *STRINGY)
P("b:1\\xff", const(b"1\xff"), *STRINGY)
P("ba:12", lambda: bytearray(b"12"), *STRINGY)
P("ba:\\xff", lambda: bytearray(b"\xff"), *STRINGY)
P("mv:12", lambda: memoryview(b"12"), *STRINGY)
P("mv:abc", lambda: memoryview(b"abc"), *STRINGY)
P("uuidbytes16", const(b"\x12\x34\x56\x78" * 4), "UUID", "bytes")
P("MyStr:12", lambda: MyStr("12"), *STRINGY)
P("MyInt:5", lambda: MyInt(5), *NUMERIC)

CONT = ("list", "tuple", "set", "frozenset", "deque", "dict", "Sequence", "Iterable", "Iterator", "Mapping", "int", "str",
        "float", "bool", "Decimal", "Num", "Color", "datetime", "NoneType", "bytes", "date", "UUID", "time", "timedelta", "Mixed")
for _n, _f in [
    ("[]", lambda: []), ("()", lambda: ()), ("set()", lambda: set()), ("frozenset()", lambda: frozenset()), ("{}", lambda: {}),
    ("deque()", lambda: deque()),
    ("[1]", lambda: [1]), ("['1']", lambda: ["1"]), ("[1,2]", lambda: [1, 2]), ("[1,2,3]", lambda: [1, 2, 3]),
    ("['1','x',3]", lambda: ["1", "x", 3]), ("['x']", lambda: ["x"]), ("[None]", lambda: [None]), ("[1,1]", lambda: [1, 1]),
    ("[1,1.0,True]", lambda: [1, 1.0, True]), ("[[1],[2]]", lambda: [[1], [2]]), ("[[1,'x']]", lambda: [[1, "x"]]),
    ("(1,)", lambda: (1,)), ("(1,2)", lambda: (1, 2)), ("('1','2')", lambda: ("1", "2")), ("(1,'x')", lambda: (1, "x")),
    ("(1,2,3)", lambda: (1, 2, 3)), ("('x',2,3)", lambda: ("x", 2, 3)),
    ("{1}", lambda: {1}), ("{1,2}", lambda: {1, 2}), ("{'1','x'}", lambda: {"1", "x"}), ("{'x'}", lambda: {"x"}),
    ("fs{1,'2'}", lambda: frozenset({1, "2"})), ("fs{'x'}", lambda: frozenset({"x"})),
    ("deque[1,'2']", lambda: deque([1, "2"])), ("deque['x']", lambda: deque(["x"])),
    ("iter[1,'2']", lambda: iter([1, "2"])), ("iter['x',1]", lambda: iter(["x", 1])), ("iter[]", lambda: iter([])),
    ("gen[1,'2']", lambda: _gen([1, "2"])), ("gen['x']", lambda: _gen(["x"])),
    ("range(3)", lambda: range(3)), ("range(0)", lambda: range(0)),
    ("dkeys", lambda: {"1": 1, "2": 2}.keys()), ("dvalues", lambda: {"a": 1, "b": "x"}.values()), ("ditems", lambda: {"a": 1}.items()),
    ("{'a':1}", lambda: {"a": 1}), ("{'a':'1'}", lambda: {"a": "1"}), ("{'a':'x'}", lambda: {"a": "x"}), ("{1:2}", lambda: {1: 2}),
    ("{'1':'2','x':'y'}", lambda: {"1": "2", "x": "y"}), ("{'a':1,'b':2}", lambda: {"a": 1, "b": 2}), ("{'':1}", lambda: {"": 1}),
    ("{'a':{'a':1}}", lambda: {"a": {"a": 1}}), ("{'a':[1,'x']}", lambda: {"a": [1, "x"]}), ("{(1,2):3}", lambda: {(1, 2): 3}),
    ("{None:None}", lambda: {None: None}),
    ("[('a',1)]", lambda: [("a", 1)]), ("[('a',1),('b','x')]", lambda: [("a", 1), ("b", "x")]), ("[{'a':1,'b':2}]", lambda: [{"a": 1, "b": 2}]),
    ("[{'a':1}]", lambda: [{"a": 1}]), ("[{'a':1},{'a':2}]", lambda: [{"a": 1}, {"a": 2}]),
    ("OrderedDict", lambda: OrderedDict(a=1)), ("MyDict", lambda: MyDict(a="1")), ("MyList", lambda: MyList([1, "2"])),
    ("mappingproxy", lambda: types.MappingProxyType({"a": 1})), ("ChainMap", lambda: ChainMap({"a": 1}, {"b": 2})),
    ("UserMapping", lambda: UserMapping({"a": "1"})), ("UserMapping{}", lambda: UserMapping({})),
    ("deep_list60", lambda: deep_list(60)), ("deep_dict60", lambda: deep_dict(60)), ("wide1000", lambda: list(range(1000))),
    ("wide_str1000", lambda: [str(i) for i in range(1000)]), ("[nan]", lambda: [NAN]), ("[inf,'inf']", lambda: [INF, "inf"]),
    ("[b'1',b'\\xff']", lambda: [b"1", b"\xff"]), ("[RaisingEq]", lambda: [RaisingEq(), RaisingEq()]),
    ("[[]]", lambda: [[]]), ("[{}]", lambda: [{}]), ("[1,[2,[3]]]", lambda: [1, [2, [3]]]),
    ("BytesIO", lambda: io.BytesIO(b"12")),
]:
    P(_n, _f, *CONT)

TEMPORAL = ("datetime", "date", "time", "timedelta", "int", "float", "str", "Decimal", "bool")
for _n, _v in [
    ("date.min", dt.date.min), ("date.max", dt.date.max), ("date(2020,1,2)", dt.date(2020, 1, 2)),
    ("datetime.min", dt.datetime.min), ("datetime.max", dt.datetime.max), ("dt(2020)", dt.datetime(2020, 1, 2, 3, 4, 5)),
    ("dt(2020,midnight)", dt.datetime(2020, 1, 2)), ("dt(us)", dt.datetime(2020, 1, 2, 3, 4, 5, 123456)),
    ("dt(utc)", dt.datetime(2020, 1, 2, 3, 4, 5, tzinfo=dt.timezone.utc)), ("dt(+5:30)", dt.datetime(2020, 1, 2, 3, 4, 5, tzinfo=TZ_P)),
    ("dt(-5)", dt.datetime(2020, 1, 2, 3, 4, 5, tzinfo=TZ_N)), ("dt(1969)", dt.datetime(1969, 12, 31, 23, 59, 59)),
    ("time.min", dt.time.min), ("time.max", dt.time.max), ("time(3,4,5)", dt.time(3, 4, 5)), ("time(tz)", dt.time(3, 4, 5, tzinfo=TZ_P)),
    ("td0", dt.timedelta(0)), ("td(1d)", dt.timedelta(days=1, seconds=2)), ("td(-1.5s)", dt.timedelta(seconds=-1.5)),
    ("td(us)", dt.timedelta(microseconds=7)), ("td.max", dt.timedelta.max), ("td.min", dt.timedelta.min),
]:
    P(_n, const(_v), *TEMPORAL)

OBJ = ("int", "str", "float", "bool", "list", "dict", "NoneType", "Decimal", "datetime", "UUID", "Color", "Num", "Mixed",
       "bytes", "tuple", "set", "date", "time", "timedelta", "frozenset", "deque")
for _n, _f in [
    ("None", const(None)), ("Ellipsis", const(Ellipsis)), ("NotImplemented", const(NotImplemented)),
    ("object()", lambda: object()), ("Plain()", lambda: Plain()), ("int(cls)", const(int)), ("Plain(cls)", const(Plain)),
    ("len(fn)", const(len)), ("lambda", const(lambda x: x)), ("module", const(math)),
    ("RaisingEq", lambda: RaisingEq()), ("RaisingStr", lambda: RaisingStr()), ("RaisingLen", lambda: RaisingLen()),
    ("RaisingBool", lambda: RaisingBool()), ("RaisingIter", lambda: RaisingIter()), ("RaisingHash", lambda: RaisingHash()),
    ("Color.RED", const(Color.RED)), ("Num.ONE", const(Num.ONE)), ("Mixed.A", const(Mixed.A)), ("Mixed.C", const(Mixed.C)),
    ("UUID", const(uuid.UUID("12345678-1234-5678-1234-567812345678"))), ("uuid int", const(0x12345678123456781234567812345678)),
    ("exc", lambda: ValueError("x")), ("slice", const(slice(1, 2))),
]:
    P(_n, _f, *OBJ)

POOL = list(_P)
POOL_BY_TAG = {}
for _e in POOL:
    for _t in _e[2]:
        POOL_BY_TAG.setdefault(_t, []).append(_e)
POOL_INDEX = {e[0]: e for e in POOL}
assert len(POOL_INDEX) == len(POOL), "duplicate pool names"


def pick(rng, tag=None, p_any=0.2):
    """-> (name, factory). Aimed at tag with prob 1-p_any else any pool value."""
    if tag is not None and tag in POOL_BY_TAG and rng.random() > p_any:
        e = rng.choice(POOL_BY_TAG[tag])
    else:
        e = rng.choice(POOL)
    return e[0], e[1]


# ---- equality --------------------------------------------------------------------------------
def approx_eq(a, b, _depth=0, sub_ok=False):
    """NaN-aware deep equality that also compares types (1 vs 1.0 vs True differ).
    sub_ok: a scalar and an equal instance of a sub/superclass of its type count as equal
    (True vs 1, MyStr('a') vs 'a') -- 'an equal value' in the sense of C03."""
    if _depth > 80:
        return True
    if a is b:
        return True
    ta, tb = type(a), type(b)
    if ta is not tb:
        if sub_ok and (issubclass(ta, tb) or issubclass(tb, ta)) and isinstance(a, (int, float, str, bytes)):
            try:
                return bool(a == b)
            except Exception:
                return False
        return False
    try:
        if isinstance(a, float):
            if a != a and b != b:
                return True
            return a == b and math.copysign(1, a) == math.copysign(1, b)
        if isinstance(a, Decimal):
            if a.is_nan() and b.is_nan():
                return True
            return a == b
        if isinstance(a, dict):
            if len(a) != len(b):
                return False
            for k in a:
                if k not in b:
                    # allow NaN keys etc: fall back to positional comparison
                    return all(approx_eq(x, y, _depth + 1, sub_ok) for x, y in zip(a.items(), b.items()))
                if not approx_eq(a[k], b[k], _depth + 1, sub_ok):
                    return False
            return True
        if isinstance(a, (list, tuple, deque)):
            return len(a) == len(b) and all(approx_eq(x, y, _depth + 1, sub_ok) for x, y in zip(a, b))
        if isinstance(a, (set, frozenset)):
            if len(a) != len(b):
                return False
            rest = list(b)
            for x in a:
                for i, y in enumerate(rest):
                    if approx_eq(x, y, _depth + 1, sub_ok):
                        del rest[i]
                        break
                else:
                    return False
            return True
        return bool(a == b)
    except Exception:
        return a is b


_ADDR = __import__("re").compile(r"0x[0-9a-fA-F]+")


def same_value(a, b, depth=0):
    """equal value of the same type (NaN-aware; -0.0 == 0.0).  Objects without value equality
    (identity __eq__, hostile __eq__) are equal when they have the same type; texts are compared
    with memory addresses normalised (str() of an identity object)."""
    if a is b:
        return True
    if type(a) is not type(b):
        return False
    if depth > 40:
        return True
    try:
        if isinstance(a, Decimal):
            if a.is_nan() or b.is_nan():
                return a.is_nan() and b.is_nan()  # comparing a signaling NaN raises
            return bool(a == b)
        if isinstance(a, float):
            return bool(a == b) or (a != a and b != b)
        if isinstance(a, complex):
            return same_value(a.real, b.real) and same_value(a.imag, b.imag)
        if isinstance(a, (str, bytes, bytearray)):
            if a == b:
                return True
            ta = a if isinstance(a, str) else bytes(a).decode("latin-1")
            tb = b if isinstance(b, str) else bytes(b).decode("latin-1")
            return _ADDR.sub("0x", ta) == _ADDR.sub("0x", tb)
        if isinstance(a, collections.abc.Mapping):
            if len(a) != len(b):
                return False
            return all(same_value(x, y, depth + 1) for x, y in zip(a.items(), b.items()))
        if isinstance(a, (list, tuple, deque)):
            return len(a) == len(b) and all(same_value(x, y, depth + 1) for x, y in zip(a, b))
        if isinstance(a, (set, frozenset)):
            if len(a) != len(b):
                return False
            rest = list(b)
            for x in a:
                for i, y in enumerate(rest):
                    if same_value(x, y, depth + 1):
                        del rest[i]
                        break
                else:
                    return False
            return True
        if isinstance(a, collections.abc.Iterator):
            return True  # cannot compare one-shot results
        if hasattr(type(a), "__parser__") and isinstance(getattr(a, "__dict__", None), dict):
            # attribute-based data class: its own __eq__ is not NaN-aware
            da = {k: x for k, x in a.__dict__.items() if not k.startswith("__")}
            db = {k: x for k, x in b.__dict__.items() if not k.startswith("__")}
            return set(da) == set(db) and all(same_value(da[k], db[k], depth + 1) for k in da)
        if type(a).__eq__ is object.__eq__ or type(a).__module__.endswith("vmon.values"):
            d1, d2 = getattr(a, "__dict__", None), getattr(b, "__dict__", None)
            if isinstance(d1, dict) and isinstance(d2, dict) and not isinstance(a, type):
                return same_value(d1, d2, depth + 1)
            return True
        return bool(a == b)
    except Exception:
        return False


def loose_eq(a, b):
    """NaN-aware equality that ignores types (used where the statement says 'equal')."""
    if a is b:
        return True
    try:
        if isinstance(a, float) and isinstance(b, float) and a != a and b != b:
            return True
        if isinstance(a, Decimal) and isinstance(b, Decimal) and a.is_nan() and b.is_nan():
            return True
        if isinstance(a, dict) and isinstance(b, dict):
            return set(a) == set(b) and all(loose_eq(a[k], b[k]) for k in a)
        if isinstance(a, (list, tuple, deque)) and isinstance(b, (list, tuple, deque)):
            return len(a) == len(b) and all(loose_eq(x, y) for x, y in zip(a, b))
        return bool(a == b)
    except Exception:
        return False


def snapshot(v, _depth=0, _memo=None):
    """structural snapshot (for input-mutation checks): nested tuples of (type, content)."""
    if _depth > 70:
        return ("deep",)
    t = type(v)
    if t in (int, str, bytes, bool, type(None), Decimal, complex) or isinstance(v, (dt.date, dt.time, dt.timedelta, uuid.UUID, enum.Enum)):
        return (t.__name__, v)
    if t is float:
        return ("float", repr(v))
    if isinstance(v, dict):
        try:
            return (t.__name__, tuple((snapshot(k, _depth + 1), snapshot(x, _depth + 1)) for k, x in v.items()))
        except Exception:
            return (t.__name__, id(v))
    if isinstance(v, (list, tuple, deque)):
        return (t.__name__, tuple(snapshot(x, _depth + 1) for x in v))
    if isinstance(v, (set, frozenset)):
        try:
            return (t.__name__, frozenset(snapshot(x, _depth + 1) for x in v))
        except Exception:
            return (t.__name__, len(v))
    if isinstance(v, bytearray):
        return ("bytearray", bytes(v))
    if isinstance(v, UserMapping):
        return ("UserMapping", snapshot(v._d, _depth + 1))
    d = getattr(v, "__dict__", None)
    if isinstance(d, dict) and not isinstance(v, type) and not isinstance(v, types.ModuleType):
        try:
            return (t.__name__, id(v), tuple((k, snapshot(x, _depth + 1)) for k, x in d.items()))
        except Exception:
            pass
    return (t.__name__, id(v))


def is_consumable(v, _depth=0):
    """True when v is, or (nested in builtin containers) holds, a one-shot object that parsing consumes"""
    if isinstance(v, (collections.abc.Iterator, io.IOBase)):
        return True
    if _depth > 8:
        return False
    try:
        if isinstance(v, dict):
            return any(is_consumable(x, _depth + 1) for x in v.values()) or any(is_consumable(x, _depth + 1) for x in v)
        if isinstance(v, (list, tuple, set, frozenset, deque, type({}.keys()), type({}.values()), type({}.items()))):
            return any(is_consumable(x, _depth + 1) for x in v)
    except Exception:
        return False
    return False
