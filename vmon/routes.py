"""Entry routes: the public ways a declared type is reached by an input."""


class Absent(Exception):
    """the position of interest was dropped from the result (exclude policy)"""


class Entry:
    def __init__(self, fn, cls=None, flags=None, judged=True):
        self.fn = fn
        self.cls = cls
        self.flags = flags if flags is not None else {}
        self.judged = judged  # False: bare builtin through type_transform (outside C04's statement)

    def __call__(self, x):
        self.flags.clear()
        return self.fn(x)


ROUTES = ["tt", "tt", "call", "field", "field", "param", "return", "args", "kwargs", "dcfield"]


def make_entry(route, ann, T, opts, wrap_bare=False):
    """-> Entry; entry(x) returns the parsed value at the position of interest"""
    import utype
    from utype import Options, Rule, Schema, type_transform
    from utype.parser.rule import LogicalType

    def O():
        return Options(**opts)

    is_dc = isinstance(getattr(T, "__parser__", None), utype.parser.cls.ClassParser) if isinstance(T, type) else False
    if route in ("tt", "call"):
        judged = True
        if not isinstance(T, LogicalType) and not is_dc:
            if wrap_bare and isinstance(T, type):
                T = Rule.annotate(T)
            else:
                judged = False
        if is_dc:
            # raw data enters through __from__ (the documented way to pass runtime options); an object that
            # already is an instance goes through the conversion entry (__from__ is "from data")
            return Entry(lambda x: T.__from__(x, options=O()) if opts and not isinstance(x, T) else
                         type_transform(x, T, options=O() if opts else None), judged=True)
        if route == "call" and isinstance(T, LogicalType):
            if opts:
                return Entry(lambda x: T(x, context=O().make_context()), judged=judged)
            return Entry(lambda x: T(x), judged=judged)
        return Entry(lambda x: type_transform(x, T, options=O()), judged=judged)
    if route in ("field", "dcfield"):
        base = Schema if route == "field" else utype.DataClass
        flags = {}

        def __validate__(self):
            flags["validate_entered"] = True

        S = type(base)("S", (base,), {"__annotations__": {"f": ann}, "__qualname__": "S", "__module__": "vmon_generated",
                                      "__validate__": __validate__})
        if route == "field":
            def f(x):
                inst = S.__from__({"f": x}, options=O())
                if not dict.__contains__(inst, "f"):
                    raise Absent()
                return dict.__getitem__(inst, "f")
        else:
            def f(x):
                inst = S.__from__({"f": x}, options=O())
                if "f" not in inst.__dict__:
                    raise Absent()
                return inst.__dict__["f"]
        return Entry(f, cls=S, flags=flags)
    flags = {}
    if route == "param":
        def fn(a):
            flags["body_entered"] = True
            return a
        fn.__annotations__ = {"a": ann}
        w = utype.parse(fn, options=O())
        return Entry(lambda x: w(x), flags=flags)
    if route == "return":
        def fn(a):
            return a
        fn.__annotations__ = {"return": ann}
        w = utype.parse(fn, options=O())
        return Entry(lambda x: w(x), flags=flags)
    if route == "args":
        def fn(*args):
            flags["body_entered"] = True
            return args
        fn.__annotations__ = {"args": ann}
        w = utype.parse(fn, options=O())

        def f(x):
            r = w(x)
            if len(r) != 1:
                raise Absent()
            return r[0]
        return Entry(f, flags=flags)
    if route == "kwargs":
        def fn(**kwargs):
            flags["body_entered"] = True
            return kwargs
        fn.__annotations__ = {"kwargs": ann}
        w = utype.parse(fn, options=O())

        def f(x):
            r = w(k=x)
            if "k" not in r:
                raise Absent()
            return r["k"]
        return Entry(f, flags=flags)
    raise ValueError(route)
