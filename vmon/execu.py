"""Executing library calls and classifying their outcome at the API boundary."""
import warnings


class Outcome:
    __slots__ = ("kind", "value", "exc")

    def __init__(self, kind, value=None, exc=None):
        self.kind, self.value, self.exc = kind, value, exc

    @property
    def ok(self):
        return self.kind == "ok"

    def cls(self):
        if self.kind == "ok":
            return "ok"
        return f"{self.kind}:{type(self.exc).__name__}"

    def __repr__(self):
        from .runner import short

        if self.kind == "ok":
            return f"ok({short(self.value, 120)})"
        return f"{self.kind}({type(self.exc).__name__}: {short(str(self.exc), 160)})"


def run(thunk, steps=None, limit=None, tail=0):
    """-> Outcome: 'ok' | 'parse' (utype.exc.ParseError) | 'escape' (anything else) | 'steps'"""
    from utype.utils import exceptions as exc
    from .monitors.steps import StepLimit

    if steps is not None:
        steps.start(limit, tail)
    try:
        with warnings.catch_warnings():
            warnings.simplefilter("ignore")
            v = thunk()
        return Outcome("ok", v)
    except exc.ParseError as e:
        return Outcome("parse", exc=e)
    except StepLimit as e:
        return Outcome("steps", exc=e)
    except RecursionError as e:
        return Outcome("recursion", exc=e)
    except Exception as e:
        return Outcome("escape", exc=e)
    finally:
        if steps is not None:
            steps.stop()


def root_cause(e, depth=0):
    """innermost origin_exc of a ParseError chain"""
    while depth < 30:
        o = getattr(e, "origin_exc", None)
        if o is None:
            errs = getattr(e, "errors", None)
            if errs:
                o = errs[0]
            else:
                return e
        e = o
        depth += 1
    return e


def error_kinds(e, depth=0):
    """set of exception class names in a (possibly collected) ParseError tree's top-level items"""
    errs = getattr(e, "errors", None)
    if errs and depth < 10:
        out = set()
        for x in errs:
            out |= error_kinds(x, depth + 1)
        return out
    return {type(e).__name__}


def tb_site(e):
    """(file, function) of the innermost frame under utype/ where e was raised -- a structural key"""
    import traceback

    tb = e.__traceback__
    site = None
    while tb is not None:
        fn = tb.tb_frame.f_code.co_filename
        if "/utype/" in fn:
            site = (fn.split("/utype/")[-1], tb.tb_frame.f_code.co_name)
        tb = tb.tb_next
    return site


def raised_in_harness_object(e):
    """True when the innermost frame of e's traceback is harness-supplied code (a hostile dunder of
    vmon/values.py): the exception is the input object's own, raised while the library touched it"""
    tb = e.__traceback__
    last = None
    while tb is not None:
        last = tb.tb_frame.f_code.co_filename
        tb = tb.tb_next
    return bool(last) and last.endswith("vmon/values.py")
