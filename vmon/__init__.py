"""vmon — runtime monitors for utype (see /verif/DESIGN.md).

Importing this package installs nothing.  Monitors attach only when a check asks for them
(vmon.monitors.attach) and only when UTYPE_VERIF_MONITORS is set, which ./check does.
"""

import sys as _sys
import types as _types

# generated data classes / functions live in a real module: the library resolves annotations through
# sys.modules[cls.__module__].__dict__
GENERATED = _sys.modules.setdefault("vmon_generated", _types.ModuleType("vmon_generated"))
