"""vmon — runtime monitors for utype (see /verif/DESIGN.md).

Importing this package installs nothing.  Monitors attach only when a check asks for them
(vmon.monitors.attach) and only when UTYPE_VERIF_MONITORS is set, which ./check does.
"""
