"""Mutant self-test: apply each realistic property-breaking edit to a scratch copy of the repository
(outside /repo and /verif), confirm the repository's own tests stay green, and confirm the named
check reports a VIOLATION in the quick tier.  Usage:
    python -m vmon.selftest.driver [--no-tests] [--tier quick] [name-substring ...]
Scratch copies live under $TMPDIR/utype-mut-* and are removed after each mutant."""
import json
import os
import shutil
import subprocess
import sys
import tempfile
import time

HERE = os.path.dirname(os.path.dirname(os.path.dirname(os.path.abspath(__file__))))


def make_scratch():
    d = tempfile.mkdtemp(prefix="utype-mut-")
    subprocess.run(["rsync", "-a", "--exclude", ".git", "--exclude", "__pycache__", "--exclude", "*.egg-info", "/repo/", d + "/"], check=True)
    return d


def apply(m, d):
    if "revert" in m:
        diff = subprocess.run(["git", "-C", "/repo", "show", m["revert"]], capture_output=True, text=True, check=True).stdout
        p = subprocess.run(["patch", "-R", "-p1", "-s"], input=diff, text=True, cwd=d, capture_output=True)
        if p.returncode != 0:
            raise RuntimeError("cannot revert %s: %s" % (m["revert"], p.stdout + p.stderr))
        return
    for e in m["edits"]:
        path = os.path.join(d, e["file"])
        s = open(path).read()
        if s.count(e["old"]) != 1:
            raise RuntimeError(f"mutant {m['name']}: anchor occurs {s.count(e['old'])}x in {e['file']}")
        open(path, "w").write(s.replace(e["old"], e["new"]))


def run_tests(d):
    p = subprocess.run(["/venv/bin/python", "-m", "pytest", "-q", "-x", "-p", "no:cacheprovider", "tests"], cwd=d,
                       capture_output=True, text=True, timeout=600, env=dict(os.environ, PYTHONPATH=d, PYTHONDONTWRITEBYTECODE="1"))
    return p.returncode == 0, (p.stdout[-300:] if p.returncode else "")


def run_check(pid, d, tier):
    out = tempfile.mkdtemp(prefix="vmon-out-")  # evidence/replays of self-test runs never touch /verif's own
    env = dict(os.environ, VERIF_REPO=d, VERIF_OUT=out)
    t0 = time.time()
    try:
        p = subprocess.run([os.path.join(HERE, "check"), pid, "--tier", tier], cwd=HERE, capture_output=True, text=True, env=env, timeout=3000)
    finally:
        shutil.rmtree(out, ignore_errors=True)
    viol = [l for l in p.stdout.splitlines() if l.startswith("VIOLATION")]
    keys = [l.strip() for l in p.stdout.splitlines() if l.strip().startswith("key=")]
    return p.returncode, viol, keys, time.time() - t0


def main():
    from .mutants import MUTANTS

    args = [a for a in sys.argv[1:] if not a.startswith("--")]
    no_tests = "--no-tests" in sys.argv
    tier = "quick"
    ms = [m for m in MUTANTS if not args or any(a in m["name"] for a in args)]
    results = []
    if True:
        for m in ms:
            d = make_scratch()
            try:
                apply(m, d)
                tests_ok, tail = (True, "") if no_tests else run_tests(d)
                row = {"mutant": m["name"], "tests_green": tests_ok, "checks": {}}
                for pid in m["props"]:
                    rc, viol, keys, wall = run_check(pid, d, tier)
                    row["checks"][pid] = {"rc": rc, "caught": rc == 1, "keys": [k[:110] for k in keys[:3]], "wall": round(wall, 1)}
                results.append(row)
                status = " ".join(f"{p}:{'CAUGHT' if c['caught'] else 'MISSED(rc=%d)' % c['rc']}" for p, c in row["checks"].items())
                print(f"{m['name']:<46} tests={'green' if tests_ok else 'RED'} {status}", flush=True)
                if not tests_ok:
                    print("   ", tail.replace("\n", " | ")[-200:])
            except Exception as e:
                print(f"{m['name']:<46} ERROR {e}", flush=True)
            finally:
                shutil.rmtree(d, ignore_errors=True)
    out = os.path.join(HERE, "vmon", "selftest", "last_results.json")
    prev = []
    if args and os.path.exists(out):
        prev = [r for r in json.load(open(out)) if r["mutant"] not in {x["mutant"] for x in results}]
    json.dump(prev + results, open(out, "w"), indent=1)
    missed = [r["mutant"] for r in results if not all(c["caught"] for c in r["checks"].values())]
    print(f"{len(results)} mutants, {len(missed)} with a missed check: {missed}")
    return 1 if missed else 0


if __name__ == "__main__":
    sys.exit(main())
