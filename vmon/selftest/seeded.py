"""Seeded changes (written by independent sub-agents from the property text alone) kept under
/verif/seeded/<name>/ {patch.diff, demo.py, notes.md, meta.json}.

  python -m vmon.selftest.seeded import <srcdir> <name> <PROP> [--checks C05,C06]
        verifies in a scratch copy (outside /repo and /verif): patch applies, the repository's 115
        tests stay green, demo.py exits 0 without and non-zero with the patch; then copies the files
        and writes meta.json.
  python -m vmon.selftest.seeded run [name-substring ...] [--tier quick|thorough]
        applies each kept change to a scratch copy and runs the listed checks with VERIF_REPO=<copy>;
        records caught / missed in seeded/RESULTS.json.
Scratch copies are removed after each change."""
import json
import os
import shutil
import subprocess
import sys
import tempfile
import time

from .driver import HERE, make_scratch, run_check, run_tests

SEEDED = os.path.join(HERE, "seeded")


def apply_patch(d, patch):
    p = subprocess.run(["patch", "-p1", "-s", "--no-backup-if-mismatch", "-i", patch], cwd=d, capture_output=True, text=True)
    if p.returncode != 0:
        raise RuntimeError("patch failed: " + p.stdout + p.stderr)


def run_demo(d, demo):
    env = dict(os.environ, PYTHONPATH=d, PYTHONDONTWRITEBYTECODE="1")
    env.pop("VERIF_REPO", None)
    try:
        p = subprocess.run(["/venv/bin/python", demo], cwd=os.path.dirname(demo), capture_output=True, text=True, timeout=300, env=env)
        return p.returncode, (p.stdout + p.stderr)[-400:]
    except subprocess.TimeoutExpired:
        return 124, "timeout"


def cmd_import(src, name, prop, checks):
    patch, demo = os.path.join(src, "patch.diff"), os.path.join(src, "demo.py")
    d0 = make_scratch()
    d1 = make_scratch()
    try:
        apply_patch(d1, patch)
        files = subprocess.run(["diff", "-rq", "--exclude=__pycache__", d0, d1], capture_output=True, text=True).stdout.strip().splitlines()
        tests_ok, tail = run_tests(d1)
        rc0, out0 = run_demo(d0, demo)
        rc1, out1 = run_demo(d1, demo)
    finally:
        shutil.rmtree(d0, ignore_errors=True)
        shutil.rmtree(d1, ignore_errors=True)
    ok = tests_ok and rc0 == 0 and rc1 != 0
    print(f"{name}: files_changed={len(files)} tests_green={tests_ok} demo_clean_rc={rc0} demo_patched_rc={rc1} -> {'KEEP' if ok else 'REJECT'}")
    if not ok:
        print("  ", tail, "| clean:", out0[-200:], "| patched:", out1[-200:])
        return 1
    dst = os.path.join(SEEDED, name)
    os.makedirs(dst, exist_ok=True)
    for f in ("patch.diff", "demo.py", "notes.md"):
        if os.path.exists(os.path.join(src, f)):
            shutil.copy(os.path.join(src, f), os.path.join(dst, f))
    notes = open(os.path.join(dst, "notes.md")).read() if os.path.exists(os.path.join(dst, "notes.md")) else ""
    meta = {"property": prop, "checks_expected": checks or [prop], "files_changed": [l.split(" and ")[0].replace("Files ", "").replace(d0 + "/", "") for l in files],
            "needs_to_manifest": notes[:1500],
            "verified": {"how": "scratch copy of /repo HEAD (rsync, outside /repo and /verif); patch -p1; pytest tests; demo.py with PYTHONPATH=<copy>",
                         "repo_tests_green_with_patch": tests_ok, "demo_rc_clean": rc0, "demo_rc_patched": rc1,
                         "demo_output_patched_tail": out1[-300:]}}
    json.dump(meta, open(os.path.join(dst, "meta.json"), "w"), indent=1)
    return 0


def cmd_run(names, tier):
    rows = []
    if True:
        for name in sorted(os.listdir(SEEDED)):
            dd = os.path.join(SEEDED, name)
            if not os.path.isfile(os.path.join(dd, "meta.json")) or (names and not any(n in name for n in names)):
                continue
            meta = json.load(open(os.path.join(dd, "meta.json")))
            if meta.get("retired"):
                print(f"{name:<12} retired: {meta['retired'][:100]}", flush=True)
                rows.append({"seeded": name, "property": meta["property"], "tier": tier, "checks": {}, "retired": True})
                continue
            d = make_scratch()
            try:
                try:
                    apply_patch(d, os.path.join(dd, "patch.diff"))
                except RuntimeError as e:
                    print(f"{name:<12} PATCH DOES NOT APPLY (needs a rebase): {str(e)[:120]}", flush=True)
                    rows.append({"seeded": name, "property": meta["property"], "tier": tier, "checks": {}, "patch_failed": True})
                    continue
                row = {"seeded": name, "property": meta["property"], "tier": tier, "checks": {}}
                for pid in meta["checks_expected"]:
                    if not os.path.exists(os.path.join(HERE, "vmon", "props", pid.lower() + ".py")):
                        row["checks"][pid] = {"rc": None, "caught": False, "note": "check not built"}
                        continue
                    rc, viol, keys, wall = run_check(pid, d, tier)
                    row["checks"][pid] = {"rc": rc, "caught": rc == 1, "keys": [k[:140] for k in keys[:3]], "wall": round(wall, 1)}
                rows.append(row)
                print(f"{name:<12} " + " ".join(f"{p}:{'CAUGHT' if c['caught'] else 'MISSED(rc=%s)' % c['rc']}" for p, c in row["checks"].items()), flush=True)
                for p, c in row["checks"].items():
                    for k in c.get("keys", [])[:2]:
                        print("      ", k[:200])
            finally:
                shutil.rmtree(d, ignore_errors=True)
    out = os.path.join(SEEDED, "RESULTS.json")
    prev = []
    if os.path.exists(out):
        done = {(r["seeded"], r["tier"]) for r in rows}
        prev = [r for r in json.load(open(out)) if (r["seeded"], r["tier"]) not in done]
    json.dump(sorted(prev + rows, key=lambda r: (r["seeded"], r["tier"])), open(out, "w"), indent=1)
    missed = [r["seeded"] for r in rows if not r.get("retired") and not any(c["caught"] for c in r["checks"].values())]
    print(f"{len(rows)} seeded changes, {len(missed)} not caught by any expected check: {missed}")
    return 0


def main():
    a = sys.argv[1:]
    if a and a[0] == "import":
        checks = None
        if "--checks" in a:
            i = a.index("--checks")
            checks = a[i + 1].split(",")
            del a[i:i + 2]
        return cmd_import(a[1], a[2], a[3], checks)
    if a and a[0] == "run":
        tier = "quick"
        if "--tier" in a:
            i = a.index("--tier")
            tier = a[i + 1]
            del a[i:i + 2]
        return cmd_run(a[1:], tier)
    print(__doc__)
    return 2


if __name__ == "__main__":
    sys.exit(main())
