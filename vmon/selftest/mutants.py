"""Realistic property-breaking edits (each keeps the repository's 115 tests green) and reverts of the
'fix:' commits.  props = the checks that must report a VIOLATION in the quick tier."""
R = "utype/parser/rule.py"
T = "utype/utils/transform.py"

MUTANTS = [
    # ---- reverts of the repairs (the original defects) --------------------------------------
    {"name": "revert-665b86b-seq-args-index", "revert": "665b86b", "props": ["C04"]},
    {"name": "revert-bb9016b-tuple-absence", "revert": "bb9016b", "props": ["C04"]},
    {"name": "revert-e87da66-datetime-inf-loop", "revert": "e87da66", "props": ["C04"]},
    {"name": "revert-b6a5e26-and-collect", "revert": "b6a5e26", "props": ["C01"]},
    {"name": "revert-10a47c7-nan-bounds", "revert": "10a47c7", "props": ["C02", "C01"]},
    {"name": "revert-fb0dac0-and-raw-exc", "revert": "fb0dac0", "props": ["C04"]},
    {"name": "revert-aa785cb-lax-bound-type", "props": ["C01"], "edits": [{"file": R, "old": "            return type(value)(bound)\n        return bound", "new": "            return bound\n        return bound"}]},
    {"name": "revert-b8f56f5-registry-stale-cache", "props": ["C16"], "edits": [{"file": "utype/utils/base.py", "old": "                self._cache = {}\n            return f", "new": "            return f"}]},
    {"name": "revert-28f56ca-registry-priority0-order", "props": ["C16"], "edits": [{"file": "utype/utils/base.py", "old": "                self._registry = sorted([(detector, f, priority), *self._registry], key=lambda v: -v[2])", "new": "                self._registry = [(detector, f, priority), *self._registry]\n                if priority:\n                    self._registry = sorted(self._registry, key=lambda v: -v[2])"}]},
    {"name": "revert-b9950c3-xor-threads-value", "revert": "b9950c3", "props": ["C09"]},
    {"name": "revert-b467353-enum-unhashable", "props": ["C12"], "edits": [{"file": T, "old": "            except TypeError:\n                # unhashable data (list / set / bytearray) is not a member name\n                pass", "new": "            except ZeroDivisionError:\n                pass"}]},
    {"name": "revert-981e4a4-depth-falsy-route", "revert": "981e4a4", "props": ["C18"]},
    {"name": "revert-4a77e64-fieldfirst-case-variants", "props": ["C06"], "edits": [{"file": "utype/parser/base.py", "old": "                        if _differ(_data[lk], v) and not context.options.ignore_alias_conflicts:", "new": "                        if False and _differ(_data[lk], v) and not context.options.ignore_alias_conflicts:"}]},
    {"name": "revert-f57c67c-ignore_required-defaults", "revert": "f57c67c", "props": ["C06"]},
    # (c06-datafirst-compares-parsed-with-raw was removed: the comparison it changed no longer exists after 09759d5)
    {"name": "revert-3f17af4-datafirst-spurious-absence", "props": ["C10"], "edits": [{"file": "utype/parser/base.py", "old": "            if name in result or name in attempted:", "new": "            if name in result:"}]},
    {"name": "c10-handle_error-drops-absence-when-collecting", "props": ["C10"], "edits": [{"file": "utype/parser/options.py", "old": "        self.errors.append(e)\n        if force_raise or self.force_error or not self.options.collect_errors:", "new": "        if not (self.options.collect_errors and type(e).__name__ == 'AbsenceError' and self.errors):\n            self.errors.append(e)\n        if force_raise or self.force_error or not self.options.collect_errors:"}]},
    {"name": "c11-seq-preserve-appends-converted-prefix-only", "props": ["C11"], "edits": [{"file": "utype/parser/rule.py", "old": """                    if options.invalid_items == options.PRESERVE:
                        context.collect_waring(error.formatted_message)
                        result.append(item)
                        continue
                    context.handle_error(error)
        return result""", "new": """                    if options.invalid_items == options.PRESERVE:
                        context.collect_waring(error.formatted_message)
                        result.append(item)
                        if i == 0 and len(value) > 2:
                            return result + list(value[1:])
                        continue
                    context.handle_error(error)
        return result"""}]},
    {"name": "revert-2bff3df-dataclass-defer_default", "revert": "2bff3df", "props": ["C05"]},
    {"name": "revert-b56443d-mode-precedence", "revert": "b56443d", "props": ["C05"]},
    {"name": "revert-dd09bd5-dependency-names", "revert": "dd09bd5", "props": ["C05"]},
    {"name": "c05-no_output-value-left-in-mapping", "props": ["C05"], "edits": [{"file": "utype/parser/cls.py", "old": "                if field.is_no_output(values[key], options=options):\n                    values.pop(key)", "new": "                if field.is_no_output(values[key], options=options) and value is not None:\n                    values.pop(key)"}]},
    {"name": "revert-95b1053-force_error", "revert": "95b1053", "props": ["C07"]},
    {"name": "revert-a07af7c-setitem-addition-raw", "revert": "a07af7c", "props": ["C07"]},
    {"name": "revert-f5bbc74-setdefault-ior", "revert": "f5bbc74", "props": ["C07"]},
    {"name": "revert-64743ac-popitem", "revert": "64743ac", "props": ["C07"]},
    {"name": "revert-139f76d-copy-shares-dict", "revert": "139f76d", "props": ["C07"]},
    {"name": "revert-b237226-stale-attribute", "revert": "b237226", "props": ["C07"]},
    {"name": "c07-setter-skips-parse-for-no_output", "props": ["C07"], "edits": [{"file": "utype/schema.py", "old": "        context = self.__parser__.make_context(force_error=True)\n        value = field.parse_value(value, context=context)\n        if unprovided(value):", "new": "        context = self.__parser__.make_context(force_error=True)\n        if field.no_output is not True:\n            value = field.parse_value(value, context=context)\n        if unprovided(value):"}]},
    {"name": "c19-get_default-without-copy", "props": ["C19"], "edits": [{"file": "utype/parser/field.py", "old": "        return copy_value(default)", "new": "        return default"}]},
    {"name": "revert-e33b772-negative-utc-offset", "revert": "e33b772", "props": ["C14"]},
    {"name": "revert-0430ca0-generator-mode-argument", "revert": "0430ca0", "props": ["C13"]},
    {"name": "revert-ca7b569-output-required-defaults", "revert": "ca7b569", "props": ["C13"]},
    {"name": "c13-additionalProperties-inverted", "props": ["C13"], "edits": [{"file": "utype/specs/json_schema/generator.py", "old": "                data.update(additionalProperties=addition)", "new": "                data.update(additionalProperties=not addition)"}]},
    {"name": "revert-f7a9e05-typeless-schema-constraints", "revert": "f7a9e05", "props": ["C15"]},
    {"name": "revert-a3b6a28-const-enum-typeless", "revert": "a3b6a28", "props": ["C15"]},
    {"name": "c15-maximum-mapped-to-lt", "props": ["C15"], "edits": [{"file": "utype/specs/json_schema/constant.py", "old": "    'maximum': 'le',", "new": "    'maximum': 'ge',"}]},
    {"name": "c15-uniqueItems-dropped", "props": ["C15"], "edits": [{"file": "utype/specs/json_schema/constant.py", "old": "    'uniqueItems': 'unique_items',\n", "new": ""}]},
    {"name": "revert-4907b11-async-generator-asend", "props": ["C08"], "edits": [{"file": "utype/parser/func.py", "old": "                elif sent is not None:\n                    item = await generator.asend(sent)\n                else:\n                    item = await generator.__anext__()", "new": "                elif sent is not None:\n                    await generator.asend(sent)   # (the item yielded in response is dropped)\n                    item = await generator.__anext__()\n                else:\n                    item = await generator.__anext__()"}]},
    {"name": "revert-b8c7212-private-positional-default", "revert": "b8c7212", "props": ["C08"]},
    {"name": "revert-7930fa6-forward-ref-key-collision", "revert": "7930fa6", "props": ["C17"]},
    {"name": "revert-35946e1-forward-ref-lock", "props": ["C20"], "edits": [{"file": "utype/parser/base.py", "old": "        with self._forward_lock:\n            if not self.forward_refs:\n                return False\n            self._forward_resolving = True", "new": "        if True:\n            if not self.forward_refs:\n                return False\n            self._forward_resolving = False"}]},
    {"name": "revert-0686b8d-registry-cache-check-then-read", "props": ["C20"], "edits": [{"file": "utype/utils/base.py", "old": "        cache = self._cache\n        if self.cache:\n            cached = cache.get(t)\n            if cached is not None:\n                return cached", "new": "        cache = self._cache\n        if self.cache and t in self._cache:\n            return self._cache[t]"}, {"file": "utype/utils/base.py", "old": "                self._cache = {}\n            return f", "new": "                self._cache.clear()\n            return f"}]},
    {"name": "c20-lock-released-before-fields-resolved", "props": ["C20"], "edits": [{"file": "utype/parser/base.py", "old": "        if not self.forward_refs and not self._forward_resolving:\n            return False", "new": "        if not self.forward_refs:\n            return False"}]},
    {"name": "revert-a0fd8f0-lax-fractional-bound-int", "revert": "a0fd8f0", "props": ["C03"]},
    {"name": "revert-26d5b4e-abstract-container-elements", "props": ["C01"], "edits": [{"file": R, "old": "        elif cls.__abstract__ and issubclass(cls.__origin__, Iterable):", "new": "        elif False:"}]},
    {"name": "revert-a63d0d7-strict-recheck-after-lax", "props": ["C01", "C03"], "edits": [{"file": R, "old": "                if result is not value:\n                    # the constraint transformed the value", "new": "                if False:\n                    # the constraint transformed the value"}]},
    {"name": "revert-55b7cc4-shared-typing-forwardref", "revert": "55b7cc4", "props": ["C17", "C19"]},
    {"name": "revert-6f3d216-not-taken-values", "props": ["C06"], "edits": [{"file": "utype/parser/base.py", "old": "                elif field.is_required(options=options):\n                    # a required field whose given value is not taken as input is absent", "new": "                elif False:\n                    # a required field whose given value is not taken as input is absent"}]},
    {"name": "revert-6a12ebb-lax-max_digits-carry", "revert": "6a12ebb", "props": ["C03"]},
    {"name": "revert-2b13b3c-lax-multiple_of-float-drift", "props": ["C03"], "edits": [{"file": R, "old": "            if isinstance(value, float):\n                # binary floats drift", "new": "            if False:\n                # binary floats drift"}]},
    {"name": "revert-2c2374b-safe-repr-of-items", "revert": "2c2374b", "props": ["C04"]},
    {"name": "revert-41cd943-unhashable-discriminator", "props": ["C04"], "edits": [{"file": "utype/parser/field.py", "old": "            try:\n                matched = discriminator in self.discriminator_map\n            except Exception:   # noqa\n                # an unhashable discriminator value (a list / dict) matches nothing\n                matched = False", "new": "            matched = discriminator in self.discriminator_map"}]},
    {"name": "revert-271e688-recheck-after-decimal_places", "props": ["C01"], "edits": [{"file": R, "old": "                if result is not value:\n                    # the constraint transformed the value", "new": "                if result is not value and getattr(validator, '__name__', key) != key:\n                    # the constraint transformed the value"}]},
    {"name": "revert-35e1088-int-lax-fractional-step", "props": ["C01"], "edits": [{"file": R, "old": "            if isinstance(value, int) and not isinstance(of, int):\n                # a fractional step on an int rule: the result has to stay an integer", "new": "            if False:\n                # a fractional step on an int rule: the result has to stay an integer"}]},
    {"name": "revert-b64ef33-local-class-optional-late-name", "revert": "b64ef33", "props": ["C17"]},
    {"name": "revert-0c527f8-subclass-before-base", "revert": "0c527f8", "props": ["C17"]},
    {"name": "revert-3172241-generator-whole-string-annotation", "props": ["C17"], "edits": [{"file": "utype/parser/func.py", "old": "            if late and r:", "new": "            if False:"}]},
    {"name": "revert-47d4c1c-exact-int-modulo", "props": ["C01"], "edits": [{"file": R, "old": "        if isinstance(value, (int, Decimal)) and not isinstance(value, bool):\n            # exact arithmetic for exact values", "new": "        if isinstance(value, Decimal):\n            # exact arithmetic for exact values"}]},
    {"name": "revert-44ce292-hunt", "revert": "44ce292", "props": ["C02"]},
    {"name": "revert-155275b-hunt", "props": ["C17", "C10"], "edits": [{"file": "utype/schema.py", "old": "        # an assignment may be the first use of the class (custom __init__, no_parse)\n        self.__parser__.resolve_forward_refs()\n", "new": ""}, {"file": "utype/parser/base.py", "old": "            dependant.update(attempted.difference(excluded_fields))\n            if excluded_keys:\n                dependant.update(excluded_keys)\n\n            diff = dependencies.difference(dependant)\n            lack = dependencies.intersection(unprovided_fields)\n            lack.update(diff)\n            if lack:\n                # some dependencies not provided\n                context.handle_error(\n                    exc.DependenciesAbsenceError(absence_dependencies=lack)\n                )\n\n        # check dependencies before addition\n\n        if len(result) > 1:", "new": "            if excluded_keys:\n                dependant.update(excluded_keys)\n\n            diff = dependencies.difference(dependant)\n            lack = dependencies.intersection(unprovided_fields)\n            lack.update(diff)\n            if lack:\n                # some dependencies not provided\n                context.handle_error(\n                    exc.DependenciesAbsenceError(absence_dependencies=lack)\n                )\n\n        # check dependencies before addition\n\n        if len(result) > 1:"}]},
    {"name": "revert-54fefb3-hunt", "revert": "54fefb3", "props": ["C06", "C05"]},
    {"name": "revert-c298dac-hunt", "revert": "c298dac", "props": ["C13"]},
    {"name": "revert-a07ad16-hunt", "revert": "a07ad16", "props": ["C13"]},
    {"name": "revert-ff1bb29-hunt", "revert": "ff1bb29", "props": ["C01", "C14", "C12"]},
    {"name": "revert-cb9c2fb-hunt", "revert": "cb9c2fb", "props": ["C09", "C11", "C18"]},
    {"name": "revert-e47b5a9-hunt", "revert": "e47b5a9", "props": ["C19", "C01"]},
    {"name": "revert-204d9f9-hunt", "revert": "204d9f9", "props": ["C05"]},
    {"name": "revert-a3b8dc8-hunt", "revert": "a3b8dc8", "props": ["C09"]},
    {"name": "revert-00bfdc4-hunt", "revert": "00bfdc4", "props": ["C12", "C10"]},
    {"name": "revert-1eae23d-hunt", "props": ["C08"], "edits": [{"file": "utype/parser/func.py", "old": "                    # the position is filled whatever happens to the value: the name must not be filled again by keyword\n                    parsed_keys.append(field.attname)\n", "new": ""}, {"file": "utype/parser/func.py", "old": "                        given_keys.add(field.attname)\n", "new": "                        given_keys.add(field.attname)\n                        parsed_keys.append(field.attname)\n"}]},
    {"name": "revert-2ee22c5-hunt", "revert": "2ee22c5", "props": ["C19", "C05", "C08"]},
    {"name": "revert-6b9de14-hunt", "revert": "6b9de14", "props": ["C05", "C14", "C07", "C11"]},
    {"name": "revert-ea9da58-hunt", "props": ["C02", "C03"], "edits": [{"file": R, "old": "        if isinstance(value, (int, Decimal)) and not isinstance(value, bool):\n            # exact arithmetic for exact values", "new": "        if False:\n            # exact arithmetic for exact values"}]},
    {"name": "revert-06fcc67-hunt", "revert": "06fcc67", "props": ["C14"]},
    {"name": "revert-5c0550f-hunt", "revert": "5c0550f", "props": ["C20", "C17"]},
    {"name": "revert-3289c83-hunt", "revert": "3289c83", "props": ["C20"]},
    {"name": "revert-58678a9-hunt", "revert": "58678a9", "props": ["C16"]},
    {"name": "revert-2e2ecff-hunt", "revert": "2e2ecff", "props": ["C16", "C20"]},
    {"name": "revert-dc175eb-set-from-array", "revert": "dc175eb", "props": ["C11", "C14"]},
    {"name": "revert-50ee710-datafirst-order", "revert": "50ee710", "props": ["C06"]},
    {"name": "revert-09759d5-spelling-winner", "revert": "09759d5", "props": ["C06"]},
    {"name": "revert-61b6748-parse-cache-options", "revert": "61b6748", "props": ["C08"]},
    {"name": "revert-d6b131f-generator-throw", "revert": "d6b131f", "props": ["C08"]},
    {"name": "revert-93d3601-pre-validate-escape", "revert": "93d3601", "props": ["C04"]},
    {"name": "revert-d0198aa-excluded-dependencies", "props": ["C11"], "edits": [{"file": "utype/parser/base.py", "old": "            dependant.update(attempted.difference(excluded_fields))\n            if excluded_keys:\n                dependant.update(excluded_keys)\n\n            diff = dependencies.difference(dependant)\n            lack = dependencies.intersection(unprovided_fields)\n            lack.update(diff)\n            if lack:\n                # some dependencies not provided\n                context.handle_error(\n                    exc.DependenciesAbsenceError(absence_dependencies=lack)\n                )\n\n        # check dependencies before addition\n\n        if options.addition is not None:", "new": "            dependant.update(attempted)\n            if excluded_keys:\n                dependant.update(excluded_keys)\n\n            diff = dependencies.difference(dependant)\n            lack = dependencies.intersection(unprovided_fields)\n            lack.update(diff)\n            if lack:\n                # some dependencies not provided\n                context.handle_error(\n                    exc.DependenciesAbsenceError(absence_dependencies=lack)\n                )\n\n        # check dependencies before addition\n\n        if options.addition is not None:"}, {"file": "utype/parser/base.py", "old": "                excluded_fields.add(name)\n                unprovided_fields.add(name)\n            if unprovided(parsed):\n                continue\n\n            result[name] = parsed\n            if field.dependencies and not dropped:", "new": "                pass\n            if unprovided(parsed):\n                continue\n\n            result[name] = parsed\n            if field.dependencies:"}]},
    {"name": "revert-27a9820-discriminator-policy", "revert": "27a9820", "props": ["C11"]},
    {"name": "revert-4f4d486-discriminator-spelling", "revert": "4f4d486", "props": ["C05", "C11"]},
    {"name": "revert-6e97455-enum-equal-value", "revert": "6e97455", "props": ["C12"]},
    {"name": "revert-4920ecc-reserve-by-keyword", "revert": "4920ecc", "props": ["C08"]},
    {"name": "revert-318e81e-params-count", "revert": "318e81e", "props": ["C08"]},
    {"name": "revert-654b870-positional-dependencies", "revert": "654b870", "props": ["C08"]},
    # ---- C01 ------------------------------------------------------------------------------
    {"name": "c01-seq-first-element-unconverted", "props": ["C01"], "edits": [{"file": R, "old": """                try:
                    result.append(
                        arg_context.transformer.apply(
                            item, arg_type, func=arg_transformer
                        )
                    )""", "new": """                try:
                    result.append(
                        arg_context.transformer.apply(
                            item, arg_type, func=arg_transformer
                        ) if i or len(value) < 3 else item
                    )"""}]},
    {"name": "c01-to_str-passes-bytearray", "props": ["C01"], "edits": [{"file": T, "old": """        data = self._from_byte_like(self._attempt_from(data))
        if self.no_explicit_cast and not isinstance(data, str):
            raise TypeError
        return t(data)""", "new": """        if isinstance(data, bytearray):
            return data
        data = self._from_byte_like(self._attempt_from(data))
        if self.no_explicit_cast and not isinstance(data, str):
            raise TypeError
        return t(data)"""}]},
    {"name": "c01-no-rewrap-into-origin", "props": ["C01"], "edits": [{"file": R, "old": """            if not cls.__abstract__ and type(value) != cls.__origin__:""", "new": """            if not cls.__abstract__ and type(value) != cls.__origin__ and not isinstance(value, list):"""}]},
    # ---- C02 ------------------------------------------------------------------------------
    {"name": "c02-ge-strict", "props": ["C02"], "edits": [{"file": R, "old": "        if not value >= ge:", "new": "        if not value > ge:"}]},
    {"name": "c02-max_length-off-by-one", "props": ["C02"], "edits": [{"file": R, "old": """        if len(v) > m:
            raise ValueError
        return value

    @classmethod
    def lax_max_length""", "new": """        if len(v) >= m and len(v) > 1:
            raise ValueError
        return value

    @classmethod
    def lax_max_length"""}]},
    {"name": "c02-regex-match-not-fullmatch", "props": ["C02"], "edits": [{"file": R, "old": "        if not re.fullmatch(r, text):", "new": "        if not re.match(r, text):"}]},
    {"name": "c02-const-drops-type-check", "props": ["C02"], "edits": [{"file": R, "old": "        if type(value) != type(v):\n            if {type(value), type(v)} in TYPE_EXACT_TOLERANCE:", "new": "        if type(value) != type(v) and not isinstance(value, (int, float)):\n            if {type(value), type(v)} in TYPE_EXACT_TOLERANCE:"}]},
    {"name": "c02-digits-count-leading-zero", "props": ["C02"], "edits": [{"file": R, "old": """            if abs(exponent) > len(digit_tuple):
                digits = abs(exponent)""", "new": """            if abs(exponent) >= len(digit_tuple):
                digits = abs(exponent) + 1"""}]},
    {"name": "c02-unique-items-identity-only", "props": ["C02"], "edits": [{"file": R, "old": """        for val in value:
            if val in lst:
                raise ValueError(f"value is not unique")""", "new": """        for val in value:
            if any(val is x for x in lst):
                raise ValueError(f"value is not unique")"""}]},
]
