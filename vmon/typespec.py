"""TypeSpec: an AST the harness owns, its random generator, `build` (spec -> real utype type through
the public declaration API), input generators aimed at a spec, and `conforms` (independent,
type-directed conformance predicate used by C01/C03/C07/C09).

Spec forms (nested tuples, hashable, printable):
  ('any',)
  ('leaf', oname)
  ('con', oname, ((cname, bound), ...), (lax cnames...), (arg specs...))
  ('gen', kind, (arg specs...))      kind: list set frozenset deque tuple_var tuple_fix dict
                                           Sequence Iterable Iterator Mapping
  ('opt', spec) ('or', specs) ('xor', specs) ('and', specs) ('not', spec)
  ('lit', (values...))
  ('dc', base, ((fname, spec, required: bool, default_key or None), ...), tag)
"""
import collections.abc as cabc
import datetime as dt
import itertools
import typing
import uuid
from collections import deque
from decimal import Decimal

from . import values as V
from .oracles import constraints_ref as CR

ORIGINS = {
    "int": int, "float": float, "str": str, "bool": bool, "bytes": bytes, "Decimal": Decimal,
    "date": dt.date, "datetime": dt.datetime, "time": dt.time, "timedelta": dt.timedelta, "UUID": uuid.UUID,
    "NoneType": type(None), "list": list, "tuple": tuple, "set": set, "frozenset": frozenset, "deque": deque, "dict": dict,
    "Color": V.Color, "Num": V.Num, "Mixed": V.Mixed,
    "Sequence": cabc.Sequence, "Iterable": cabc.Iterable, "Iterator": cabc.Iterator, "Mapping": cabc.Mapping,
}
SCALARS = ["int", "float", "str", "bool", "bytes", "Decimal", "date", "datetime", "time", "timedelta", "UUID",
           "NoneType", "Color", "Num", "Mixed"]
COMMON_SCALARS = ["int", "int", "str", "str", "float", "bool", "Decimal", "bytes", "date", "datetime", "Color", "Num", "UUID",
                  "time", "timedelta", "NoneType", "Mixed"]
HASHABLE_SCALARS = ["int", "str", "float", "bool", "Decimal", "bytes", "date", "UUID", "Color", "Num"]
GEN_KINDS = ["list", "list", "set", "frozenset", "deque", "tuple_var", "tuple_fix", "dict", "dict"]
ABSTRACT_KINDS = ["Sequence", "Iterable", "Mapping", "Iterator"]
GEN_TYPING = {
    "list": typing.List, "set": typing.Set, "frozenset": typing.FrozenSet, "deque": typing.Deque,
    "Sequence": typing.Sequence, "Iterable": typing.Iterable, "Iterator": typing.Iterator,
    "dict": typing.Dict, "Mapping": typing.Mapping,
}
GEN_ORIGIN = {
    "list": list, "set": set, "frozenset": frozenset, "deque": deque, "tuple_var": tuple, "tuple_fix": tuple,
    "dict": dict, "Sequence": cabc.Sequence, "Iterable": cabc.Iterable, "Iterator": cabc.Iterator, "Mapping": cabc.Mapping,
}
CONSTRAINT_ORDER = ["gt", "ge", "lt", "le", "const", "enum", "regex", "decimal_places", "multiple_of", "max_digits",
                    "length", "max_length", "min_length", "unique_items"]  # documented evaluation order (Rule.__constraints__)
LAXABLE = {"max_length", "length", "ge", "le", "decimal_places", "max_digits", "multiple_of", "const", "enum", "unique_items"}

INT_BOUNDS = [-10, -1, 0, 1, 2, 3, 7, 10, 11, 100, 255]
FLOAT_BOUNDS = [-1.5, 0.0, 0.1, 1.0, 1.5, 3.14, 10.0, 99.95, 1000.0]
DEC_BOUNDS = [Decimal("-2.5"), Decimal("0"), Decimal("1.0"), Decimal("1.50"), Decimal("99.95"), Decimal("1000")]
DATE_BOUNDS = [dt.date(2000, 1, 1), dt.date(2020, 1, 2), dt.date(2021, 1, 1)]
DT_BOUNDS = [dt.datetime(2000, 1, 1), dt.datetime(2020, 1, 2, 3, 4, 5), dt.datetime(2021, 1, 1)]
REGEXES = [r"[a-z]+", r"\d+", r"a.c", r"(ab)*", r"[A-Za-z0-9]{2,4}", r"a|bc", r"^ab$", r"\d{4}-\d{2}-\d{2}", r"-?\d+(\.\d+)?",
           # patterns whose FIRST match in priority order is not the full one (prefix alternation, lazy quantifier, optional tail)
           r"ab|abc", r"\d+|\d+\.\d", r"[a-z]+?", r"a?(ab)?", r"(ab|abcd)(-\d)?"]
STR_CONSTS = ["a", "ab", "abc", "1", "12", "red", "", "true"]


# --------------------------------------------------------------------------------------------
# generation
# --------------------------------------------------------------------------------------------
def gen_bounds(rng, pool, integer=False):
    cons = []
    lo = hi = None
    mode = rng.choice(["lo", "hi", "both", "both"])
    if mode in ("lo", "both"):
        lo = rng.choice(pool)
    if mode in ("hi", "both"):
        cands = [b for b in pool if lo is None or b > lo]
        if cands:
            hi = rng.choice(cands)
    lo_name = rng.choice(["gt", "ge"]) if lo is not None else None
    hi_name = rng.choice(["lt", "le"]) if hi is not None else None
    if integer and lo_name == "gt" and hi_name == "lt" and hi - lo < 2:
        hi_name = "le"
    if lo_name:
        cons.append((lo_name, lo))
    if hi_name:
        cons.append((hi_name, hi))
    return cons


def gen_constraints(rng, oname, allow_lax=False, arg_elem=None):
    """-> (constraints tuple, lax names tuple); may be empty"""
    cons = []
    r = rng.random()
    if oname == "int":
        if r < 0.5:
            cons += gen_bounds(rng, INT_BOUNDS, integer=True)
        elif r < 0.62:
            cons.append(("multiple_of", rng.choice([2, 3, 5, 10, 100])))
        elif r < 0.72:
            cons.append(("max_digits", rng.choice([1, 2, 3, 5])))
        elif r < 0.8:
            cons.append(("const", rng.choice(INT_BOUNDS)))
        elif r < 0.9:
            cons.append(("enum", tuple(rng.sample(INT_BOUNDS, rng.randint(1, 3)))))
        elif r < 0.95:
            cons += gen_bounds(rng, INT_BOUNDS, integer=True)
            cons.append(("multiple_of", rng.choice([2, 5])))
        else:
            cons.append(("multiple_of", rng.choice([2.5, 0.5, 1.5, 0.3])))   # a fractional step on an int rule
    elif oname == "float":
        if r < 0.45:
            cons += gen_bounds(rng, FLOAT_BOUNDS if rng.random() < 0.7 else INT_BOUNDS)
        elif r < 0.58:
            cons.append(("decimal_places", rng.choice([0, 1, 2, 3])))
        elif r < 0.7:
            cons.append(("max_digits", rng.choice([1, 2, 3, 4, 6])))
        elif r < 0.8:
            cons.append(("multiple_of", rng.choice([2, 0.5, 0.25, 5])))
        elif r < 0.88:
            cons.append(("const", rng.choice(FLOAT_BOUNDS)))
        elif r < 0.94:
            cons.append(("enum", tuple(rng.sample(FLOAT_BOUNDS, rng.randint(1, 3)))))
        else:
            cons.append(("decimal_places", rng.choice([1, 2])))
            cons.append(("max_digits", rng.choice([3, 4, 5])))
    elif oname == "Decimal":
        if r < 0.4:
            cons += gen_bounds(rng, DEC_BOUNDS if rng.random() < 0.7 else INT_BOUNDS)
        elif r < 0.6:
            cons.append(("decimal_places", rng.choice([0, 1, 2, 3])))
        elif r < 0.75:
            cons.append(("max_digits", rng.choice([1, 2, 3, 4, 6])))
        elif r < 0.85:
            cons.append(("multiple_of", rng.choice([2, 5])))
        elif r < 0.93 or not ENABLE_REGEX_BEFORE_DECIMAL_PLACES:
            cons.append(("decimal_places", rng.choice([1, 2])))
            cons.append(("max_digits", rng.choice([3, 4, 5])))
        else:
            # decimal_places completes a Decimal to the declared places: the regex checked before it sees another text
            # (only C01 generates this: for C02 'valid input' is undefined when the documented completion breaks the regex)
            cons.append(rng.choice([("regex", r"\d\.\d"), ("regex", r"-?\d+(\.\d)?")]))
            cons.append(("decimal_places", rng.choice([2, 3])))
    elif oname in ("str", "bytes"):
        if r < 0.2:
            cons.append(("length", rng.choice([0, 1, 2, 3, 5])))
        elif r < 0.55:
            lo = rng.choice([None, 1, 2])
            hi = rng.choice([None, 2, 3, 5, 10])
            if lo is not None and (hi is None or hi >= lo):
                cons.append(("min_length", lo))
            if hi is not None:
                cons.append(("max_length", hi))
        elif oname == "str" and r < 0.8:
            cons.append(("regex", rng.choice(REGEXES)))
        elif oname == "str" and r < 0.9:
            cons.append(("const", rng.choice(STR_CONSTS)))
        elif oname == "str":
            cons.append(("enum", tuple(rng.sample(STR_CONSTS, rng.randint(1, 3)))))
        else:
            cons.append(("max_length", rng.choice([1, 2, 4])))
    elif oname in ("date", "datetime"):
        cons += gen_bounds(rng, DATE_BOUNDS if oname == "date" else DT_BOUNDS)
    elif oname in ("list", "tuple", "set", "frozenset", "deque"):
        if r < 0.25:
            cons.append(("length", rng.choice([0, 1, 2, 3])))
        elif r < 0.6:
            lo = rng.choice([None, 1, 2])
            hi = rng.choice([None, 1, 2, 3, 4])
            if lo is not None and (hi is None or hi >= lo):
                cons.append(("min_length", lo))
            if hi is not None:
                cons.append(("max_length", hi))
        elif oname in ("list", "tuple", "deque"):
            cons.append(("unique_items", True))
            if rng.random() < 0.3:
                cons.append(("max_length", rng.choice([2, 3, 4])))
        else:
            cons.append(("max_length", rng.choice([1, 2, 3])))
    elif oname == "dict":
        hi = rng.choice([1, 2, 3])
        cons.append(("max_length", hi))
    lax = ()
    if allow_lax and cons:
        names = [c for c, _ in cons if c in LAXABLE]
        if names and rng.random() < 0.8:
            lax = (rng.choice(names),)
    return tuple(cons), lax


ENABLE_BARE_CONTAINERS = True  # C13 switches this off: untyped elements are arbitrary Python objects, not JSON instances
ENABLE_REGEX_BEFORE_DECIMAL_PLACES = False  # C01 only
ENABLE_CONTAINS = False  # switched on by C01 only (other checks keep their constraint vocabulary)
CONTAINS_POOL = {
    "int": [(("ge", 3),), (("const", 1),), (("multiple_of", 5),), (("lt", 0),), (("enum", (1, 2, 10)),)],
    "str": [(("max_length", 1),), (("regex", r"\d+"),), (("const", "a"),), (("min_length", 3),)],
}


def gen_contains(rng, o):
    """constrained sequence with contains / min_contains / max_contains; the contains type is a strict constrained
    type over the element origin, so for an element that conforms to the element type 'matches' <=> constraints hold"""
    eo = rng.choice(["int", "int", "str"])
    cons = [("contains", ("con", eo, rng.choice(CONTAINS_POOL[eo]), (), ()))]
    r = rng.random()
    if r < 0.35:
        cons.append(("max_contains", rng.choice([1, 2, 3])))
    elif r < 0.6:
        cons.append(("min_contains", rng.choice([1, 2, 3])))
    elif r < 0.75:
        lo = rng.choice([1, 2])
        cons += [("min_contains", lo), ("max_contains", lo + rng.choice([0, 1, 2]))]
    if rng.random() < 0.25:
        cons.append(("max_length", rng.choice([3, 4, 5])))
    return ("con", o, tuple(cons), (), (("leaf", eo),))


def gen_scalar(rng, p_con=0.45, allow_lax=False, pool=COMMON_SCALARS):
    o = rng.choice(pool)
    if rng.random() < p_con and o in ("int", "float", "str", "Decimal", "bytes", "date", "datetime"):
        cons, lax = gen_constraints(rng, o, allow_lax)
        if cons:
            return ("con", o, cons, lax, ())
    return ("leaf", o)


def gen_spec(rng, depth=2, allow_lax=False, abstract=False, logic=True, hashable=False, dc=None):
    """random TypeSpec. dc: optional callable(rng, depth) -> dc spec"""
    if hashable:
        if depth > 0 and rng.random() < 0.15:
            return ("gen", "tuple_var", (gen_spec(rng, 0, hashable=True),))
        return gen_scalar(rng, 0.3, allow_lax, HASHABLE_SCALARS)
    r = rng.random()
    if depth <= 0 or r < 0.3:
        return gen_scalar(rng, 0.5, allow_lax)
    if r < 0.62:
        kinds = GEN_KINDS + (ABSTRACT_KINDS if abstract else [])
        k = rng.choice(kinds)
        if k in ("set", "frozenset"):
            return ("gen", k, (gen_spec(rng, depth - 1, allow_lax, hashable=True),))
        if k in ("dict", "Mapping"):
            return ("gen", k, (gen_spec(rng, 0, allow_lax, hashable=True), gen_spec(rng, depth - 1, allow_lax, abstract, logic, dc=dc)))
        if k == "tuple_fix":
            n = rng.randint(1, 3)
            return ("gen", k, tuple(gen_spec(rng, depth - 1, allow_lax, abstract, logic, dc=dc) for _ in range(n)))
        return ("gen", k, (gen_spec(rng, depth - 1, allow_lax, abstract, logic, dc=dc),))
    if r < 0.7:
        # constrained container
        o = rng.choice(["list", "tuple", "set", "deque"])
        if ENABLE_CONTAINS and rng.random() < 0.4:
            return gen_contains(rng, o)
        cons, lax = gen_constraints(rng, o, allow_lax)
        if ENABLE_BARE_CONTAINERS and cons and rng.random() < 0.2:
            # a bare (untyped) constrained container: the converter's same-type shortcut hands the caller's own object on
            return ("con", o, cons, lax, ())
        elem = gen_spec(rng, 0, allow_lax, hashable=True)
        if cons:
            return ("con", o, cons, lax, (elem,))
        return ("gen", "list", (elem,))
    if r < 0.78:
        return ("opt", gen_spec(rng, depth - 1, allow_lax, abstract, logic, dc=dc))
    if r < 0.9 and logic:
        op = rng.choice(["or", "or", "or", "xor", "and"])
        n = rng.randint(2, 3)
        if op == "and":
            a = gen_scalar(rng, 0.8, False)
            args = [a]
            # second arm: a constrained version of the same origin or a negation
            if rng.random() < 0.5:
                args.append(("not", gen_scalar(rng, 0.9, False, [a[1]]) if a[1] in ("int", "float", "str", "Decimal") else ("leaf", "NoneType")))
            else:
                args.append(gen_scalar(rng, 1.0, False, [a[1]]))
            return ("and", tuple(args))
        args = []
        for _ in range(n):
            s = gen_spec(rng, depth - 1, allow_lax and op == "or", abstract, False, dc=dc)
            if s not in args:
                args.append(s)
        if len(args) < 2:
            return args[0]
        return (op, tuple(args))
    if r < 0.95:
        vals = rng.sample([1, 2, "a", "b", True, None, 1.5, "1"], rng.randint(1, 3))
        return ("lit", tuple(vals))
    if dc is not None:
        return dc(rng, depth - 1)
    return gen_scalar(rng, 0.5, allow_lax)


def gen_dc(rng, depth=1, base=None, tag=None):
    base = base or rng.choice(["Schema", "Schema", "DataClass"])
    n = rng.randint(1, 4)
    fields = []
    for i in range(n):
        name = "f%d" % i
        fs = gen_spec(rng, depth, logic=rng.random() < 0.3)
        required = rng.random() < 0.6
        dkey = None
        if not required and rng.random() < 0.7:
            # declared defaults are trusted by the library, so the harness declares conforming ones:
            # None only where None conforms, otherwise a fixed valid value (or no default at all)
            if fs[0] == "opt" or fs == ("leaf", "NoneType"):
                dkey = "none"
            elif valid_value(fs) is not None:
                dkey = "valid"
        fields.append((name, fs, required, dkey))
    return ("dc", base, tuple(fields), tag or ("t%d" % rng.randrange(10 ** 6)))


# --------------------------------------------------------------------------------------------
# build
# --------------------------------------------------------------------------------------------
_counter = itertools.count()


class Builder:
    """Builds real types for specs through randomly chosen public declaration routes.
    Keeps the classes it created so the per-case cleanup can drop parser-cache entries."""

    def __init__(self, rng=None):
        self.rng = rng
        self.created = []
        self.dc_map = {}
        self.rejected = None
        self._memo = {}

    def _route(self, choices):
        return self.rng.choice(choices) if self.rng else choices[0]

    def build(self, spec):
        """-> a type usable with type_transform(x, T, options) and T(x); raises DeclRejected"""
        import utype
        from utype import Rule

        ann = self.annotation(spec)
        t = Rule.parse_annotation(ann)
        return t

    def annotation(self, spec):
        """memoised per builder: a sub-spec is built once, so that a diagnosis that re-parses a part of a value
        uses the very type object (same declaration route) that sits inside the enclosing type"""
        key = repr(spec)   # not the spec itself: ('lit', (True,)) == ('lit', (1,)) == ('lit', (1.0,)) as tuples
        hit = self._memo.get(key)
        if hit is None:
            hit = self._memo[key] = (self._annotation(spec),)
        return hit[0]

    def _annotation(self, spec):
        import utype
        from utype import Rule, Lax
        from utype.parser.rule import LogicalType

        k = spec[0]
        if k == "any":
            return typing.Any
        if k == "leaf":
            return ORIGINS[spec[1]]
        if k == "con":
            _, oname, cons, lax, args = spec
            origin = ORIGINS[oname]
            cd = {}
            for cname, b in cons:
                if cname == "enum":
                    b = list(b)
                if cname == "contains":
                    b = self.annotation(b)
                cd[cname] = Lax(b) if cname in lax else b
            argts = tuple(self.annotation(a) for a in args)
            route = self._route(["class", "annotate", "annotate"]) if origin is not bool else "annotate"
            if route == "class" and not argts:
                return LogicalType("C%d" % next(_counter), (origin, Rule), dict(cd))
            if argts:
                if origin is tuple:
                    return Rule.annotate(origin, *argts, ..., constraints=cd)
                return Rule.annotate(origin, *argts, constraints=cd)
            return Rule.annotate(origin, constraints=cd)
        if k == "gen":
            _, kind, args = spec
            a = tuple(self.annotation(x) for x in args)
            if kind == "tuple_var":
                return typing.Tuple[a[0], ...]
            if kind == "tuple_fix":
                return typing.Tuple[a]
            if kind in ("dict", "Mapping"):
                return GEN_TYPING[kind][a[0], a[1]]
            return GEN_TYPING[kind][a[0]]
        if k == "opt":
            return typing.Optional[self.annotation(spec[1])]
        if k in ("or", "xor", "and"):
            a = [self.annotation(x) for x in spec[1]]
            if k == "or":
                route = self._route(["typing", "logical"])
                if route == "typing":
                    try:
                        return typing.Union[tuple(a)]
                    except TypeError:
                        pass
                return LogicalType.any_of(*a)
            if k == "xor":
                return LogicalType.one_of(*a)
            return LogicalType.all_of(*a)
        if k == "not":
            return LogicalType.not_of(self.annotation(spec[1]))
        if k == "lit":
            return typing.Literal[spec[1]]
        if k == "dc":
            return self.dataclass(spec)
        raise ValueError(spec)

    def dataclass(self, spec, options=None, extra_ns=None):
        import utype

        if spec in self.dc_map and options is None and not extra_ns:
            return self.dc_map[spec]
        _, base, fields, tag = spec
        ns = {"__annotations__": {}, "__module__": "vmon_generated"}
        for fname, fs, required, dkey in fields:
            ns["__annotations__"][fname] = self.annotation(fs)
            if not required:
                if dkey is None:
                    ns[fname] = utype.Field(required=False)
                else:
                    ns[fname] = default_for(fs, dkey)
        if options is not None:
            ns["__options__"] = options
        if extra_ns:
            ns.update(extra_ns)
        name = "DC%d" % next(_counter)
        ns["__qualname__"] = name
        root = utype.Schema if base == "Schema" else utype.DataClass
        how = self._route(["own"] * 5 + ["inherited", "mixins", "chain"]) if fields and not extra_ns else "own"
        if how == "own":
            cls = type(root)(name, (root,), ns)
        else:
            # the same declaration reached through inheritance: every field comes from a base class; with "mixins" a second
            # base declares the same names with other types, and the first base wins (Python's MRO, typing.get_type_hints)
            own = {k: v for k, v in ns.items() if k in ("__module__", "__options__")}
            fns = {k: v for k, v in ns.items() if k != "__options__"}
            first = type(root)(name + "A", (root,), dict(fns, __qualname__=name + "A"))
            self.created.append(first)
            bases = (first,)
            if how == "mixins":
                decoy = {"__annotations__": {}, "__module__": "vmon_generated", "__qualname__": name + "B"}
                for j, (fname, fs, required, dkey) in enumerate(fields):
                    decoy["__annotations__"][fname] = (str, int, typing.List[str])[j % 3]
                    decoy[fname] = utype.Field(required=False, max_length=40) if j % 3 == 0 else utype.Field(required=False)
                second = type(root)(name + "B", (root,), decoy)
                self.created.append(second)
                bases = (first, second)
            if how == "chain":
                # Base -> Mid -> Leaf: the annotations live two levels up; the leaf re-assigns the defaults WITHOUT annotating
                # (the documented "use the inherited annotation" form), so every field keeps its declared type
                mid = type(root)(name + "M", (first,), {"__module__": "vmon_generated", "__qualname__": name + "M"})
                self.created.append(mid)
                bases = (mid,)
                for fname, fs, required, dkey in fields:
                    if not required and fname in ns:
                        own[fname] = ns[fname]
            cls = type(root)(name, bases, dict(own, __qualname__=name))
        self.created.append(cls)
        self.dc_map[spec] = cls
        return cls

    def cleanup(self):
        try:
            from utype.parser import base as pbase

            for c in self.created:
                pbase.__parsers__.pop(c, None)
        except Exception:
            pass
        self.created = []


def default_for(fs, dkey):
    if dkey == "none":
        return None
    return valid_value(fs)


def valid_value(spec):
    """a fixed value that conforms to spec if one is easy to name, else None (trusted default)"""
    k = spec[0]
    if k == "leaf":
        return {"int": 3, "float": 1.5, "str": "ab", "bool": True, "bytes": b"ab", "Decimal": Decimal("1.5"),
                "date": dt.date(2020, 1, 2), "datetime": dt.datetime(2020, 1, 2, 3, 4, 5), "time": dt.time(3, 4, 5),
                "timedelta": dt.timedelta(seconds=5), "UUID": uuid.UUID(int=5), "NoneType": None, "Color": V.Color.RED,
                "Num": V.Num.ONE, "Mixed": V.Mixed.A}.get(spec[1])
    if k == "gen":
        kind = spec[1]
        return {"list": [], "set": set(), "frozenset": frozenset(), "deque": deque(), "tuple_var": (), "dict": {},
                "Sequence": [], "Iterable": [], "Mapping": {}}.get(kind)
    return None


# --------------------------------------------------------------------------------------------
# inputs aimed at a spec
# --------------------------------------------------------------------------------------------
def _boundary_forms(rng, b):
    """values around a numeric / temporal bound in several spellings"""
    try:
        if isinstance(b, bool):
            return b
        if isinstance(b, int):
            v = b + rng.choice([-2, -1, 0, 0, 1, 2])
            return rng.choice([v, v, str(v), float(v), Decimal(v), str(v).encode(), "%d.0" % v, v + 0.5])
        if isinstance(b, float):
            import math
            v = rng.choice([b, b, math.nextafter(b, float("inf")), math.nextafter(b, float("-inf")), b + 1, b - 1, b + 0.01, b - 0.01])
            return rng.choice([v, v, repr(v), Decimal(repr(v))])
        if isinstance(b, Decimal):
            q = Decimal(1).scaleb(b.as_tuple().exponent) if isinstance(b.as_tuple().exponent, int) else Decimal(1)
            v = b + rng.choice([-1, 0, 0, 1]) * q
            return rng.choice([v, v, str(v), float(v)])
        if isinstance(b, dt.datetime):
            v = b + rng.choice([-1, 0, 0, 1]) * rng.choice([dt.timedelta(seconds=1), dt.timedelta(days=1), dt.timedelta(microseconds=1)])
            return rng.choice([v, v, v.isoformat(), str(v)])
        if isinstance(b, dt.date):
            v = b + rng.choice([-1, 0, 0, 1]) * dt.timedelta(days=1)
            return rng.choice([v, v, v.isoformat()])
    except Exception:
        pass
    return b


_STR_BY_LEN = ["", "a", "ab", "abc", "abcd", "abcde", "abcdef", "a" * 10, "a" * 11]


def gen_input(rng, spec, depth=0):
    """-> thunk producing a fresh input value aimed at spec (valid, convertible or invalid)"""
    if rng.random() < 0.12 or depth > 6:
        return V.pick(rng, None)[1]
    k = spec[0]
    if k == "any":
        return V.pick(rng, None)[1]
    if k == "leaf":
        return V.pick(rng, spec[1], 0.1)[1]
    if k == "con":
        _, oname, cons, lax, args = spec
        if args:
            return _gen_container_input(rng, oname if oname != "tuple" else "tuple_var", args, depth, cons)
        if oname in ("list", "tuple", "set", "frozenset", "deque"):
            return _gen_container_input(rng, oname if oname != "tuple" else "tuple_var", (("leaf", rng.choice(["int", "str"])),), depth, cons)
        r = rng.random()
        cd = dict(cons)
        if r < 0.55:
            for name in ("gt", "ge", "lt", "le", "const", "multiple_of"):
                if name in cd and rng.random() < 0.7:
                    v = _boundary_forms(rng, cd[name])
                    if name == "multiple_of" and isinstance(cd[name], (int, float)) and not isinstance(v, (str, bytes)):
                        try:
                            v = cd[name] * rng.randint(-3, 6) + rng.choice([0, 0, 0, 1, 0.5])
                            if oname == "int" and rng.random() < 0.3:
                                # beyond 2 ** 53 an int is not exactly representable as a float
                                v = rng.choice([10 ** 50 - 1, 10 ** 20 + 1, 2 ** 60 + 1, -(10 ** 30) - 3, 10 ** 50])
                        except Exception:
                            pass
                    return lambda v=v: v
            if "enum" in cd:
                v = rng.choice(list(cd["enum"]) + [0, "zz"])
                v = rng.choice([v, v, str(v)])
                return lambda v=v: v
            for name in ("length", "max_length", "min_length"):
                if name in cd and oname in ("str", "bytes"):
                    n = max(0, cd[name] + rng.choice([-1, 0, 0, 1]))
                    s = _STR_BY_LEN[n] if n < len(_STR_BY_LEN) else "a" * n
                    v = s.encode() if (oname == "bytes") != (rng.random() < 0.2) else s
                    return lambda v=v: v
            if "regex" in cd:
                v = rng.choice(["abc", "ab", "a", "123", "12", "abab", "bc", "AbC1", "2020-01-02", "-1.5", "a1c", "axc", "", "abcabc", " abc", "abc\n", "1.5", "12.5", "abcd", "abcd-1", "ab-1"])
                return lambda v=v: v
            if "max_digits" in cd or "decimal_places" in cd:
                v = rng.choice([0, 1, 12, 123, 1234, 99999, 0.5, 0.05, 1.5, 1.25, 12.345, 99.95, 999.5, 0.0009995, 1e16, 1e-7, -12.5,
                                Decimal("1.50"), Decimal("0.000"), Decimal("12.3"), Decimal("1E+3"), Decimal("99.95"), Decimal("-0.01"),
                                "1.50", "012", "1e2", "0.10",
                                # long / large values (more digits than the default decimal context carries)
                                Decimal("1E+30"), Decimal("123456789012345678901234567890.12"), 1e30, "98765432109876543210987654321.5"])
                return lambda v=v: v
        return V.pick(rng, oname, 0.1)[1]
    if k == "gen":
        return _gen_container_input(rng, spec[1], spec[2], depth, ())
    if k == "opt":
        if rng.random() < 0.25:
            v = rng.choice([None, None, "null", "", "None"])
            return lambda v=v: v
        return gen_input(rng, spec[1], depth + 1)
    if k in ("or", "xor", "and"):
        return gen_input(rng, rng.choice(spec[1]), depth + 1)
    if k == "not":
        return gen_input(rng, spec[1], depth + 1)
    if k == "lit":
        v = rng.choice(list(spec[1]) + ["x", 0])
        v = rng.choice([v, v, str(v), v])
        return lambda v=v: v
    if k == "dc":
        return gen_dc_input(rng, spec, depth)
    return V.pick(rng, None)[1]


def gen_dc_input(rng, spec, depth=0, p_missing=0.15, p_extra=0.15):
    _, base, fields, tag = spec
    parts = []
    for fname, fs, required, dkey in fields:
        if rng.random() < (p_missing if required else 0.4):
            continue
        parts.append((fname, gen_input(rng, fs, depth + 1)))
    if rng.random() < p_extra:
        parts.append((rng.choice(["extra", "zz", "F0", "_x"]), V.pick(rng, None)[1]))
    form = rng.random()

    def make():
        d = {k: f() for k, f in parts}
        if form < 0.85:
            return d
        if form < 0.92:
            import json
            try:
                return json.dumps(d)
            except Exception:
                return d
        if form < 0.96:
            return [d]
        return V.UserMapping(d)

    return make


def _gen_container_input(rng, kind, args, depth, cons):
    cd = dict(cons)
    if kind in ("dict", "Mapping"):
        n = rng.choice([0, 1, 1, 2, 3])
        ks = [gen_input(rng, args[0], depth + 1) for _ in range(n)]
        vs = [gen_input(rng, args[1], depth + 1) for _ in range(n)] if len(args) > 1 else [lambda: 1] * n

        def make_d():
            d = {}
            for kf, vf in zip(ks, vs):
                try:
                    d[kf()] = vf()
                except Exception:  # unhashable / hostile key
                    pass
            return d

        if rng.random() < 0.1:
            return lambda: list(make_d().items())
        return make_d
    if kind == "tuple_fix":
        n = len(args) + rng.choice([0, 0, 0, 0, -1, 1])
        items = [gen_input(rng, args[i] if i < len(args) else ("leaf", "int"), depth + 1) for i in range(max(0, n))]
    else:
        n = rng.choice([0, 1, 2, 2, 3, 4])
        for name in ("length", "max_length", "min_length"):
            if name in cd:
                n = max(0, cd[name] + rng.choice([-1, 0, 0, 1]))
        if "contains" in cd:
            n = rng.choice([0, 1, 2, 3, 4, 5])
            if "max_length" in cd and rng.random() < 0.8:
                n = min(n, cd["max_length"])
        items = [gen_input(rng, args[0], depth + 1) for _ in range(n)]
        if "contains" in cd:
            # aim at the thresholds: elements that match / do not match the contains type
            sub = gen_input
            for j in range(len(items)):
                if rng.random() < 0.6:
                    items[j] = sub(rng, cd["contains"], depth + 1)
        if "unique_items" in cd and items and rng.random() < 0.4:
            items.append(items[0])
        elif "unique_items" in cd and rng.random() < 0.3:
            # two items of different Python types that are equal (one hashable, the other not / a subclass instance)
            pair = rng.choice([(lambda: b"k", lambda: bytearray(b"k")), (lambda: frozenset({1, 2}), lambda: {1, 2}),
                               (lambda: V.Tone.RED, lambda: V.Tone.RED.value), (lambda: 1, lambda: 1.0), (lambda: (), lambda: ())])
            pair = list(pair)
            rng.shuffle(pair)
            at = rng.randint(0, len(items))
            items[at:at] = pair[:1]
            items.append(pair[1])
    shape = rng.choice(["list", "list", "list", "tuple", "set", "deque", "iter", "gen", "str", "frozenset", "dkeys"])

    def make():
        vals = [f() for f in items]
        try:
            if shape == "list":
                return vals
            if shape == "tuple":
                return tuple(vals)
            if shape == "set":
                return set(vals)
            if shape == "frozenset":
                return frozenset(vals)
            if shape == "deque":
                return deque(vals)
            if shape == "iter":
                return iter(vals)
            if shape == "gen":
                return (v for v in vals)
            if shape == "dkeys":
                return {v: 1 for v in vals}.keys()
            if shape == "str":
                if all(isinstance(v, (int, str)) and not isinstance(v, bool) for v in vals) and len(vals) > 1:
                    return ",".join(str(v) for v in vals)
                import json
                return json.dumps(vals)
        except Exception:
            pass
        return vals

    return make


# --------------------------------------------------------------------------------------------
# conformance (C01 oracle)
# --------------------------------------------------------------------------------------------
class Unjudged(Exception):
    """the predicate cannot judge this position (undocumented / trusted); caller counts a skip"""


def node_tag(spec):
    k = spec[0]
    if k in ("leaf", "gen", "con"):
        return k + ":" + spec[1]
    return k


def conforms(value, spec, built_dc=None, path="$"):
    """None if value conforms to spec, else (code, text, trail) where trail = node tags from the
    root spec to the failing node.  Raises Unjudged for positions outside the documented semantics."""
    r = _conforms(value, spec, built_dc, path)
    if r is None:
        return None
    return (r[0], r[1], (node_tag(spec),) + (tuple(r[2]) if len(r) > 2 else ()))


def _conforms(value, spec, built_dc=None, path="$"):
    k = spec[0]
    if k == "any":
        return None
    if k == "leaf":
        origin = ORIGINS[spec[1]]
        if origin is type(None):
            return None if value is None else ("not-instance:NoneType", f"{path}: {V_short(value)} is not None")
        if not isinstance(value, origin):
            return ("not-instance:" + spec[1], f"{path}: {V_short(value)} ({type(value).__name__}) is not an instance of {spec[1]}")
        return None
    if k == "con":
        _, oname, cons, lax, args = spec
        origin = ORIGINS[oname]
        if not isinstance(value, origin):
            return ("not-instance:" + oname, f"{path}: {V_short(value)} ({type(value).__name__}) is not an instance of {oname}")
        if args:
            r = _conforms_items(value, args[0], built_dc, path)
            if r:
                return r
        cdict = dict(cons)
        for cname, b in cons:
            if cname in lax:
                continue
            if cname in ("contains", "min_contains", "max_contains"):
                # items were judged against the element type above: for a conforming element, matching the contains type
                # (a strict constrained type over the same origin) <=> its constraints hold
                n = 0
                for it in value:
                    try:
                        n += _conforms(it, cdict["contains"], built_dc, path) is None
                    except Unjudged:
                        raise
                ok = n >= 1 if cname == "contains" else (n >= b if cname == "min_contains" else n <= b)
                if not ok:
                    return ("constraint:" + cname, f"{path}: {V_short(value)} has {n} element(s) matching {describe(cdict['contains'])}, violating {cname}"
                            + ("" if cname == "contains" else f"={b!r}"))
                continue
            h = CR.holds(cname, b, value)
            if h is None:
                raise Unjudged(f"{cname}")
            if h is False:
                later = [l for l in lax if l in CONSTRAINT_ORDER and cname in CONSTRAINT_ORDER
                         and CONSTRAINT_ORDER.index(l) > CONSTRAINT_ORDER.index(cname)]
                if later:
                    return ("strict-then-lax:%s<%s" % (cname, later[0]),
                            f"{path}: {V_short(value)} violates strict {cname}={b!r} after the later lax {later[0]} transformed it")
                return ("constraint:" + cname, f"{path}: {V_short(value)} violates strict constraint {cname}={b!r}")
        return None
    if k == "gen":
        _, kind, args = spec
        origin = GEN_ORIGIN[kind]
        if not isinstance(value, origin):
            return ("not-instance:" + kind, f"{path}: {V_short(value)} ({type(value).__name__}) is not an instance of {kind}")
        if kind in ("dict", "Mapping"):
            for kk, vv in value.items():
                r = conforms(kk, args[0], built_dc, f"{path}.key({V_short(kk)})")
                if r:
                    return r
                r = conforms(vv, args[1], built_dc, f"{path}[{V_short(kk)}]")
                if r:
                    return r
            return None
        if kind == "tuple_fix":
            if len(value) < len(args):
                return ("tuple-short", f"{path}: tuple {V_short(value)} shorter than the {len(args)} declared positions")
            for i, a in enumerate(args):
                r = conforms(value[i], a, built_dc, f"{path}[{i}]")
                if r:
                    return r
            return None
        if kind == "Iterator":
            raise Unjudged("iterator content")
        return _conforms_items(value, args[0], built_dc, path)
    if k == "opt":
        if value is None:
            return None
        return conforms(value, spec[1], built_dc, path)
    if k in ("or", "xor"):
        reasons = []
        unjudged = None
        for a in spec[1]:
            try:
                r = conforms(value, a, built_dc, path)
            except Unjudged as u:
                unjudged = u
                continue
            if r is None:
                return None
            reasons.append(r)
        if unjudged:
            raise unjudged
        trail = tuple(sorted(set(t for r in reasons for t in r[2])))
        return ("no-arg:" + "+".join(sorted(set(r[0] for r in reasons)))[:80],
                f"{path}: conforms to no argument of {k}: " + " | ".join(r[1] for r in reasons)[:300], trail)
    if k == "and":
        pos = [a for a in spec[1] if a[0] != "not"]
        if not pos:
            raise Unjudged("and of negations")
        return conforms(value, pos[-1], built_dc, path)
    if k == "not":
        raise Unjudged("negation has no source type")
    if k == "lit":
        if len(spec[1]) == 1:
            h = CR.holds("const", spec[1][0], value)
        else:
            h = CR.holds("enum", spec[1], value)
        if h is None:
            raise Unjudged("literal tolerance")
        if h:
            return None
        return ("literal", f"{path}: {V_short(value)} is not one of the literals {spec[1]!r}")
    if k == "dc":
        cls = built_dc(spec) if built_dc else None
        if cls is not None and not isinstance(value, cls):
            return ("not-instance:dc", f"{path}: {V_short(value)} is not an instance of the data class")
        _, base, fields, tag = spec
        for fname, fs, required, dkey in fields:
            present, fv = _dc_get(value, fname, base)
            if not present:
                if required:
                    return ("required-absent", f"{path}.{fname}: required field absent from the instance")
                continue
            if dkey is not None and _is_default(fv, fs, dkey):
                continue  # declared defaults are trusted
            r = conforms(fv, fs, built_dc, f"{path}.{fname}")
            if r:
                return r
        return None
    raise Unjudged(str(k))


def _is_default(fv, fs, dkey):
    d = default_for(fs, dkey)
    try:
        return type(d) is type(fv) and (d == fv or (d != d and fv != fv))
    except Exception:
        return False


def _dc_get(inst, fname, base):
    if base == "Schema":
        if dict.__contains__(inst, fname):
            return True, dict.__getitem__(inst, fname)
        return False, None
    d = getattr(inst, "__dict__", {})
    if fname in d:
        return True, d[fname]
    return False, None


def _conforms_items(value, elem, built_dc, path):
    try:
        it = list(value)
    except Exception:
        raise Unjudged("uniterable")
    for i, x in enumerate(it):
        r = conforms(x, elem, built_dc, f"{path}[{i}]")
        if r:
            return r
    return None


def V_short(v):
    from .runner import short
    return short(v, 80)


def spec_shape(spec, depth=0):
    """coarse shape class of a spec for distinct counting"""
    k = spec[0]
    if k == "leaf":
        return spec[1]
    if k == "con":
        return ("con", spec[1], tuple(sorted(c for c, _ in spec[2])), tuple(spec[3]), tuple(spec_shape(a, depth + 1) for a in spec[4]))
    if k == "gen":
        return (spec[1], tuple(spec_shape(a, depth + 1) for a in spec[2]))
    if k in ("opt", "not"):
        return (k, spec_shape(spec[1], depth + 1))
    if k in ("or", "xor", "and"):
        return (k, tuple(spec_shape(a, depth + 1) for a in spec[1]))
    if k == "lit":
        return ("lit", tuple(type(v).__name__ for v in spec[1]))
    if k == "dc":
        return ("dc", spec[1], tuple((spec_shape(f[1], depth + 1), f[2], f[3]) for f in spec[2]))
    return k


def value_class(v):
    """coarse input class for distinct counting"""
    t = type(v).__name__
    try:
        if isinstance(v, (str, bytes, list, tuple, set, frozenset, dict, deque)):
            return (t, min(len(v), 3))
        if isinstance(v, bool):
            return (t, v)
        if isinstance(v, (int, float)):
            return (t, "nan" if v != v else ("neg" if v < 0 else "zero" if v == 0 else "big" if abs(v) > 1e9 else "pos"))
    except Exception:
        pass
    return (t,)


def describe(spec):
    return repr(spec)
