"""Reference model of the documented field contract (docs/en/references/field.md, options.md).

model(decl, options, data, convert) -> ("ok", key_view, attr_view) | ("fail", {kinds}) | ("skip", why)

Written from the documentation, not from utype/parser/base.py.  Where the documentation is silent the
model says "skip".  `convert(type_name, value)` supplies the leaf conversion (("ok", v) | ("bad",)):
conversion itself is C01/C12's subject, the model is about WHICH value lands WHERE."""
import copy

from ..declspec import CALLABLES, NODEF


class Skip(Exception):
    pass


def _call(name, v):
    return bool(CALLABLES[name](v))


def mode_excluded(f, mode):
    fm = "r" if f["readonly"] else "w" if f["writeonly"] else f["mode"]
    return bool(mode and fm and mode not in fm)


def no_input(f, mode, value):
    if mode_excluded(f, mode):
        return True
    ni = f["no_input"]
    if ni is True:
        return True
    if isinstance(ni, str) and ni in CALLABLES:
        return _call(ni, value)
    if isinstance(ni, str):
        return bool(mode) and mode in ni
    return False


def always_no_input(f, mode):
    if mode_excluded(f, mode):
        return True
    ni = f["no_input"]
    if ni is True:
        return True
    if isinstance(ni, str) and ni not in CALLABLES:
        return bool(mode) and mode in ni
    return False


def no_output(f, mode, value):
    if mode_excluded(f, mode):
        return True
    no = f["no_output"]
    if no is True:
        return True
    if isinstance(no, str) and no in CALLABLES:
        return _call(no, value)
    if isinstance(no, str):
        return bool(mode) and mode in no
    return False


def required(f, options):
    if options.get("ignore_required"):
        return False
    r = f["required"]
    if r is None:
        r = f["default"] is NODEF and not f["factory"]
    if r is False:
        return False
    if always_no_input(f, options.get("mode")):
        return False
    if r is True:
        return True
    mode = options.get("mode")
    return bool(mode) and mode in r


def has_default(f):
    return f["default"] is not NODEF or bool(f["factory"])


def default_value(f):
    if f["default"] is not NODEF:
        return copy.deepcopy(f["default"])
    return CALLABLES[f["factory"]]()


def spell(f, options):
    acc = [f["name"]] + ([f["alias"]] if f["alias"] else []) + list(f["alias_from"])
    ci = f["case_insensitive"] if f["case_insensitive"] is not None else bool(options.get("case_insensitive"))
    return acc, ci


def resolve(decl, options, key):
    hits = []
    for f in decl["fields"]:
        acc, ci = spell(f, options)
        if key in acc or (ci and key.lower() in [a.lower() for a in acc]):
            hits.append(f)
    if len(hits) > 1:
        raise Skip("key resolves to two fields")
    return hits[0] if hits else None


def model(decl, options, data, convert):
    try:
        return _model(decl, options, data, convert)
    except Skip as s:
        return ("skip", str(s))


def _model(decl, options, data, convert):
    mode = options.get("mode")
    fn = decl["base"] == "function"
    fails = set()
    if options.get("max_params") and len(data) > options["max_params"]:
        fails.add("params")
    if options.get("min_params") and len(data) < options["min_params"]:
        fails.add("params")
    given = {}
    unknown = []
    for k, v in data.items():
        if not isinstance(k, str):
            raise Skip("non-string key")
        f = resolve(decl, options, k)
        if f is None:
            unknown.append((k, v))
        else:
            given.setdefault(f["name"], []).append(v)
    out_name = {f["name"]: (f["alias"] or f["name"]) for f in decl["fields"]}
    values = {}      # attname -> value present on the instance
    deferred = {}    # attname -> default produced on attribute access only
    from_input = set()
    for f in decl["fields"]:
        n = f["name"]
        vals = given.get(n, [])
        if len(vals) > 1:
            first = vals[0]
            if any(type(x) is not type(first) or x != first for x in vals[1:]):
                raise Skip("one field given different values under several spellings (C06 known findings)")
        taken = False
        if vals:
            v = vals[0]
            if no_input(f, mode, v):
                if isinstance(f["no_input"], str) and f["no_input"] in CALLABLES and required(f, options):
                    raise Skip("required field with a value-dependent no_input (undocumented; C06 known finding)")
            else:
                taken = True
                c = convert(f["type"], v)
                if c[0] == "ok":
                    values[n] = c[1]
                    from_input.add(n)
                    continue
                pol = f["on_error"] or options.get("invalid_values") or "throw"
                if pol == "preserve":
                    values[n] = v
                    from_input.add(n)
                    continue
                if pol == "exclude" and options.get("force_default", NODEF) is not NODEF:
                    raise Skip("excluded value under force_default (undocumented)")
                if pol == "exclude" and f["dependencies"]:
                    raise Skip("a given-but-excluded field with dependencies (is it 'provided'? undocumented)")
                if pol == "throw" or required(f, options):
                    fails.add("parse")
                    continue
                # excluded: falls through to the default, as if it was not given
        if not taken and required(f, options):
            if options.get("force_default", NODEF) is not NODEF:
                raise Skip("force_default with a missing required field (undocumented)")
            fails.add("absence")
            continue
        if options.get("no_default"):
            continue
        forced = options.get("force_default", NODEF)
        if forced is not NODEF:
            dv = copy.deepcopy(forced)
        elif has_default(f):
            dv = default_value(f)
        else:
            continue
        if (f["defer_default"] or options.get("defer_default")) and not fn:
            deferred[n] = dv
        else:
            values[n] = dv
    # dependencies of provided fields must be provided in the input
    for f in decl["fields"]:
        if f["name"] in from_input:
            for d in f["dependencies"]:
                if d not in from_input:
                    df = next((x for x in decl["fields"] if x["name"] == d), None)
                    if df is not None and given.get(d) and d not in from_input:
                        raise Skip("dependency was given but not taken / failed (undocumented)")
                    fails.add("dependency")
    # unknown keys
    add = options.get("addition")
    extra = {}
    for k, v in unknown:
        if fn and k in ("kwargs", "self", "cls"):
            raise Skip("parameter-like unknown key on a function")
        if k.startswith("_"):
            raise Skip("underscore key (excluded-variable rules are not part of the field contract)")
        if add is False:
            fails.add("exceed")
        elif add is True or (fn and add is None):
            extra[k] = v
        elif add == "int":
            c = convert("int", v)
            if c[0] == "ok":
                extra[k] = c[1]
            else:
                pol = options.get("invalid_values") or "throw"
                if pol == "throw":
                    fails.add("parse")
                elif pol == "preserve":
                    extra[k] = v
    if fails:
        return ("fail", fails)
    if fn:
        body = dict(values)
        for k, v in extra.items():
            if k in body:
                raise Skip("extra key collides with a parameter name")
            body[k] = v
        return ("ok", None, body, extra)
    key_view = {}
    attr_view = {}
    for f in decl["fields"]:
        n = f["name"]
        if n in values:
            attr_view[n] = values[n]
            if not no_output(f, mode, values[n]):
                key_view[out_name[n]] = values[n]
        elif n in deferred:
            attr_view[n] = deferred[n]
    for k, v in extra.items():
        if k in key_view or k in attr_view:
            raise Skip("extra key collides with a field name")
        key_view[k] = v
    return ("ok", key_view, attr_view, extra)


KIND = {"AbsenceError": "absence", "ExceedError": "exceed", "AliasConflictError": "conflict", "DependenciesAbsenceError": "dependency",
        "ParamsExceedError": "params", "ParamsLackError": "params", "ParseError": "parse", "CollectedParseError": "collected"}
