"""Reference semantics of the built-in constraints, written from docs/en/references/rule.md,
not from utype/parser/rule.py.  holds(name, bound, value) -> True / False / None (None = the
documentation does not define the case; the caller skips it)."""
import re
from decimal import Decimal
from enum import Enum, EnumMeta
from fractions import Fraction


def _dec_parts(v):
    d = v if isinstance(v, Decimal) else Decimal(str(v))
    sign, digits, exp = d.as_tuple()
    if not isinstance(exp, int):
        return None  # NaN / Infinity: digits are undefined -> must not be accepted
    return digits, exp


def count_digits(v):
    """(significant digits excluding sign/point/lone integer zero, decimal places)"""
    p = _dec_parts(v)
    if p is None:
        return None
    digits, exp = p
    if exp >= 0:
        return len(digits) + exp, 0
    places = -exp
    return max(len(digits), places), places


def holds(name, bound, v):
    try:
        if name == "gt":
            return (v > bound) is True
        if name == "ge":
            return (v >= bound) is True
        if name == "lt":
            return (v < bound) is True
        if name == "le":
            return (v <= bound) is True
        if name in ("length", "max_length", "min_length"):
            n = len(v) if hasattr(v, "__len__") else len(str(v))
            return n == bound if name == "length" else (n <= bound if name == "max_length" else n >= bound)
        if name == "regex":
            return re.fullmatch(bound, str(v)) is not None
        if name == "const":
            if not (v == bound):
                return False
            if type(v) is type(bound):
                return True
            if {type(v), type(bound)} in ({int, float}, {int, Decimal}):
                return None  # tolerated pair hard-wired in the library, not documented: not judged
            return False
        if name == "enum":
            if isinstance(bound, EnumMeta):
                return any(v == m.value or v is m for m in bound)
            x = v.value if isinstance(v, Enum) else v
            return any(x is b or x == b for b in bound)
        if name == "max_digits":
            c = count_digits(v)
            return False if c is None else c[0] <= bound
        if name == "decimal_places":
            c = count_digits(v)
            return False if c is None else c[1] <= bound
        if name == "multiple_of":
            if isinstance(v, float) and (v != v or v in (float("inf"), float("-inf"))):
                return False
            if isinstance(v, Decimal) and not v.is_finite():
                return False
            if isinstance(v, (int, Decimal)) and not isinstance(v, bool) and isinstance(bound, float):
                # exact values are judged against the decimal text of a float step (0.1 is one tenth); float values
                # against its binary value (IEEE remainder, as v % step computes it)
                return Fraction(v) % Fraction(str(bound)) == 0
            return Fraction(v) % Fraction(bound) == 0
        if name == "unique_items":
            if not bound:
                return True
            seen = []
            for x in v:
                for y in seen:
                    if x is y or x == y:
                        return False
                seen.append(x)
            return True
    except Exception:
        return None
    return None


def all_hold(constraints, v, skip=()):
    """-> True / False / None over a dict or item-tuple of strict constraints"""
    items = constraints.items() if isinstance(constraints, dict) else constraints
    res = True
    for k, b in items:
        if k in skip:
            continue
        h = holds(k, b, v)
        if h is False:
            return False
        if h is None:
            res = None
    return res
