"""Runner: tiers, seeds, shards, budgets, verdicts, evidence, VIOLATION / KNOWN-FINDING lines.

Parent:  ./check C07 --tier quick            -> spawns N workers (subprocess), merges, decides.
Worker:  python -m vmon.runner --worker C07 --shard k --nshards n --out file
Replay:  ./check C07 --replay replays/C07/<key>.json

Exit codes: 0 held (known findings printed), 1 violation (VIOLATION line printed),
2 inconclusive (deciding monitor not reached / harness error / worker died).
"""
import argparse
import hashlib
import importlib
import json
import os
import random
import re
import signal
import subprocess
import sys
import tempfile
import time
import traceback

HERE = os.path.dirname(os.path.dirname(os.path.abspath(__file__)))
REPO = os.environ.get("VERIF_REPO", "/repo")
OUT = os.environ.get("VERIF_OUT") or HERE  # where evidence/ and replays/ are written (self-tests redirect it)


class CaseTimeout(BaseException):
    """wall-clock safety net fired (inconclusive, never a violation)"""


def _alarm(signum, frame):
    raise CaseTimeout()


def short(obj, n=300):
    try:
        s = obj if isinstance(obj, str) else repr(obj)
    except BaseException as e:  # hostile __repr__
        s = f"<unreprable {type(obj).__name__}: {type(e).__name__}>"
    return s if len(s) <= n else s[: n - 3] + "..."


def jsonable(o, depth=0):
    if depth > 6:
        return short(o, 80)
    if isinstance(o, (str, int, bool)) or o is None:
        return o if not isinstance(o, int) or abs(o) < 2 ** 53 else str(o)
    if isinstance(o, float):
        return o if o == o and abs(o) != float("inf") else repr(o)
    if isinstance(o, dict):
        return {short(k, 80) if not isinstance(k, str) else k: jsonable(v, depth + 1) for k, v in list(o.items())[:40]}
    if isinstance(o, (list, tuple)):
        return [jsonable(v, depth + 1) for v in list(o)[:40]]
    return short(o, 200)


class Ctx:
    """Per-worker recording context handed to property modules."""

    MAX_DETAIL_PER_KEY = 3

    def __init__(self, prop, tier, seed, shard, nshards):
        self.prop, self.tier, self.seed, self.shard, self.nshards = prop, tier, seed, shard, nshards
        self.evaluations = 0
        self.sigs = set()
        self.counters = {}
        self.samples = []
        self.violations = {}  # key -> {count, what, first: [...]}
        self.inconclusive = {}
        self.harness_errors = []
        self.states = set()
        self.case_index = None
        self.cases_run = 0
        self.truncated = False
        self.max_samples = 4

    # -- recording API ---------------------------------------------------------------------
    def held(self, sig=None):
        """the deciding oracle evaluated this (non-trivial) execution and it held"""
        self.evaluations += 1
        if sig is not None:
            self.sigs.add(_h(sig))

    def trivial(self, why="trivial"):
        self.evaluations += 1
        self.count("trivial:" + why)

    def skip(self, why):
        self.count("skipped:" + why)

    def count(self, name, n=1):
        self.counters[name] = self.counters.get(name, 0) + n

    def state(self, s):
        self.states.add(_h(s))

    def sample(self, obj, force=False):
        if force or len(self.samples) < self.max_samples:
            self.samples.append(jsonable(obj))

    def want_sample(self):
        return len(self.samples) < self.max_samples

    def inconclusive_case(self, why):
        self.inconclusive[why] = self.inconclusive.get(why, 0) + 1

    def violation(self, key, what, detail=None, sig=None):
        """key: mechanism key (narrow, structural). what: one-line description."""
        self.evaluations += 1
        if sig is not None:
            self.sigs.add(_h(sig))
        v = self.violations.setdefault(key, {"count": 0, "what": what, "first": []})
        v["count"] += 1
        if len(v["first"]) < self.MAX_DETAIL_PER_KEY:
            v["first"].append({"index": self.case_index, "what": what, "detail": jsonable(detail)})

    def dump(self):
        return {
            "evaluations": self.evaluations,
            "sigs": sorted(self.sigs),
            "counters": self.counters,
            "samples": self.samples,
            "violations": self.violations,
            "inconclusive": self.inconclusive,
            "harness_errors": self.harness_errors[:5],
            "n_harness_errors": len(self.harness_errors),
            "states": sorted(self.states),
            "cases_run": self.cases_run,
            "truncated": self.truncated,
        }


def _h(sig):
    return hashlib.blake2b(repr(sig).encode("utf-8", "backslashreplace"), digest_size=8).hexdigest()


def load_prop(pid):
    return importlib.import_module("vmon.props." + pid.lower())


def assert_repo():
    import utype

    f = os.path.realpath(utype.__file__)
    if not f.startswith(os.path.realpath(REPO) + os.sep):
        print(f"harness error: utype imported from {f}, expected under {REPO}", file=sys.stderr)
        sys.exit(3)


def case_rng(pid, seed, i):
    return random.Random(f"{pid}:{seed}:{i}")


def run_one_case(mod, ctx, i, wall_s=30):
    ctx.case_index = i
    rng = case_rng(ctx.prop, ctx.seed, i)
    signal.signal(signal.SIGALRM, _alarm)
    signal.setitimer(signal.ITIMER_REAL, wall_s)
    try:
        case = mod.make_case(i, rng, ctx.tier)
        if case is None:
            return
        mod.run_case(case, ctx)
    except CaseTimeout:
        ctx.inconclusive_case("wallclock")
    except Exception:
        ctx.harness_errors.append({"index": i, "tb": traceback.format_exc()[-1500:]})
    finally:
        signal.setitimer(signal.ITIMER_REAL, 0)
    ctx.cases_run += 1


def worker_main(a):
    import warnings

    warnings.simplefilter("ignore")
    sys.setrecursionlimit(3000)
    assert_repo()
    mod = load_prop(a.prop)
    ctx = Ctx(a.prop, a.tier, a.seed, a.shard, a.nshards)
    t0 = time.monotonic()
    if hasattr(mod, "setup"):
        mod.setup(ctx)
    n = mod.n_cases(a.tier)
    budget = a.budget or mod.TIME_BUDGET[a.tier]
    deadline = t0 + budget
    for i in range(a.shard, n, a.nshards):
        if time.monotonic() > deadline:
            ctx.truncated = True
            break
        run_one_case(mod, ctx, i, wall_s=getattr(mod, 'CASE_WALL', {}).get(ctx.tier, 60))
    if hasattr(mod, "finish"):
        try:
            mod.finish(ctx)
        except Exception:
            ctx.harness_errors.append({"index": None, "tb": traceback.format_exc()[-1500:]})
    out = ctx.dump()
    out["wall_s"] = time.monotonic() - t0
    with open(a.out, "w") as f:
        json.dump(out, f)


def load_known():
    p = os.path.join(HERE, "known_findings.json")
    if not os.path.exists(p):
        return []
    with open(p) as f:
        d = json.load(f)
    return d.get("open", [])


def slug(s):
    return re.sub(r"[^A-Za-z0-9_.-]+", "_", s)[:100]


def parent_main(a):
    assert_repo()
    mod = load_prop(a.prop)
    t0 = time.monotonic()
    nsh = a.shards or getattr(mod, "SHARDS", {}).get(a.tier, 16)
    tmp = tempfile.mkdtemp(prefix=f"vmon-{a.prop}-")
    procs = []
    env = dict(os.environ)
    for k in range(nsh):
        out = os.path.join(tmp, f"s{k}.json")
        cmd = [sys.executable, "-u", "-m", "vmon.runner", "--worker", a.prop, "--tier", a.tier, "--seed", str(a.seed),
               "--shard", str(k), "--nshards", str(nsh), "--out", out]
        if a.budget:
            cmd += ["--budget", str(a.budget)]
        procs.append((k, out, subprocess.Popen(cmd, env=env, cwd=HERE, stdout=subprocess.PIPE, stderr=subprocess.STDOUT)))
    budget = a.budget or mod.TIME_BUDGET[a.tier]
    hard = budget * 2.5 + 120
    results, dead = [], []
    for k, out, p in procs:
        try:
            so, _ = p.communicate(timeout=max(5, hard - (time.monotonic() - t0)))
        except subprocess.TimeoutExpired:
            p.kill()
            so, _ = p.communicate()
            dead.append((k, "timeout"))
            continue
        if p.returncode != 0 or not os.path.exists(out):
            dead.append((k, f"rc={p.returncode} {so.decode(errors='replace')[-800:]}"))
            continue
        with open(out) as f:
            results.append(json.load(f))
    for f in os.listdir(tmp):
        os.unlink(os.path.join(tmp, f))
    os.rmdir(tmp)
    return decide(a, mod, results, dead, t0, nsh)


def merge(results):
    m = {"evaluations": 0, "sigs": set(), "counters": {}, "samples": [], "violations": {}, "inconclusive": {},
         "harness_errors": [], "n_harness_errors": 0, "states": set(), "cases_run": 0, "truncated": 0}
    for r in results:
        m["evaluations"] += r["evaluations"]
        m["sigs"].update(r["sigs"])
        m["states"].update(r["states"])
        for k, v in r["counters"].items():
            if k.startswith("max:"):
                m["counters"][k] = max(m["counters"].get(k, 0), v)
            else:
                m["counters"][k] = m["counters"].get(k, 0) + v
        for k, v in r["inconclusive"].items():
            m["inconclusive"][k] = m["inconclusive"].get(k, 0) + v
        if len(m["samples"]) < 6:
            m["samples"].extend(r["samples"][:2])
        for k, v in r["violations"].items():
            t = m["violations"].setdefault(k, {"count": 0, "what": v["what"], "first": []})
            t["count"] += v["count"]
            t["first"].extend(v["first"])
        m["harness_errors"].extend(r["harness_errors"])
        m["n_harness_errors"] += r["n_harness_errors"]
        m["cases_run"] += r["cases_run"]
        m["truncated"] += 1 if r["truncated"] else 0
    return m


def run_corpus(pid, tier):
    """replays hunt/<pid>/finding_*.py (curated reproduction scripts, exit 1 = violation present) against the repository.
    quick tier: only the scripts that are NOT listed as open known findings (the repaired reports: regression guards);
    the listed ones demonstrate defects that are still there (several of them by being slow) and are replayed in the
    thorough tier."""
    import glob
    from concurrent.futures import ThreadPoolExecutor

    files = sorted(glob.glob(os.path.join(HERE, "hunt", pid, "finding_*.py")))
    skipped = 0
    if tier == "quick":
        listed = {k["key"] for k in load_known() if k["property"] == pid}
        keep = [f for f in files if f"{pid}/corpus/{os.path.basename(f)[:-3]}" not in listed]
        skipped = len(files) - len(keep)
        files = keep
    env = dict(os.environ, PYTHONPATH=os.pathsep.join([REPO] + [p for p in os.environ.get("PYTHONPATH", "").split(os.pathsep) if p and p != REPO]),
               PYTHONDONTWRITEBYTECODE="1", PYTHONHASHSEED="0")

    def one(f):
        try:
            p = subprocess.run([sys.executable, "-W", "ignore", f], env=env, capture_output=True, text=True, timeout=240, cwd=tempfile.gettempdir())
            return f, p.returncode, (p.stdout + p.stderr)[-600:]
        except subprocess.TimeoutExpired:
            return f, "timeout", ""

    with ThreadPoolExecutor(max_workers=8) as ex:
        return list(ex.map(one, files)), skipped


def decide(a, mod, results, dead, t0, nsh):
    pid = a.prop
    m = merge(results)
    corpus, corpus_skipped = run_corpus(pid, a.tier) if not a.replay else ([], 0)
    if corpus_skipped:
        m["counters"]["corpus:listed_known_findings_not_replayed_in_quick_tier"] = corpus_skipped
    for f, rc, tail in corpus:
        name = os.path.basename(f)[:-3]
        m["counters"]["corpus:scripts_run"] = m["counters"].get("corpus:scripts_run", 0) + 1
        if rc == 1:
            doc = open(f).read()
            mm = re.search(r'"""(.*?)"""', doc, re.S)
            what = (mm.group(1).strip().replace("\n", " ") if mm else name)[:300]
            m["violations"].setdefault(f"{pid}/corpus/{name}", {"count": 0, "what": what, "first": []})
            v = m["violations"][f"{pid}/corpus/{name}"]
            v["count"] += 1
            v["first"].append({"index": None, "what": f"hunt/{pid}/{name}.py exits 1 (violation present): {what}", "detail": {"script": f"hunt/{pid}/{name}.py", "output_tail": tail}})
            m["counters"]["corpus:present"] = m["counters"].get("corpus:present", 0) + 1
        elif rc == 0:
            m["counters"]["corpus:absent"] = m["counters"].get("corpus:absent", 0) + 1
        else:
            m["counters"][f"corpus:inconclusive:{rc}"] = m["counters"].get(f"corpus:inconclusive:{rc}", 0) + 1
            m["inconclusive"]["corpus script did not finish normally"] = m["inconclusive"].get("corpus script did not finish normally", 0) + 1
    known = {k["key"]: k for k in load_known() if k["property"] == pid}
    known_seen, new_viol = [], []
    for key, v in sorted(m["violations"].items()):
        v["first"].sort(key=lambda d: (d["index"] is None, d["index"]))
        if key in known:
            known_seen.append((key, known[key], v))
        else:
            new_viol.append((key, v))
    for key, kf, v in known_seen:
        print(f"KNOWN-FINDING: property={pid} {kf['what']} [key={key}; observed {v['count']}x this run]")
    rc = 0
    for key, v in new_viol:
        d = os.path.join(OUT, "replays", pid)
        os.makedirs(d, exist_ok=True)
        path = os.path.join(d, slug(key) + ".json")
        first = v["first"][0]
        with open(path, "w") as f:
            json.dump({"property": pid, "tier": a.tier, "seed": a.seed, "index": first["index"], "key": key,
                       "what": v["what"], "count": v["count"], "witnesses": v["first"][:3],
                       "repo_head": _repo_head()}, f, indent=1)
        print(f"VIOLATION property={pid} replay={path}")
        print(f"  key={key} count={v['count']} :: {short(first['what'], 400)}")
        rc = 1
    distinct = len(m["sigs"])
    min_nt = mod.MIN_NONTRIVIAL[a.tier] if hasattr(mod, "MIN_NONTRIVIAL") else 2
    inconclusive_reasons = []
    if dead:
        inconclusive_reasons.append(f"{len(dead)} worker(s) died: {dead[:2]}")
    if m["n_harness_errors"]:
        inconclusive_reasons.append(f"{m['n_harness_errors']} harness error(s): " + m["harness_errors"][0]["tb"][-600:])
    if distinct < min_nt:
        inconclusive_reasons.append(f"only {distinct} distinct non-trivial cases reached the oracle (< {min_nt})")
    rejected = sum(v for k, v in m["counters"].items() if k.startswith("declaration_rejected"))
    if m["cases_run"] and rejected > 0.2 * m["cases_run"]:
        inconclusive_reasons.append(f"{rejected}/{m['cases_run']} generated declarations were rejected by the library or failed to build "
                                    f"(generator drift): " + ", ".join(f"{k}={v}" for k, v in m["counters"].items() if k.startswith("declaration_rejected")))
    if m["inconclusive"].get("wallclock"):
        # a case cut by the wall-clock watchdog was not decided: never folded into 'held'
        inconclusive_reasons.append(f"{m['inconclusive']['wallclock']} case(s) were cut by the per-case wall-clock watchdog and remain undecided")
    if hasattr(mod, "conclusive"):
        why = mod.conclusive(m, a.tier)
        if why:
            inconclusive_reasons.append(why)
    wall = time.monotonic() - t0
    cov = {
        "evaluations": m["evaluations"],
        "distinct_nontrivial": distinct,
        "rule": mod.RULE,
        "samples": m["samples"][:6],
        "cases_run": m["cases_run"],
        "shards": nsh,
        "shards_truncated_by_time_budget": m["truncated"],
        "counters": dict(sorted(m["counters"].items())),
        "known_findings_seen": [{"key": k, "count": v["count"]} for k, _, v in known_seen],
        "inconclusive_cases": m["inconclusive"],
        "inconclusive_reasons": inconclusive_reasons,
        "exhaustive": bool(getattr(mod, "EXHAUSTIVE", {}).get(a.tier, False)) and not m["truncated"],
    }
    if m["states"]:
        cov["distinct_states_seen"] = len(m["states"])
    if hasattr(mod, "extra_coverage"):
        cov.update(mod.extra_coverage(m, a.tier))
    ev = {"property_id": pid, "tier": a.tier, "seed": a.seed, "level": "exploration", "coverage": cov,
          "assumptions": list(getattr(mod, "ASSUMPTIONS", [])), "wall_s": round(wall, 2),
          "violations": len(new_viol)}
    os.makedirs(os.path.join(OUT, "evidence"), exist_ok=True)
    with open(os.path.join(OUT, "evidence", pid + ".json"), "w") as f:
        json.dump(ev, f, indent=1, sort_keys=True)
    try:  # one-line-per-tier run log (map for DESIGN.md 8.3; the evidence file stays the authority)
        os.makedirs(os.path.join(OUT, "runs"), exist_ok=True)
        with open(os.path.join(OUT, "runs", f"{pid}.{a.tier}.json"), "w") as f:
            json.dump({"property_id": pid, "tier": a.tier, "seed": a.seed, "evaluations": m["evaluations"], "distinct_nontrivial": distinct,
                       "cases_run": m["cases_run"], "wall_s": round(wall, 1), "known_findings_seen": len(known_seen), "new_violations": len(new_viol),
                       "inconclusive": bool(inconclusive_reasons), "repo_head": _repo_head()}, f, indent=1, sort_keys=True)
    except OSError:
        pass
    print(f"{pid} tier={a.tier} seed={a.seed}: evaluations={m['evaluations']} distinct_nontrivial={distinct} "
          f"cases={m['cases_run']} known={len(known_seen)} new_violations={len(new_viol)} wall={wall:.1f}s")
    if rc == 0 and inconclusive_reasons:
        for r in inconclusive_reasons:
            print("INCONCLUSIVE:", r)
        return 2
    return rc


def _repo_head():
    try:
        return subprocess.run(["git", "-C", REPO, "rev-parse", "--short", "HEAD"], capture_output=True, text=True,
                              timeout=10).stdout.strip()
    except Exception:
        return None


def replay_main(a):
    import warnings

    warnings.simplefilter("ignore")
    assert_repo()
    with open(a.replay) as f:
        r = json.load(f)
    mod = load_prop(r["property"])
    ctx = Ctx(r["property"], r["tier"], r["seed"], 0, 1)
    if hasattr(mod, "setup"):
        mod.setup(ctx)
    run_one_case(mod, ctx, r["index"], wall_s=120)
    if hasattr(mod, "finish"):
        mod.finish(ctx)
    print(json.dumps({"violations": ctx.violations, "harness_errors": ctx.harness_errors,
                      "inconclusive": ctx.inconclusive}, indent=1)[:6000])
    known = {k["key"] for k in load_known() if k["property"] == r["property"]}
    if any(k not in known for k in ctx.violations):
        print(f"VIOLATION property={r['property']} replay={a.replay}")
        return 1
    print("replay: no (new) violation reproduced")
    return 0


def main():
    ap = argparse.ArgumentParser()
    ap.add_argument("prop", nargs="?")
    ap.add_argument("--worker", dest="worker")
    ap.add_argument("--tier", default=os.environ.get("VERIF_TIER") or "quick")
    ap.add_argument("--seed", type=int, default=int(os.environ.get("VERIF_SEED") or 0))
    ap.add_argument("--shard", type=int, default=0)
    ap.add_argument("--nshards", type=int, default=1)
    ap.add_argument("--shards", type=int, default=0)
    ap.add_argument("--budget", type=float, default=0)
    ap.add_argument("--out")
    ap.add_argument("--replay")
    a = ap.parse_args()
    if os.environ.get("VERIF_TIER"):
        a.tier = os.environ["VERIF_TIER"]
    if a.worker:
        a.prop = a.worker
        worker_main(a)
        return 0
    if not a.prop:
        ap.error("property id required")
    a.prop = a.prop.upper()
    if a.replay:
        return replay_main(a)
    return parent_main(a)


if __name__ == "__main__":
    sys.exit(main())
