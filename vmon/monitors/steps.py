"""Logical step counter / step-budget watchdog / line-reach recorder built on sys.monitoring.

LINE events are counted only for code objects whose file is under the utype package of the
repository under test; every other code object returns DISABLE at once.  When the budget is
exhausted the callback raises StepLimit (a BaseException, so the library's `except Exception`
clauses do not swallow it)."""
import os
import sys
from collections import deque

mon = sys.monitoring
TOOL = mon.DEBUGGER_ID


class StepLimit(BaseException):
    pass


class StepMonitor:
    def __init__(self):
        import utype

        self.root = os.path.dirname(os.path.realpath(utype.__file__)) + os.sep
        self.count = 0
        self.limit = None
        self.recent = None
        self.reach = set()
        self.record_reach = False
        self.active = False
        self._installed = False

    def install(self):
        if self._installed:
            return True
        try:
            if mon.get_tool(TOOL) is None:
                mon.use_tool_id(TOOL, "vmon-steps")
            mon.register_callback(TOOL, mon.events.LINE, self._line)
            mon.set_events(TOOL, mon.events.LINE)
            self._installed = True
        except Exception:
            return False
        return True

    def uninstall(self):
        if self._installed:
            mon.set_events(TOOL, 0)
            mon.register_callback(TOOL, mon.events.LINE, None)
            mon.free_tool_id(TOOL)
            self._installed = False

    def _line(self, code, line):
        if not code.co_filename.startswith(self.root):
            return mon.DISABLE
        if not self.active:
            return None
        self.count += 1
        if self.recent is not None:
            self.recent.append((code.co_filename[len(self.root):], line))
        if self.record_reach:
            self.reach.add((code.co_filename[len(self.root):], line))
        if self.limit is not None and self.count > self.limit:
            self.active = False
            raise StepLimit(self.count)
        return None

    def start(self, limit=None, tail=0):
        self.count = 0
        self.limit = limit
        self.recent = deque(maxlen=tail) if tail else None
        self.active = True

    def stop(self):
        self.active = False
        return self.count

    def loop_signature(self):
        """distinct (file, line) in the recorded tail"""
        return sorted(set(self.recent)) if self.recent else []


_MON = None


def get():
    global _MON
    if _MON is None:
        _MON = StepMonitor()
    return _MON
