"""Online monitors attached from the harness with icontract (no source change in /repo).

Conditions *record and return True*: a raising contract would abort the execution it observes."""
import os

import icontract

from ..oracles import constraints_ref as CR


class MonitorBroken(Exception):
    pass


class RuleParseMonitor:
    def __init__(self):
        self.counters = {"rule_parse_post": 0, "rule_parse_judged": 0}
        self.violations = []

    def record(self, key, what, detail):
        self.counters["violations"] = self.counters.get("violations", 0) + 1
        if len(self.violations) < 200:
            self.violations.append((key, what, detail))


def _waived(options):
    try:
        if options.ignore_constraints:
            return True
        if options.unresolved_types == "ignore":
            return True
        for k in ("invalid_items", "invalid_keys", "invalid_values"):
            if getattr(options, k) == "preserve":
                return True
    except Exception:
        return True
    return False


def attach_rule_parse_monitor():
    """postcondition on Rule.parse: the returned value is an instance of the declared concrete
    origin and satisfies every strict validator (reference semantics)."""
    if not os.environ.get("UTYPE_VERIF_MONITORS"):
        return None
    from utype.parser.rule import ConstraintMode, LogicalType, Rule

    mon = RuleParseMonitor()
    base_pre = Rule.__dict__["pre_validate"].__func__
    base_post = Rule.__dict__["post_validate"].__func__
    raw = Rule.__dict__["parse"].__func__

    def rule_parse_post(cls, value, context, result):
        try:
            mon.counters["rule_parse_post"] += 1
            if result is None or cls is Rule:
                return True
            if cls.__applied__ or cls.pre_validate.__func__ is not base_pre or cls.post_validate.__func__ is not base_post:
                mon.counters["opaque"] = mon.counters.get("opaque", 0) + 1
                return True
            options = context.options if context is not None else (cls.__options__ or None)
            if options is not None and _waived(options):
                return True
            origin = cls.__origin__
            judged = False
            if isinstance(origin, type) and not isinstance(origin, LogicalType) and not cls.__abstract__:
                judged = True
                if not isinstance(result, origin):
                    mon.record("C01/online/not-instance:" + origin.__name__,
                               f"Rule.parse on {cls!r} returned {type(result).__name__} {result!r:.80}",
                               {"rule": repr(cls), "input": repr(value)[:120], "result": repr(result)[:120]})
            for key, bound, func in cls.__validators__:
                if isinstance(getattr(cls, key, None), ConstraintMode):
                    continue
                if key == "const" and getattr(cls, "const", None) is not bound:
                    continue
                h = CR.holds(key, bound, result)
                if h is None:
                    continue
                judged = True
                if h is False:
                    names = [k for k, _, _ in cls.__validators__]
                    later = [k for k in names[names.index(key) + 1:] if isinstance(getattr(cls, k, None), ConstraintMode)]
                    if later:
                        mon.record("C01/strict-then-lax:%s<%s" % (key, later[0]),
                                   f"Rule.parse on {cls!r} returned {result!r:.80}: strict {key}={bound!r:.60} broken by later lax {later[0]}",
                                   {"rule": repr(cls), "input": repr(value)[:120], "result": repr(result)[:120]})
                        continue
                    mon.record("C01/online/constraint:" + key,
                               f"Rule.parse on {cls!r} returned {result!r:.80} violating {key}={bound!r:.60}",
                               {"rule": repr(cls), "input": repr(value)[:120], "result": repr(result)[:120]})
            if judged:
                mon.counters["rule_parse_judged"] += 1
        except Exception as e:  # a monitor bug must never change behaviour
            mon.counters["monitor_error:" + type(e).__name__] = mon.counters.get("monitor_error:" + type(e).__name__, 0) + 1
        return True

    def wrapped(cls, value, context=None):
        return raw(cls, value, context)

    wrapped.__name__ = "parse"
    wrapped.__qualname__ = "Rule.parse"
    checked = icontract.ensure(rule_parse_post, error=MonitorBroken)(wrapped)
    Rule.parse = classmethod(checked)
    return mon
