"""Controlled thread scheduler on sys.monitoring LINE events (baton passing).

Managed worker threads run ONE AT A TIME.  Every LINE event inside a target function (the
initialisation / registry code of utype) is a numbered preemption point of the running worker; a
*plan* {(worker, local step): next worker} says where the baton moves.  Without a plan entry a
worker runs until it finishes, then the baton goes to the next unfinished worker.  Line granularity
is a subset of what the GIL permits, so no impossible interleaving is manufactured; runs are
deterministic and replayable from (system, plan)."""
import os
import sys
import threading

mon = sys.monitoring
TOOL = mon.PROFILER_ID


class Deadlock(Exception):
    pass


class LibraryDeadlock(Exception):
    """every managed worker is blocked on a lock created by the library: a real deadlock"""


CURRENT = [None]
_real_RLock = threading.RLock
_real_Lock = threading.Lock


class CoopLock:
    """Stand-in for a threading.Lock / RLock the library creates while the system under test is
    built (see `cooperative_locks`).  Semantics are those of the real lock it wraps; the only
    difference is that a managed worker that would BLOCK tells the scheduler instead of sleeping in
    C: the baton moves to another worker (as an OS scheduler would do) and the acquisition is
    retried when the baton comes back.  If every unfinished worker is blocked this way the library
    has deadlocked (LibraryDeadlock)."""

    def __init__(self, real):
        self._real = real

    def acquire(self, blocking=True, timeout=-1):
        if self._real.acquire(False):
            return True
        if not blocking:
            return False
        s = CURRENT[0]
        w = s.idents.get(threading.get_ident()) if s is not None and s.active and s.free_yield is None else None
        if w is None:
            return self._real.acquire(True, timeout)
        rounds = 0
        while True:
            s.lock_wait(w)
            if self._real.acquire(False):
                s.waiting.discard(w)
                s.fail_streak = 0
                return True
            rounds += 1
            if rounds > 5000:
                raise Deadlock(f"worker {w} retried a library lock 5000 times")

    def release(self):
        self._real.release()

    def __enter__(self):
        self.acquire()
        return self

    def __exit__(self, *a):
        self.release()

    def locked(self):
        return self._real.locked()


class cooperative_locks:
    """context manager: locks created via threading.Lock()/RLock() inside are CoopLocks"""

    def __enter__(self):
        threading.RLock = lambda: CoopLock(_real_RLock())
        threading.Lock = lambda: CoopLock(_real_Lock())

    def __exit__(self, *a):
        threading.RLock = _real_RLock
        threading.Lock = _real_Lock


class Scheduler:
    def __init__(self, targets):
        """targets: set of (filename suffix, function name) whose lines are preemption points"""
        import utype

        self.root = os.path.dirname(os.path.realpath(utype.__file__)) + os.sep
        self.targets = targets
        self.installed = False
        self.lock = threading.Lock()
        self.reset({}, 0)

    # -- lifecycle ------------------------------------------------------------------------------
    def install(self):
        if self.installed:
            return True
        try:
            if mon.get_tool(TOOL) is None:
                mon.use_tool_id(TOOL, "vmon-sched")
            mon.register_callback(TOOL, mon.events.LINE, self._line)
            mon.set_events(TOOL, mon.events.LINE)
            self.installed = True
        except Exception:
            return False
        return True

    def reset(self, plan, nworkers, free_yield=None):
        self.plan = dict(plan)
        self.n = nworkers
        self.events = [threading.Event() for _ in range(nworkers)]
        self.done = [False] * nworkers
        self.steps = [0] * nworkers
        self.idents = {}
        self.where = [[] for _ in range(nworkers)]   # file of every step (baseline runs, when record_where is set)
        self.record_where = not plan and free_yield is None
        self.trace = []          # (worker, local step, file:line) of every switch
        self.locations = set()   # distinct (file, line) seen as preemption points
        self.active = False
        self.holder = None
        self.blocked_switches = 0
        self.lock_switches = 0
        self.waiting = set()
        self.fail_streak = 0
        self.free_yield = free_yield  # callable(worker, step) -> bool : sleep(0) injection for free-running stress

    # -- monitoring callback --------------------------------------------------------------------
    def _is_target(self, code):
        fn = code.co_filename
        if not fn.startswith(self.root):
            return False
        rel = fn[len(self.root):]
        return (rel, code.co_name) in self.targets or (rel, "*") in self.targets

    def _line(self, code, line):
        if not self._is_target(code):
            return mon.DISABLE
        if not self.active:
            return None
        w = self.idents.get(threading.get_ident())
        if w is None:
            return None
        self.steps[w] += 1
        self.fail_streak = 0
        k = self.steps[w]
        self.locations.add((code.co_filename[len(self.root):], line))
        if self.record_where:
            self.where[w].append(code.co_filename[len(self.root):])
        if self.free_yield is not None:
            if self.free_yield(w, k):
                import time
                time.sleep(0)
            return None
        if self.holder != w:
            # this worker was blocked on one of the library's own locks while the baton moved on
            # (see _handover); it has the lock now but must wait for its turn
            self._await_baton(w)
        nxt = self.plan.get((w, k))
        if nxt is not None and not self.done[nxt] and nxt != w:
            self.trace.append((w, k, f"{code.co_filename[len(self.root):]}:{line}", nxt))
            self._handover(w, nxt)
        return None

    def lock_wait(self, w):
        """worker w (holding the baton) found a library lock taken: pass the baton on"""
        if self.holder != w:
            self._await_baton(w)
        self.waiting.add(w)
        self.fail_streak += 1
        if self.fail_streak > 4 * self.n:
            # every unfinished worker has retried several times in a row and nobody made a step
            raise LibraryDeadlock(f"workers {sorted(self.waiting)} wait for library locks and none can proceed; finished: {[i for i in range(self.n) if self.done[i]]}")
        for d in range(1, self.n + 1):
            o = (w + d) % self.n
            if o != w and not self.done[o]:
                self.lock_switches += 1
                if len(self.trace) < 200:
                    self.trace.append((w, self.steps[w], "waits-for-library-lock", o))
                self._handover(w, o)
                return
        raise LibraryDeadlock(f"worker {w} waits for a library lock that no running worker holds")

    def _await_baton(self, w):
        waited = 0.0
        while self.holder != w:
            self.events[w].wait(timeout=0.05)
            self.events[w].clear()
            waited += 0.05
            if waited > 20:
                raise Deadlock(f"worker {w} never got the baton")

    def _give(self, nxt):
        self.holder = nxt
        self.events[nxt].set()

    def _handover(self, me, nxt):
        """Give the baton to nxt and wait for it to come back.  A library lock makes this subtle:
        if `me` is preempted while holding a lock that `nxt` then blocks on, nxt can make no step
        and would never pass the baton on.  A worker that makes no target step for BLOCKED_AFTER
        seconds and has not finished is taken to be blocked on a lock: the baton returns to `me`
        (exactly what an OS scheduler does), the switch is recorded, and nxt waits for its turn at
        its next step once it has the lock."""
        self.events[me].clear()
        self._give(nxt)
        idle = 0.0
        seen = self.steps[nxt]
        total = 0.0
        while self.holder != me:
            self.events[me].wait(timeout=0.02)
            self.events[me].clear()
            if self.holder == me:
                break
            total += 0.02
            cur = self.steps[nxt] if self.holder == nxt else -1
            if self.holder == nxt and not self.done[nxt] and cur == seen:
                idle += 0.02
                if idle >= self.BLOCKED_AFTER:
                    with self.lock:
                        if self.holder == nxt and self.steps[nxt] == seen and not self.done[nxt]:
                            self.holder = me
                            self.blocked_switches += 1
                            self.trace.append((nxt, seen, "blocked-on-lock", me))
                    if self.holder == me:
                        break
                    idle = 0.0
            else:
                idle = 0.0
                seen = cur
                nxt = self.holder if self.holder is not None and self.holder != me else nxt
                seen = self.steps[nxt]
            if total > 25:
                raise Deadlock(f"worker {me} never got the baton back")

    BLOCKED_AFTER = 0.25

    # -- running ---------------------------------------------------------------------------------
    def run(self, thunks, first=0):
        """thunks: list of callables (one per worker). Returns after all finished. Controlled mode."""
        results = [None] * self.n
        threads = []

        def body(w):
            self.idents[threading.get_ident()] = w
            try:
                self._await_baton(w)
            except Deadlock:
                results[w] = ("deadlock", None)
                self.done[w] = True
                return
            try:
                results[w] = ("done", thunks[w]())
            except BaseException as e:  # noqa
                results[w] = ("raised", e)
            finally:
                self.done[w] = True
                self.waiting.discard(w)
                # pass the baton to the next unfinished worker (round robin)
                for d in range(1, self.n + 1 if self.holder == w else 0):
                    o = (w + d) % self.n
                    if not self.done[o]:
                        self._give(o)
                        break

        for w in range(self.n):
            t = threading.Thread(target=body, args=(w,), daemon=True)
            threads.append(t)
        CURRENT[0] = self
        self.active = True
        for t in threads:
            t.start()
        self._give(first)
        for t in threads:
            t.join(timeout=40)
        self.active = False
        if any(t.is_alive() for t in threads):
            raise Deadlock("a worker is still blocked after 30 s")
        return results

    def run_free(self, thunks):
        """free-running stress: real parallel threads, barrier start, optional sleep(0) injection"""
        results = [None] * self.n
        barrier = threading.Barrier(self.n)

        def body(w):
            self.idents[threading.get_ident()] = w
            try:
                barrier.wait(timeout=10)
                results[w] = ("done", thunks[w]())
            except BaseException as e:  # noqa
                results[w] = ("raised", e)

        threads = [threading.Thread(target=body, args=(w,), daemon=True) for w in range(self.n)]
        self.active = True
        for t in threads:
            t.start()
        for t in threads:
            t.join(timeout=30)
        self.active = False
        if any(t.is_alive() for t in threads):
            raise Deadlock("a free-running worker did not finish in 30 s")
        return results
