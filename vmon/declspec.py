"""DeclSpec: generated data-class / function declarations over the Field parameter space, their
builders (through the public declaration API) and input-mapping generators.

A DeclSpec is plain data:
  {"base": "Schema"|"DataClass"|"function", "options": {...class Options...},
   "fields": [{"name", "type", "required", "default", "factory", "defer_default", "alias", "alias_from",
               "case_insensitive", "no_input", "no_output", "mode", "readonly", "writeonly", "dependencies",
               "on_error", "immutable"}, ...]}
Field types are deliberately trivial (int / str / List[int] / Optional[int]) so conversion is predictable."""
import itertools
import typing

from . import GENERATED

NODEF = "<nodefault>"
_uid = itertools.count()

TYPES = {
    "int": (int, [5, 0, -3], ["5", b"7", 5.0], ["x", None, [1, 2], {}]),
    "str": (str, ["ab", ""], [5, b"xy"], []),
    "listint": (typing.List[int], [[1, 2], []], ["1,2", ("3",), ["4"]], ["x,y", [None], {"a": 1}]),
    "optint": (typing.Optional[int], [5, None], ["5", "null"], ["x", [1, 2]]),
}
DEFAULTS = {"int": [7, 0], "str": ["d", ""], "listint": [[9], []], "optint": [None, 3], "dictint": [{}], "unionil": [1], "tuple2": [(0, "z")],
            "andpos": [1], "nested": [None], "posint": [2], "xorpos": [12], "noteven": [3], "typeint": [int], "listtype": [[int]]}
_EXT = {}


def ext_types():
    """richer field types (nested failures, unions whose every branch fails, conjunctions, nested data class)"""
    if _EXT:
        return _EXT
    import utype
    from utype import Rule
    from utype.parser.rule import LogicalType

    class Inner(utype.Schema):
        p: int
        q: int = 0

    Inner.__module__ = "vmon_generated"
    Pos = Rule.annotate(int, constraints={"ge": 0})
    Even = Rule.annotate(int, constraints={"multiple_of": 2})
    Small = Rule.annotate(int, constraints={"le": 10})
    _EXT.update({
        "dictint": (typing.Dict[str, int], [{"a": 1}, {}], [{"a": "1"}, [("k", 2)]], [{"a": "x"}, "zzz", {"a": "x", "b": "y"}]),
        "unionil": (typing.Union[int, typing.List[int]], [5, [1]], ["5", ["2"]], ["x", ["x"], {"a": 1}]),
        "tuple2": (typing.Tuple[int, str], [(1, "a")], [["1", "a"], ("2", b"b")], [(1,), ("x", "a"), "q"]),
        "andpos": (LogicalType.all_of(Pos, Even), [4, 0], ["6"], [3, -2, "x"]),
        "posint": (Pos, [3, 0], ["4"], [-1, "x"]),
        # exclusive-or / negation: their verdict is taken from errors recorded on the context while parsing
        "xorpos": (LogicalType.one_of(Pos, Small), [12, -4], ["20"], [4, 0, 7]),     # >=0 ^ <=10: both accept 0..10
        "noteven": (LogicalType.not_of(Even), [3, -1], [], [4, 0, "6"]),
        "nested": (typing.Optional[Inner], [None, {"p": 1}], [{"p": "1", "q": "2"}], [{"q": 1}, {"p": "x", "q": "y"}, 5]),
        # class-valued: a subclass check whose failure is recorded on the context
        "typeint": (typing.Type[int], [int, bool], [], [str, dict, float]),
        "listtype": (typing.List[typing.Type[int]], [[int], [bool, int], []], [], [[str], [int, dict], [float, str]]),
    })
    return _EXT


def type_info(t):
    return TYPES[t] if t in TYPES else ext_types()[t]


def no_input_none(v):
    return v is None


def no_output_none(v):
    return v is None


def fac_list():
    return [9]


def fac_seven():
    return 7


CALLABLES = {"no_input_none": no_input_none, "no_output_none": no_output_none, "fac_list": fac_list, "fac_seven": fac_seven}


def gen_field(rng, i, names, rich=True, for_function=False):
    name = names[i]
    t = rng.choice(["int", "int", "str", "listint", "optint"])
    f = {"name": name, "type": t, "required": None, "default": NODEF, "factory": None, "defer_default": False, "alias": None,
         "alias_from": [], "case_insensitive": None, "no_input": None, "no_output": None, "mode": None, "readonly": False,
         "writeonly": False, "dependencies": [], "on_error": None, "immutable": False}
    r = rng.random()
    if r < 0.45:
        pass  # required, no default
    elif r < 0.75:
        f["default"] = rng.choice(DEFAULTS[t])
    elif r < 0.85:
        f["factory"] = "fac_list" if t == "listint" else ("fac_seven" if t in ("int", "optint") else None)
        if f["factory"] is None:
            f["default"] = rng.choice(DEFAULTS[t])
    else:
        f["required"] = False
    if not rich:
        return f
    if f["default"] is not NODEF or f["factory"]:
        if rng.random() < 0.12:
            f["defer_default"] = True
        if rng.random() < 0.15 and not for_function:
            f["required"] = rng.choice(["r", "w", "a"])
    elif rng.random() < 0.1 and not for_function:
        f["required"] = rng.choice(["r", "w", "a", "rw"])
    if rng.random() < 0.3:
        f["alias"] = name.upper() + "a" if rng.random() < 0.5 else name + "_al"
    if rng.random() < 0.3:
        # ("straße<k>": a non-ASCII spelling whose casefold() differs from its lower())
        f["alias_from"] = rng.sample([name + "_x", name.upper() + "Y", name + "-z", "@" + name, "straße" + name[-1]], rng.choice([1, 1, 2]))
    if rng.random() < 0.2:
        f["case_insensitive"] = rng.choice([True, True, False])
    if not for_function:
        r = rng.random()
        if r < 0.08:
            f["no_input"] = True
        elif r < 0.14:
            f["no_input"] = rng.choice(["r", "w", "a"])
        elif r < 0.18:
            f["no_input"] = "no_input_none"
        r = rng.random()
        if r < 0.08:
            f["no_output"] = True
        elif r < 0.14:
            f["no_output"] = rng.choice(["r", "w", "a"])
        elif r < 0.18:
            f["no_output"] = "no_output_none"
        r = rng.random()
        if r < 0.08:
            f["mode"] = rng.choice(["r", "w", "rw", "ra", "wa"])
        elif r < 0.12:
            f["readonly"] = True
        elif r < 0.16:
            f["writeonly"] = True
        if rng.random() < 0.08:
            f["immutable"] = True
    if i > 0 and rng.random() < 0.15:
        f["dependencies"] = rng.sample(names[:i], 1)
    r = rng.random()
    if r < 0.08 and (f["default"] is not NODEF or f["factory"] or f["required"] is False):
        f["on_error"] = "exclude"
    elif r < 0.14:
        f["on_error"] = "preserve"
    elif r < 0.17:
        f["on_error"] = "throw"
    return f


def gen_options(rng, rich=True, for_function=False):
    o = {}
    if not rich:
        return o
    if rng.random() < 0.35 and not for_function:
        o["mode"] = rng.choice(["r", "w", "a"])
    if rng.random() < 0.15:
        o["case_insensitive"] = True
    r = rng.random()
    if r < 0.15:
        o["addition"] = True
    elif r < 0.3:
        o["addition"] = False
    elif r < 0.36 and not for_function:
        o["addition"] = "int"
    # ignore_required / no_default / force_default / defer_default are data-class options: a function's
    # defaults are Python's own, so these are not generated for functions
    if rng.random() < 0.08 and not for_function:
        o["ignore_required"] = True
    if rng.random() < 0.06 and not for_function:
        o["no_default"] = True
    if rng.random() < 0.05 and not for_function:
        o["force_default"] = rng.choice([None, 0])
    if rng.random() < 0.05 and not for_function:
        o["defer_default"] = True
    if rng.random() < 0.1:
        o["ignore_alias_conflicts"] = True
    if rng.random() < 0.06:
        o["max_params"] = rng.choice([1, 2, 3])
    if rng.random() < 0.05:
        o["min_params"] = rng.choice([1, 2])
    if rng.random() < 0.12:
        o["invalid_values"] = rng.choice(["exclude", "preserve"])
    return o


def gen_decl(rng, base=None, nmax=5, rich=True):
    base = base or rng.choice(["Schema", "Schema", "DataClass", "function"])
    n = rng.randint(1, nmax)
    names = ["f%d" % j for j in range(n)]
    if rng.random() < 0.15:
        names[rng.randrange(n)] = rng.choice(["Name", "userId", "x"])
    fn = base == "function"
    return {"base": base, "options": gen_options(rng, rich, fn), "fields": [gen_field(rng, j, names, rich, fn) for j in range(n)]}


# ---- build -------------------------------------------------------------------------------------
def _field_obj(f, for_function=False):
    import utype

    kw = {}
    if f["required"] is not None:
        kw["required"] = f["required"]
    if f["default"] is not NODEF:
        kw["default"] = f["default"]
    if f["factory"]:
        kw["default_factory"] = CALLABLES[f["factory"]]
    if f["defer_default"]:
        kw["defer_default"] = True
    if f["alias"]:
        kw["alias"] = f["alias"]
    if f["alias_from"]:
        kw["alias_from"] = list(f["alias_from"])
    if f["case_insensitive"] is not None:
        kw["case_insensitive"] = f["case_insensitive"]
    for k in ("no_input", "no_output"):
        if f[k] is not None:
            kw[k] = CALLABLES.get(f[k], f[k]) if isinstance(f[k], str) and f[k] in CALLABLES else f[k]
    if f["mode"]:
        kw["mode"] = f["mode"]
    if f["readonly"]:
        kw["readonly"] = True
    if f["writeonly"]:
        kw["writeonly"] = True
    if f["dependencies"]:
        kw["dependencies"] = list(f["dependencies"])
    if f["on_error"]:
        kw["on_error"] = f["on_error"]
    if f["immutable"]:
        kw["immutable"] = True
    return (utype.Param if for_function else utype.Field)(**kw)


def _needs_field_obj(f):
    return any([f["required"] is not None, f["factory"], f["defer_default"], f["alias"], f["alias_from"], f["case_insensitive"] is not None,
                f["no_input"] is not None, f["no_output"] is not None, f["mode"], f["readonly"], f["writeonly"], f["dependencies"],
                f["on_error"], f["immutable"]])


def make_options(o, **extra):
    from utype import Options

    d = dict(o)
    if d.get("addition") == "int":
        d["addition"] = int
    d.update(extra)
    return Options(**d)


def build(decl, extra_options=None):
    """-> class (Schema/DataClass) or decorated function; raises what the library raises for illegal declarations"""
    import utype

    opts = make_options(decl["options"], **(extra_options or {}))
    if decl["base"] == "function":
        return build_function(decl, opts)
    form = decl.get("options_form")
    if form:
        # the documented class form of options: `class __options__(Options): addition = False ...`; with "class-inherit" the
        # class derives from a user's shared Options subclass that sets OTHER values for the same options (the inner ones govern)
        from utype import Options
        kw = dict(decl["options"], **(extra_options or {}))
        if kw.get("addition") == "int":
            kw["addition"] = int
        parent = Options
        if form == "class-inherit":
            flipped = {}
            for k, v in kw.items():
                if isinstance(v, bool):
                    flipped[k] = not v
                elif k == "addition":
                    flipped[k] = True if v in (False, None) else False
                elif k in ("max_params", "min_params", "max_errors", "max_depth") and isinstance(v, int):
                    flipped[k] = v + 7
            parent = type(Options)("ProjectOptions", (Options,), flipped)
        opts = type(Options)("__options__", (parent,), kw)
    basecls = utype.Schema if decl["base"] == "Schema" else utype.DataClass
    name = "D%d" % next(_uid)
    def namespace(fields, qual):
        ns = {"__annotations__": {}, "__module__": "vmon_generated", "__qualname__": qual, "__options__": opts}
        for f in fields:
            ns["__annotations__"][f["name"]] = type_info(f["type"])[0]
            if _needs_field_obj(f):
                ns[f["name"]] = _field_obj(f)
            elif f["default"] is not NODEF:
                ns[f["name"]] = f["default"]
        return ns

    bases = (basecls,)
    if decl.get("parent"):
        # inheritance: a base class declares (some of) the fields differently; the subclass re-declares them
        bases = (type(basecls)(name + "Base", (basecls,), namespace(decl["parent"], name + "Base")),)
    cls = type(basecls)(name, bases, namespace(decl["fields"], name))
    return cls


def build_function(decl, opts):
    import utype

    params = []
    ns = {"utype": utype, "typing": typing, "_F": {}}
    for f in decl["fields"]:
        tname = {"int": "int", "str": "str", "listint": "typing.List[int]", "optint": "typing.Optional[int]"}.get(f["type"])
        if tname is None:
            ns.setdefault("_T", {})[f["type"]] = type_info(f["type"])[0]
            tname = f"_T[{f['type']!r}]"
        if _needs_field_obj(f) or f["default"] is not NODEF:
            if _needs_field_obj(f):
                ns["_F"][f["name"]] = _field_obj(f, for_function=True)
            else:
                ns["_F"][f["name"]] = f["default"]
            params.append(f"{f['name']}: {tname} = _F[{f['name']!r}]")
        else:
            params.append(f"{f['name']}: {tname}")
    # required (no default) parameters first is Python's rule for positional params; keyword-only avoids it
    src = "def fn(*, " + ", ".join(params) + ", **kwargs):\n    _seen.append(dict(locals()))\n    r = dict(locals()); r.pop('kwargs'); r.update(kwargs); return r\n"
    ns["_seen"] = []
    exec(src, ns)
    w = utype.parse(ns["fn"], options=opts)
    w.__vmon_seen__ = ns["_seen"]
    return w


def drop(obj):
    try:
        from utype.parser import base as pbase

        pbase.__parsers__.pop(obj, None)
    except Exception:
        pass


# ---- inputs ------------------------------------------------------------------------------------
def spellings(f, decl):
    """accepted spellings (as the documentation describes) and some wrong-case variants"""
    acc = [f["name"]]
    if f["alias"]:
        acc.append(f["alias"])
    acc += list(f["alias_from"])
    ci = f["case_insensitive"] if f["case_insensitive"] is not None else bool(decl["options"].get("case_insensitive"))
    variants = []
    for s in acc:
        for v in (s.upper(), s.lower(), s.swapcase(), _upper_1to1(s), s[:1].upper() + s[1:]):
            # a letter-case variant is a key that lower-cases to the same text ('STRASSE' is not one of 'straße')
            if v not in acc and v not in variants and v.lower() == s.lower():
                variants.append(v)
    return acc, variants, ci


def _upper_1to1(s):
    """upper-case the characters whose upper case is one character that lower-cases back ('straße' -> 'STRAßE')"""
    return "".join(c.upper() if len(c.upper()) == 1 and c.upper().lower() == c else c for c in s)


def gen_input(rng, decl, p_absent=0.25, p_extra=0.3, value_mix=(0.6, 0.25, 0.15)):
    """-> (list of (key, value) pairs in insertion order, plan) ; plan records per field what was done"""
    pairs = []
    plan = {}
    for f in decl["fields"]:
        acc, variants, ci = spellings(f, decl)
        r = rng.random()
        if r < p_absent:
            plan[f["name"]] = "absent"
            continue
        valid, conv, invalid = type_info(f["type"])[1:]
        rv = rng.random()
        if rv < value_mix[0] or (not conv and not invalid):
            val, vk = rng.choice(valid), "valid"
        elif rv < value_mix[0] + value_mix[1] or not invalid:
            val, vk = rng.choice(conv or valid), "convertible"
        else:
            val, vk = rng.choice(invalid), "invalid"
        r = rng.random()
        if r < 0.6 or (len(acc) == 1 and not variants):
            key = rng.choice(acc)
            pairs.append((key, val))
            plan[f["name"]] = (vk, [key])
        elif r < 0.8 and variants:
            key = rng.choice(variants)
            pairs.append((key, val))
            plan[f["name"]] = (vk, [key])
        else:
            ks = rng.sample(acc + variants, min(2, len(acc + variants)))
            v2 = val if rng.random() < 0.5 else rng.choice(valid + conv)
            if len(ks) == 2 and isinstance(val, int) and not isinstance(val, bool) and rng.random() < 0.3:
                v2 = str(val)  # raw-unequal, equal after conversion
            pairs.append((ks[0], val))
            if len(ks) > 1:
                pairs.append((ks[1], v2))
            plan[f["name"]] = (vk, ks)
    if rng.random() < p_extra:
        for _ in range(rng.choice([1, 1, 2])):
            k = rng.choice(["extra", "zz", "_hidden", "F0", "f0 ", "kwargs", "self", "Extra"])
            pairs.append((k, rng.choice([1, "7", "x", None, [1]])))
    rng.shuffle(pairs)
    return pairs, plan


def to_mapping(pairs):
    d = {}
    for k, v in pairs:
        d[k] = v
    return d


def describe(decl):
    def fd(f):
        parts = [f"{f['name']}: {f['type']}"]
        for k in ("required", "factory", "alias", "case_insensitive", "no_input", "no_output", "mode", "on_error"):
            if f[k] is not None and f[k] is not False:
                parts.append(f"{k}={f[k]!r}")
        if f["default"] is not NODEF:
            parts.append(f"default={f['default']!r}")
        for k in ("defer_default", "readonly", "writeonly", "immutable"):
            if f[k]:
                parts.append(k)
        for k in ("alias_from", "dependencies"):
            if f[k]:
                parts.append(f"{k}={f[k]}")
        return " ".join(parts)

    d = {"base": decl["base"], "options": decl["options"], "fields": [fd(f) for f in decl["fields"]]}
    if decl.get("parent"):
        d["inherits_from_a_base_declaring"] = [fd(f) for f in decl["parent"]]
    if decl.get("options_form"):
        d["options_written_as"] = {"class": "class __options__(Options): ...", "class-inherit": "class __options__(ProjectOptions): ... (ProjectOptions sets other values)"}[decl["options_form"]]
    return d


def shape(decl):
    """coarse declaration class for distinct counting"""
    def fs(f):
        return (f["type"], f["required"], f["default"] is not NODEF or bool(f["factory"]), bool(f["alias"]), len(f["alias_from"]),
                f["case_insensitive"], f["no_input"] if not callable(f["no_input"]) else "fn", f["no_output"], f["mode"], f["readonly"],
                f["writeonly"], bool(f["dependencies"]), f["on_error"], f["defer_default"])
    return (decl["base"], tuple(sorted((k, str(v)) for k, v in decl["options"].items())), tuple(fs(f) for f in decl["fields"]))
