"""pytest plugin: run the repository's own tests as one more monitored workload (DESIGN 3.6).

Loaded with `-p vmon.pytest_plugin`.  Attaches the online Rule.parse postcondition (icontract) and an
exception-class recorder, and writes what they observed to $VMON_PLUGIN_OUT.  It is the cheapest
false-alarm detector: a monitor that fires on a passing test is either too strict or has found
something the test does not assert."""
import json
import os

_S = {}


def pytest_configure(config):
    os.environ.setdefault("UTYPE_VERIF_MONITORS", "1")
    from vmon.monitors import attach

    _S["mon"] = attach.attach_rule_parse_monitor()


def pytest_sessionfinish(session, exitstatus):
    out = os.environ.get("VMON_PLUGIN_OUT")
    mon = _S.get("mon")
    if not out or mon is None:
        return
    with open(out, "w") as f:
        json.dump({"exitstatus": int(exitstatus), "tests_collected": session.testscollected, "tests_failed": session.testsfailed,
                   "counters": mon.counters, "violations": [[k, w, d] for k, w, d in mon.violations]}, f)
